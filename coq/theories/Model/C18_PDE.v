(* C18 -- executable model of cuqi.pde (PDE grids, LinearPDE._solve_linear_system, SteadyStateLinearPDE,
   TimeDependentLinearPDE) and of cuqi.model.PDEModel's assemble-solve-observe pipeline.
   Exact arithmetic over Qc; the linear solver, the interpolation routines of scipy, the observation map
   and the PDE form are parameters (Section variables).  For running, they are instantiated at the end of
   this file by: an affine family of PDE forms / a tabulated form; an exactly computable stand-in solver or
   the table of the calls the real solver answered (certificate, law checked); the interpolation routines
   themselves (interp1_quad, interp2_cubic: exact interpolating splines, Model/C18_Spline.v) -- the table of the
   calls scipy's interpolation answered is no longer an input of the run, it is COMPARED with the in-model
   routines entry by entry (i1_model_ok, i2_model_ok) besides the node-exactness law.  No proofs here. *)
From CV Require Import Base.Tac Base.LinAlg Base.Cmp Base.QcLin Model.C18_Spline.
From Coq Require Import QArith Qcanon Qabs.

Definition qv := list Qc.
Definition qm := list (list Qc).

(* Python exceptions, by class *)
Inductive err := EValue | EIndex | EUnbound | ENotAssembled | EAttr | ENotImpl | EType | EOther.
Inductive res (A : Type) := Ok (a : A) | Er (e : err).
Arguments Ok {A}. Arguments Er {A}.

Definition err_eqb (a b : err) : bool :=
  match a, b with
  | EValue, EValue | EIndex, EIndex | EUnbound, EUnbound | ENotAssembled, ENotAssembled
  | EAttr, EAttr | ENotImpl, ENotImpl | EType, EType | EOther, EOther => true
  | _, _ => false
  end.

(* ---------------- small matrix algebra on lists of rows ---------------- *)
Fixpoint map2 {A B C} (f : A -> B -> C) (x : list A) (y : list B) : list C :=
  match x, y with a :: x', b :: y' => f a b :: map2 f x' y' | _, _ => [] end.

Definition madd (A B : qm) : qm := map2 qvadd A B.
Definition msub (A B : qm) : qm := map2 qvsub A B.
Definition mscale (c : Qc) (A : qm) : qm := map (qvscale c) A.
Definition eye (n : nat) : qm := map (qunit n) (seq 0 n).            (* np.eye(n) *)
Definition is_square (n : nat) (A : qm) : bool :=
  (length A =? n)%nat && forallb (fun r => (length r =? n)%nat) A.
Definition wf_sys (n : nat) (A : qm) (b : qv) : bool := is_square n A && (length b =? n)%nat.

Fixpoint last_opt {A} (l : list A) : option A :=
  match l with [] => None | [x] => Some x | _ :: r => last_opt r end.
Definition last1 {A} (l : list A) : list A :=                       (* l[-1:] *)
  match last_opt l with Some x => [x] | None => [] end.

(* index_of x l = position of the first occurrence of x in l *)
Fixpoint index_of (x : Qc) (l : qv) : option nat :=
  match l with [] => None | y :: r => if qc_eqb x y then Some O else option_map S (index_of x r) end.
Definition nthq (l : qv) (k : nat) : Qc := nth k l 0%Qc.
Fixpoint opt_all {A} (l : list (option A)) : option (list A) :=
  match l with
  | [] => Some []
  | Some a :: r => match opt_all r with Some r' => Some (a :: r') | None => None end
  | None :: _ => None
  end.

(* numpy broadcasting of a scalar / one-element source term against a vector of n nodes: dt*rhs + vector *)
Definition bc (n : nat) (b : qv) : qv := match b with [c] => repeat c n | _ => b end.

(* purely relative closeness: |a_i - b_i| <= tol * scale for all i, scale = largest |entry| of the expected object
   (tol = 0: equality).  No absolute part: comparisons are invariant under rescaling of the solution values. *)
Definition qmax (a b : Q) : Q := if Qle_bool a b then b else a.
Definition maxabs (v : qv) : Q := fold_right (fun x m => qmax (Qabs (this x)) m) 0%Q v.
Definition maxabs2 (m : qm) : Q := fold_right (fun r acc => qmax (maxabs r) acc) 0%Q m.
Definition vrel (tol scale : Q) (a b : qv) : bool :=
  list_eqb (fun x y => Qle_bool (Qabs (this x - this y)) (tol * scale)) a b.
Definition mrel (tol scale : Q) (a b : qm) : bool := list_eqb (vrel tol scale) a b.
Definition qcl_rel (tol : Q) (a b : qv) : bool := vrel tol (maxabs b) a b.
Definition qcll_rel (tol : Q) (a b : qm) : bool := mrel tol (maxabs2 b) a b.

(* ---------------- LinearPDE._solve_linear_system ---------------- *)
(* what a user-supplied linalg_solve returns: the solution alone, or a tuple (solution, val1, val2, ...) *)
Inductive sret (I : Type) := SPlain (x : qv) | STuple (x : qv) (info : list I).
Arguments SPlain {I}. Arguments STuple {I}.
Definition split_ret {I} (r : sret I) : qv * option (list I) :=
  match r with SPlain x => (x, None) | STuple x i => (x, Some i) end.

(* ---------------- PDE.grid_sol / grid_obs setters and _compare_grid ---------------- *)
Definition grid := option qv.
Definition compare_grid (g1 g2 : grid) : bool :=
  match g1, g2 with
  | None, _ | _, None => true                      (* "if one of the grids are none, we assume they are equal" *)
  | Some a, Some b => qcl_eqb a b                  (* same length and (a == b).all() *)
  end.
Record grids := mkG { g_sol : grid; g_obs : grid; g_eq : bool }.
Definition grids0 : grids := mkG None None true.  (* before __init__ has set anything (no _grid_* attributes) *)
Definition set_grid_sol (G : grids) (v : grid) : grids := mkG v (g_obs G) (compare_grid v (g_obs G)).
Definition set_grid_obs (G : grids) (v : grid) : grids :=
  let v' := match v with None => g_sol G | Some _ => v end in
  mkG (g_sol G) v' (compare_grid v' (g_sol G)).
Definition init_grids (gs go : grid) : grids := set_grid_obs (set_grid_sol grids0 gs) go.   (* PDE.__init__ *)
Inductive grid_op := SetSol (v : grid) | SetObs (v : grid).
Definition grid_step (G : grids) (o : grid_op) : grids :=
  match o with SetSol v => set_grid_sol G v | SetObs v => set_grid_obs G v end.

(* ---------------- numpy arrays of rank 0, 1, 2 and squeeze ---------------- *)
Inductive arr := A0 (x : Qc) | A1 (v : qv) | A2 (m : qm).            (* A2: list of rows (first axis) *)
(* observe() after /repo 64a5926 + its follow-up: for a single observation time the TIME axis (the last one, length 1) of a
   2-d result is dropped -- `solution_obs.squeeze(axis=-1)` under the guard `ndim > 1 and shape[-1] == 1`; rank-0/1 results
   and 2-d results whose last axis is not 1 are left as they are, a space axis of length 1 is never dropped.  (Before the
   repair: `squeeze()` of every axis of length 1, which turned one observed node into a 0-d value.) *)
Definition squeeze (a : arr) : arr :=
  match a with
  | A0 x => A0 x
  | A1 v => A1 v
  | A2 m => if forallb (fun r => (length r =? 1)%nat) m then A1 (map (fun r => hd 0%Qc r) m) else A2 m
  end.

(* the time-stepping method as the constructor sees it *)
Inductive method :=
  | MFwd            (* 'forward_euler' *)
  | MBwd            (* 'backward_euler' *)
  | MCaseFwd        (* a case variant such as 'Forward_Euler': passes the setter's .lower() test *)
  | MCaseBwd
  | MBad.           (* any other string: ValueError in the setter *)

(* time_obs argument of the constructor *)
Inductive tobs_arg := TONone | TOFinal | TOAll | TOBadStr | TOArr (l : qv).   (* strings are lower()-ed by the code *)

(* Three places where today's code deviates on degenerate configurations (see known_findings.tsv, fixes/C18_*.diff).
   true = behaviour of the code as it is, false = behaviour after the proposed repair.  The harness determines the
   state of the tree by replaying the witnesses. *)
Record quirks := mkQ {
  q_method_case : bool;    (* solve() compares the un-lowered method string: case variants run no loop and fail on `info` *)
  q_be_single : bool;      (* backward Euler on a one-level time grid never binds `info`: UnboundLocalError *)
  q_tobs_all : bool;       (* "final time" test is np.all(time_steps[-1:] == time_obs): broadcasts over time_obs *)
  q_spline_route : bool;   (* only (equal grids, final time) is restricted directly; every other request, also one whose nodes and
                              times all coincide with stored ones, goes through RectBivariateSpline (open finding; repair proposed) *)
  q_subgrid_route : bool   (* ... and, once coinciding TIMES are restricted on equal grids (minimal repair), a proper sub-grid of
                              solution nodes still goes through the spline (true) or is restricted as well (full repair: false) *)
}.
Definition quirks_code := mkQ true true true true true.           (* the code as first met *)
Definition quirks_fixed := mkQ false false false true true.       (* after the three repairs that are applied in /repo *)
Definition quirks_minimal := mkQ false false false false true.    (* ... after fixes/C18_observe_restrict_minimal.diff (equal grids, stored times) *)
Definition quirks_repaired := mkQ false false false false false.  (* ... after fixes/C18_observe_restrict_coinciding.diff (sub-grids too) *)

(* ================================================================================================ *)
Section PDE.
Variable P : Type.                                   (* the Bayesian parameter handed to PDE_form *)
Variable I : Type.                                   (* extra return values of the linear solver *)
Variable solver : nat -> qm -> qv -> sret I.         (* k-th call of linalg_solve(A, b, **kwargs) *)
Definition solve_linear_system (k : nat) (A : qm) (b : qv) : qv * option (list I) := split_ret (solver k A b).

(* ---------------- SteadyStateLinearPDE ---------------- *)
Section Steady.
Variable sform : P -> qm * qv.                       (* PDE_form(parameter) = (diff_op, rhs) *)
Record sstate := mkSS { ss_sys : option (qm * qv) }.
Definition ss_assemble (s : sstate) (p : P) : sstate := mkSS (Some (sform p)).
Definition ss_solve (s : sstate) : res (qv * option (list I)) :=
  match ss_sys s with
  | None => Er ENotAssembled
  | Some (A, b) => Ok (solve_linear_system 0 A b)
  end.
Variable obsmap : option (arr -> res arr).
Variable interp1 : qv -> qv -> qv -> res qv.         (* interp1d(grid_sol, solution, kind='quadratic')(grid_obs) *)
Definition apply_obsmap (a : arr) : res arr := match obsmap with None => Ok a | Some f => f a end.
Definition ss_observe (G : grids) (sol : qv) : res (bool * arr) :=      (* bool: interpolation was used *)
  let pre := if g_eq G then Ok sol
             else match g_sol G, g_obs G with
                  | Some gs, Some go => interp1 gs sol go
                  | _, _ => Er EType
                  end in
  match pre with
  | Er e => Er e
  | Ok v => match apply_obsmap (A1 v) with Er e => Er e | Ok a => Ok (negb (g_eq G), a) end
  end.
(* PDEModel._forward_func on a steady PDE, from any previous state of the object *)
Definition ss_forward (G : grids) (s : sstate) (p : P) : res arr :=
  match ss_solve (ss_assemble s p) with
  | Er e => Er e
  | Ok (sol, _) => match ss_observe G sol with Er e => Er e | Ok (_, a) => Ok a end
  end.
End Steady.

(* ---------------- TimeDependentLinearPDE ---------------- *)
Section TimeDep.
Variable form : P -> Qc -> qm * qv * qv.             (* PDE_form(parameter, t) = (diff_op, rhs, initial_condition) *)
Variable Q : quirks.

(* u[:, idx+1] = (dt*diff_op + np.eye(len(u_pre))) @ u_pre + dt*rhs *)
Definition fe_step (A : qm) (b u : qv) (dt : Qc) : qv :=
  qvadd (qmatvec (madd (mscale dt A) (eye (length u))) u) (qvscale dt b).

(* for idx, t in enumerate(time_steps[:-1]): dt = time_steps[idx+1] - t; assemble_step(t); ... *)
Fixpoint fe_loop (p : P) (t : Qc) (rest : qv) (u : qv) : res (list qv) :=
  match rest with
  | [] => Ok []
  | t' :: rest' =>
      let '(A, b0, _) := form p t in
      let b := bc (length u) b0 in
      if wf_sys (length u) A b then
        let u' := fe_step A b u (t' - t)%Qc in
        match fe_loop p t' rest' u' with Ok ls => Ok (u' :: ls) | Er e => Er e end
      else Er EValue
  end.

(* A = np.eye(len(u_pre)) - dt*diff_op ;  right-hand side u_pre + dt*rhs *)
Definition be_system (A : qm) (b u : qv) (dt : Qc) : qm * qv :=
  (msub (eye (length u)) (mscale dt A), qvadd u (qvscale dt b)).

(* for idx, t in enumerate(time_steps[1:]): dt = t - time_steps[idx]; assemble_step(t); solve; `info` of the last solve *)
Fixpoint be_loop (p : P) (k : nat) (t : Qc) (rest : qv) (u : qv) (info : option (list I))
  : res (list qv * option (list I)) :=
  match rest with
  | [] => Ok ([], info)
  | t' :: rest' =>
      let '(A, b0, _) := form p t' in
      let b := bc (length u) b0 in
      if wf_sys (length u) A b then
        let '(M, r) := be_system A b u (t' - t)%Qc in
        let '(u', i') := solve_linear_system k M r in
        if (length u' =? length u)%nat then
          match be_loop p (S k) t' rest' u' i' with Ok (ls, ie) => Ok (u' :: ls, ie) | Er e => Er e end
        else Er EValue
      else Er EValue
  end.

(* which loop solve() runs for a method string that passed the setter *)
Definition effective_method (m : method) : res method :=
  match m with
  | MFwd => Ok MFwd
  | MBwd => Ok MBwd
  | MCaseFwd => if q_method_case Q then Er EUnbound else Ok MFwd
  | MCaseBwd => if q_method_case Q then Er EUnbound else Ok MBwd
  | MBad => Er EValue
  end.

(* solve(): the stored time levels (column k of `u` = k-th element of the list) and `info`.
   st_par = what assemble() stored; None before the first assemble (AttributeError). *)
Definition td_solve (m : method) (par : option P) (times : qv) : res (list qv * option (list I)) :=
  match par with
  | None => Er EAttr
  | Some p =>
    match times with
    | [] => Er EIndex
    | t0 :: rest =>
        let '(_, _, ic) := form p t0 in                   (* assemble_step(time_steps[0]) *)
        match effective_method m with
        | Er e => Er e
        | Ok MFwd => match fe_loop p t0 rest ic with Ok ls => Ok (ic :: ls, None) | Er e => Er e end
        | Ok _ =>
            match rest with
            | [] => if q_be_single Q then Er EUnbound else Ok ([ic], None)
            | _ => match be_loop p 0 t0 rest ic None with Ok (ls, i) => Ok (ic :: ls, i) | Er e => Er e end
            end
        end
    end
  end.

(* __init__: method setter, then time_obs parsing *)
Definition parse_time_obs (times : qv) (a : tobs_arg) : res qv :=
  match a with
  | TONone => Er EValue
  | TOFinal => Ok (last1 times)                           (* time_steps[-1:] *)
  | TOAll => Ok times
  | TOBadStr => Er EValue
  | TOArr l => Ok l
  end.
Definition td_init (m : method) (times : qv) (a : tobs_arg) : res qv :=
  match m with MBad => Er EValue | _ => parse_time_obs times a end.

(* np.all(self.time_steps[-1:] == self._time_obs) *)
Definition time_test (times tobs : qv) : bool :=
  match last_opt times with
  | None => false
  | Some T => if q_tobs_all Q then forallb (qc_eqb T) tobs else qcl_eqb [T] tobs
  end.

Variable obsmap : option (arr -> res arr).
(* RectBivariateSpline(grid_sol, time_steps, solution)(grid_obs, time_obs); solution given by its time levels *)
Variable interp2 : qv -> qv -> list qv -> qv -> qv -> res qm.

(* proposed repair of the spline route: a request all of whose nodes and times are stored ones is restricted exactly.
   Rows: positions of the grid_obs nodes in grid_sol (all nodes when the grids are equal); columns: positions of the
   time_obs entries in time_steps (first occurrence). *)
Definition coincide_rows (G : grids) (levels : list qv) : option (list nat) :=
  if g_eq G then Some (seq 0 (length (hd [] levels)))
  else if q_subgrid_route Q then None
  else match g_sol G, g_obs G with
       | Some gs, Some go => opt_all (map (fun x => index_of x gs) go)
       | _, _ => None
       end.
Definition coincide_cols (times tobs : qv) : option (list nat) := opt_all (map (fun t => index_of t times) tobs).
Definition restrict_to (rows cols : list nat) (levels : list qv) : qm :=
  map (fun a => map (fun b => nth a (nth b levels []) 0%Qc) cols) rows.

Definition coincide_restriction (G : grids) (times tobs : qv) (levels : list qv) : option qm :=
  if q_spline_route Q then None
  else match coincide_rows G levels, coincide_cols times tobs with
       | Some rows, Some cols => Some (restrict_to rows cols levels)
       | _, _ => None
       end.

Definition td_observe (G : grids) (times tobs : qv) (levels : list qv) : res (bool * arr) :=
  let restr := g_eq G && time_test times tobs in
  let coin := coincide_restriction G times tobs levels in
  let restr := restr || match coin with Some _ => true | None => false end in
  let pre := if g_eq G && time_test times tobs
             then match last_opt levels with Some u => Ok (A1 u) | None => Er EIndex end     (* solution[..., -1] *)
             else match coin with Some m => Ok (A2 m) | None =>
                  match g_sol G, g_obs G with
                  | Some gs, Some go => match interp2 gs times levels go tobs with Ok m => Ok (A2 m) | Er e => Er e end
                  | _, _ => Er EValue                          (* RectBivariateSpline(None, ...) : ValueError *)
                  end end in
  match pre with
  | Er e => Er e
  | Ok a => match apply_obsmap obsmap a with
            | Er e => Er e
            | Ok b => Ok (negb restr, if g_eq G && time_test times tobs then b       (* solution[..., -1]: no time axis left *)
                                      else if (length tobs =? 1)%nat then squeeze b else b)
            end
  end.

(* observe() on a solution with two space axes (solution.ndim = 3; time levels are matrices): solution[..., -1] on the
   restriction route, ValueError on the interpolation route ("not supported"); with the proposed repair and equal grids a
   request at stored times is restricted, too (one matrix per requested time) *)
Definition td_observe_2dspace (G : grids) (times tobs : qv) (levels : list qm) : res (list qm) :=
  if g_eq G && time_test times tobs
  then match last_opt levels with Some u => Ok [u] | None => Er EIndex end
  else if q_spline_route Q then Er EValue
       else match (if g_eq G then coincide_cols times tobs else None) with
            | Some cols => Ok (map (fun b => nth b levels []) cols)
            | None => Er EValue
            end.

(* PDEModel._forward_func: assemble(parameter=x); sol, info = solve(); observe(sol) -- `prev` is whatever
   parameter an earlier call left in the object *)
Definition td_assemble (prev : option P) (p : P) : option P := Some p.
Definition td_forward (G : grids) (m : method) (times tobs : qv) (prev : option P) (p : P) : res arr :=
  match td_solve m (td_assemble prev p) times with
  | Er e => Er e
  | Ok (levels, _) => match td_observe G times tobs levels with Er e => Er e | Ok (_, a) => Ok a end
  end.
End TimeDep.

(* ---------------- PDEModel._gradient_func ---------------- *)
Variable gwp : option (qv -> P -> qv).               (* pde.gradient_wrt_parameter(direction, wrt), if the PDE has it *)
Variable jwp : option (P -> qm).                     (* pde.jacobian_wrt_parameter(wrt) *)
Definition gradient_func (npar : nat) (direction : qv) (wrt : P) : res qv :=
  match gwp, jwp with
  | Some g, _ => Ok (g direction wrt)
  | None, Some J => Ok (qmattvec npar (J wrt) direction)              (* direction @ J *)
  | None, None => Er ENotImpl
  end.
End PDE.

(* Model.forward around _forward_func: par2fun of the domain geometry before, fun2par of the range geometry after *)
Definition model_forward {X P O} (par2fun : X -> P) (fun2par : arr -> O) (fwd : P -> res arr) (x : X) : res O :=
  match fwd (par2fun x) with Ok a => Ok (fun2par a) | Er e => Er e end.

(* ================================================================================================ *)
(* Instantiations used by the generated case files                                                   *)
(* ================================================================================================ *)

(* PDE forms: A(p,t) = A0 + t*At + sum_i p_i*Ap_i ; b(p,t) = b0 + t*bt + Bp p ; ic(p,t) = c0 + t*ct + Cp p *)
Record aform := mkAF { fA0 : qm; fAt : qm; fAp : list qm; fb0 : qv; fbt : qv; fBp : qm; fc0 : qv; fct : qv; fCp : qm }.
Fixpoint add_scaled (base : qm) (p : qv) (Es : list qm) : qm :=
  match p, Es with c :: p', E :: Es' => add_scaled (madd base (mscale c E)) p' Es' | _, _ => base end.
Definition aform_eval (f : aform) (p : qv) (t : Qc) : qm * qv * qv :=
  (add_scaled (madd (fA0 f) (mscale t (fAt f))) p (fAp f),
   qvadd (qvadd (fb0 f) (qvscale t (fbt f))) (qmatvec (fBp f) p),
   qvadd (qvadd (fc0 f) (qvscale t (fct f))) (qmatvec (fCp f) p)).

(* a form tabulated at the times at which the harness evaluated PDE_form independently (test problems) *)
Definition tform := list (Qc * (qm * qv * qv)).
Fixpoint tform_eval (tb : tform) (t : Qc) : qm * qv * qv :=
  match tb with
  | [] => ([], [], [])
  | (t', v) :: r => if qc_eqb t t' then v else tform_eval r t
  end.

Inductive form_spec := FAff (f : aform) | FTbl (tb : tform).
Definition form_of (fs : form_spec) (p : qv) (t : Qc) : qm * qv * qv :=
  match fs with FAff f => aform_eval f p t | FTbl tb => tform_eval tb t end.
Definition sform_of (fs : form_spec) (p : qv) : qm * qv :=
  let '(A, b, _) := form_of fs p 0%Qc in (A, b).

(* solvers *)
Definition fake_solve (A : qm) (b : qv) : qv :=                      (* (2I - A) b : exactly computable stand-in *)
  qmatvec (msub (mscale (qc (2 # 1)) (eye (length b))) A) b.
Definition sentry := (qm * qv * sret Z)%type.                        (* one recorded call: A, b, what came back *)
Inductive solver_spec :=
  | SSFake (tuple : option Z)          (* None: returns x ; Some tag: returns (x, k, tag), k = number of the call *)
  | SSTable (tbl : list sentry).       (* the calls the real solver answered, in order *)
Definition solver_of (tol : Q) (ss : solver_spec) (k : nat) (A : qm) (b : qv) : sret Z :=
  match ss with
  | SSFake None => SPlain (fake_solve A b)
  | SSFake (Some tag) => STuple (fake_solve A b) [Z.of_nat k; tag]
  | SSTable tbl =>
      match nth_error tbl k with
      | Some (A', b', r) => if qcll_eqb A' A && qcl_rel tol b' b then r else SPlain []
      | None => SPlain []
      end
  end.
(* certificate: every recorded answer satisfies the law of a linear solver, A x = b, to 1e-9 relative to
   max|b| + n max|A| max|x| (backward-error normalisation; no absolute part) *)
Definition law_scale (A : qm) (x b : qv) : Q := maxabs b + inject_Z (Z.of_nat (length x)) * maxabs2 A * maxabs x.
Definition sret_sol {I} (r : sret I) : qv := fst (split_ret r).
Definition solver_table_ok (ss : solver_spec) : bool :=
  match ss with
  | SSFake _ => true
  | SSTable tbl => forallb (fun e : sentry => let '(A, b, r) := e in
                     (length (sret_sol r) =? length b)%nat && vrel tol9 (law_scale A (sret_sol r) b) (qmatvec A (sret_sol r)) b) tbl
  end.

(* observation maps *)
Inductive omap_code :=
  | OMNone                 (* observation_map=None *)
  | OMSquare               (* lambda u: u**2 *)
  | OMScale (c : Qc)       (* lambda u: c*u *)
  | OMFirst                (* lambda u: u[0] *)
  | OMFrom (k : nat)       (* lambda u: u[k:] *)
  | OMMat (M : qm).        (* lambda u: M @ u *)
Definition sq (x : Qc) : Qc := (x * x)%Qc.
Definition ncols (m : qm) : nat := match m with r :: _ => length r | [] => O end.
Definition omap_fun (c : omap_code) : option (arr -> res arr) :=
  match c with
  | OMNone => None
  | OMSquare => Some (fun a => Ok match a with A0 x => A0 (sq x) | A1 v => A1 (map sq v) | A2 m => A2 (map (map sq) m) end)
  | OMScale c => Some (fun a => Ok match a with A0 x => A0 (c * x)%Qc | A1 v => A1 (qvscale c v) | A2 m => A2 (mscale c m) end)
  | OMFirst => Some (fun a => match a with
                              | A0 _ => Er EIndex
                              | A1 (x :: _) => Ok (A0 x) | A1 [] => Er EIndex
                              | A2 (r :: _) => Ok (A1 r) | A2 [] => Er EIndex end)
  | OMFrom k => Some (fun a => match a with
                               | A0 _ => Er EIndex
                               | A1 v => Ok (A1 (skipn k v))
                               | A2 m => Ok (A2 (skipn k m)) end)
  | OMMat M => Some (fun a => match a with
                              | A0 _ => Er EValue
                              | A1 v => if forallb (fun r => (length r =? length v)%nat) M then Ok (A1 (qmatvec M v)) else Er EValue
                              | A2 m => if forallb (fun r => (length r =? length m)%nat) M
                                        then Ok (A2 (qmatmul (ncols m) M m)) else Er EValue end)
  end.

(* interpolation certificates: the (single) call scipy answered during observe() *)
Record i1entry := mkI1 { i1_gs : qv; i1_sol : qv; i1_go : qv; i1_out : res qv }.
Record i2entry := mkI2 { i2_gs : qv; i2_ts : qv; i2_sol : list qv; i2_go : qv; i2_to : qv; i2_out : res qm }.
Definition interp1_of (tol : Q) (tb : list i1entry) (gs sol go : qv) : res qv :=
  match tb with
  | e :: _ => if qcl_eqb (i1_gs e) gs && qcl_rel tol (i1_sol e) sol && qcl_eqb (i1_go e) go then i1_out e else Er EOther
  | [] => Er EOther
  end.
Definition interp2_of (tol : Q) (tb : list i2entry) (gs ts : qv) (sol : list qv) (go to : qv) : res qm :=
  match tb with
  | e :: _ => if qcl_eqb (i2_gs e) gs && qcl_eqb (i2_ts e) ts && qcll_rel tol (i2_sol e) sol
                 && qcl_eqb (i2_go e) go && qcl_eqb (i2_to e) to then i2_out e else Er EOther
  | [] => Er EOther
  end.
(* law of an interpolant: exact at the nodes *)
Definition i1_law_ok (e : i1entry) : bool :=
  match i1_out e with
  | Er _ => true
  | Ok out => (length out =? length (i1_go e))%nat &&
      forallb (fun i => match index_of (nthq (i1_go e) i) (i1_gs e) with
                        | Some a => Qle_bool (Qabs (this (nthq out i) - this (nthq (i1_sol e) a))) (tol9 * maxabs (i1_sol e))
                        | None => true end) (seq 0 (length (i1_go e)))
  end.
Definition i2_law_ok (e : i2entry) : bool :=
  match i2_out e with
  | Er _ => true
  | Ok out => (length out =? length (i2_go e))%nat &&
      forallb (fun i =>
        let row := nth i out [] in
        (length row =? length (i2_to e))%nat &&
        forallb (fun j => match index_of (nthq (i2_go e) i) (i2_gs e), index_of (nthq (i2_to e) j) (i2_ts e) with
                          | Some a, Some b => Qle_bool (Qabs (this (nthq row j) - this (nthq (nth b (i2_sol e) []) a))) (tol9 * maxabs2 (i2_sol e))
                          | _, _ => true end) (seq 0 (length (i2_to e)))) (seq 0 (length (i2_go e)))
  end.

(* ---------------- the interpolation routines INSIDE the model (Model/C18_Spline.v) ---------------- *)
Definition spl_to_res (r : spl_res) : res qv :=
  match r with SplOk v => Ok v | SplSingular => Er EValue | SplCheckFailed => Er EOther end.
(* interp1d(grid_sol, solution, kind='quadratic')(grid_obs): the nodes may come in any order; fewer than 3 nodes, a solution of
   another length, repeated nodes (singular collocation matrix) and evaluation points outside [min, max] are ValueErrors *)
Definition interp1_quad (gs sol go : qv) : res qv :=
  if (length gs <? 3)%nat || negb (length sol =? length gs)%nat || negb (forallb (in_range gs) go) then Er EValue
  else spl_to_res (spl_interp 2 (quad_knots gs) gs sol go).
Fixpoint res_all {A} (l : list (res A)) : res (list A) :=
  match l with
  | [] => Ok []
  | Ok a :: r => match res_all r with Ok r' => Ok (a :: r') | Er e => Er e end
  | Er e :: _ => Er e
  end.
(* RectBivariateSpline(grid_sol, time_steps, solution)(grid_obs, time_obs), solution given by its time levels: the constructor
   wants strictly increasing nodes and times (ValueError), a solution of matching shape (ValueError) and at least 4 of each
   (fitpack `error`); the call wants non-decreasing evaluation points (ValueError) and evaluates points outside the data
   rectangle at the nearest boundary.  The value is the tensor-product cubic not-a-knot spline: every level is interpolated at
   the observation nodes, then every observation node's series at the observation times. *)
Definition interp2_cubic (gs ts : qv) (sol : list qv) (go to : qv) : res qm :=
  if negb (strictly_inc gs) || negb (strictly_inc ts) then Er EValue
  else if negb ((length sol =? length ts)%nat && forallb (fun lv => (length lv =? length gs)%nat) sol) then Er EValue
  else if (length gs <? 4)%nat || (length ts <? 4)%nat then Er EOther
  else if negb (nondecreasing go) || negb (nondecreasing to) then Er EValue
  else
    let go' := map (clamp_range gs) go in
    let to' := map (clamp_range ts) to in
    match res_all (map (fun lv => spl_to_res (spl_interp 3 (cubic_knots gs) gs lv go')) sol) with
    | Er e => Er e
    | Ok sp => res_all (map (fun i => spl_to_res (spl_interp 3 (cubic_knots ts) ts (map (fun lv => nthq lv i) sp) to'))
                           (seq 0 (length go)))
    end.

(* ---------------- comparisons ---------------- *)
Definition res_close {A} (cl : A -> A -> bool) (x y : res A) : bool :=
  match x, y with Ok a, Ok b => cl a b | Er e, Er f => err_eqb e f | _, _ => false end.
Definition arr_close (tol : Q) (a b : arr) : bool :=
  match a, b with
  | A0 x, A0 y => qcl_rel tol [x] [y]
  | A1 x, A1 y => qcl_rel tol x y
  | A2 x, A2 y => qcll_rel tol x y
  | _, _ => false
  end.
Definition info_eqb (a b : option (list Z)) : bool := opt_eqb zl_eqb a b.
(* observations are compared relative to max(largest expected entry, magnitude the observation map gives to the largest
   entry of the whole solution): an expected 0 at a node next to O(s) values may come back as rounding noise of size eps*s *)
Definition omap_gain (c : omap_code) (n : nat) (s : Q) : Q :=
  match c with
  | OMSquare => s * s
  | OMScale k => Qabs (this k) * s
  | OMMat M => inject_Z (Z.of_nat n) * maxabs2 M * s
  | _ => s
  end.
Definition arr_close_fl (tol floor : Q) (a b : arr) : bool :=
  match a, b with
  | A0 x, A0 y => vrel tol (qmax floor (maxabs [y])) [x] [y]
  | A1 x, A1 y => vrel tol (qmax floor (maxabs y)) x y
  | A2 x, A2 y => mrel tol (qmax floor (maxabs2 y)) x y
  | _, _ => false
  end.
(* b = the model's side.  Where the model interpolated (in exact arithmetic, Model/C18_Spline.v) the implementation's answer went
   through scipy's floating-point spline code: never compared more tightly than 1e-9 *)
Definition itol (interpolated : bool) (tol : Q) : Q := if interpolated then qmax tol tol9 else tol.
Definition obs_close (tol floor : Q) (a b : bool * arr) : bool :=
  Bool.eqb (fst a) (fst b) && arr_close_fl (itol (fst b) tol) floor (snd a) (snd b).

(* ---------------- one run of a time-dependent PDE object through the direct API ---------------- *)
Inductive td_obs :=
  | TInitErr (e : err)
  | TSolveErr (e : err)
  | TRun (levels : list qv) (info : option (list Z)) (o : res (bool * arr)).

Record td_cfg := mkTD {
  c_quirks : quirks; c_form : form_spec; c_times : qv; c_method : method; c_solver : solver_spec;
  c_gsol : grid; c_gobs : grid; c_tobs : tobs_arg; c_omap : omap_code; c_itbl : list i2entry;
  c_tol : Q;       (* comparison of the stored solution / of the arguments handed to the oracles *)
  c_otol : Q }.    (* comparison of the observation (the observation map multiplies floats) *)

Definition td_run (c : td_cfg) (par : option qv) : td_obs :=
  match td_init (c_method c) (c_times c) (c_tobs c) with
  | Er e => TInitErr e
  | Ok tobs =>
      match td_solve qv Z (solver_of (c_tol c) (c_solver c)) (form_of (c_form c)) (c_quirks c) (c_method c) par (c_times c) with
      | Er e => TSolveErr e
      | Ok (levels, info) =>
          TRun levels info
               (td_observe (c_quirks c) (omap_fun (c_omap c)) interp2_cubic
                           (init_grids (c_gsol c) (c_gobs c)) (c_times c) tobs levels)
      end
  end.

Definition td_floor (om : omap_code) (levels : list qv) : Q := omap_gain om (length (hd [] levels)) (maxabs2 levels).
Definition td_obs_close (tol otol : Q) (om : omap_code) (a b : td_obs) : bool :=
  match a, b with
  | TInitErr e, TInitErr f => err_eqb e f
  | TSolveErr e, TSolveErr f => err_eqb e f
  | TRun l i o, TRun l' i' o' => qcll_rel tol l l' && info_eqb i i' && res_close (obs_close otol (td_floor om l')) o o'
  | _, _ => false
  end.

(* every call scipy answered during observe() is compared with the in-model routine on the same (float, hence rational)
   arguments: same exception class, or values within 1e-9 of the largest |solution entry| *)
Definition i1_model_ok (e : i1entry) : bool :=
  res_close (vrel tol9 (maxabs (i1_sol e))) (i1_out e) (interp1_quad (i1_gs e) (i1_sol e) (i1_go e)).
Definition i2_model_ok (e : i2entry) : bool :=
  res_close (mrel tol9 (maxabs2 (i2_sol e))) (i2_out e) (interp2_cubic (i2_gs e) (i2_ts e) (i2_sol e) (i2_go e) (i2_to e)).
Definition certificates_ok (ss : solver_spec) (i1 : list i1entry) (i2 : list i2entry) : bool :=
  solver_table_ok ss && forallb i1_law_ok i1 && forallb i2_law_ok i2 && forallb i1_model_ok i1 && forallb i2_model_ok i2.

(* observed = what assemble(p); solve(); observe(sol) did on the real object *)
Definition check_td (c : td_cfg) (p : qv) (observed : td_obs) : bool :=
  td_obs_close (c_tol c) (c_otol c) (c_omap c) observed (td_run c (Some p)) && certificates_ok (c_solver c) [] (c_itbl c).

(* PDEModel.forward on the same configuration: domain geometry map x -> a*x + d, previous parameter left in the
   object by an earlier call; observed = the returned array or the exception *)
Definition affine_par2fun (a d : Qc) (x : qv) : qv := map (fun v => (a * v + d)%Qc) x.
Definition td_model_forward (c : td_cfg) (a d : Qc) (prev : option qv) (x : qv) : res arr :=
  match td_init (c_method c) (c_times c) (c_tobs c) with
  | Er e => Er e
  | Ok tobs =>
      model_forward (affine_par2fun a d) (fun o => o)
        (td_forward qv Z (solver_of (c_tol c) (c_solver c)) (form_of (c_form c)) (c_quirks c)
                    (omap_fun (c_omap c)) interp2_cubic
                    (init_grids (c_gsol c) (c_gobs c)) (c_method c) (c_times c) tobs prev) x
  end.
Definition check_td_forward (c : td_cfg) (a d : Qc) (prev : option qv) (x : qv) (observed : res arr) : bool :=
  let r := td_run c (Some (affine_par2fun a d x)) in
  let floor := match r with TRun l _ _ => td_floor (c_omap c) l | _ => 0%Q end in
  let interpolated := match r with TRun _ _ (Ok (true, _)) => true | _ => false end in
  res_close (arr_close_fl (itol interpolated (c_otol c)) floor) observed (td_model_forward c a d prev x) && certificates_ok (c_solver c) [] (c_itbl c).

(* ---------------- steady-state runs ---------------- *)
Inductive ss_obs :=
  | SSolveErr (e : err)
  | SRun (sol : qv) (info : option (list Z)) (o : res (bool * arr)).
Record ss_cfg := mkSC {
  s_form : form_spec; s_solver : solver_spec; s_gsol : grid; s_gobs : grid; s_omap : omap_code;
  s_itbl : list i1entry; s_tol : Q; s_otol : Q }.
(* assembled = false: solve() is called on a fresh object *)
Definition ss_run (c : ss_cfg) (assembled : bool) (p : qv) : ss_obs :=
  let s0 := mkSS None in
  let s := if assembled then ss_assemble qv (sform_of (s_form c)) s0 p else s0 in
  match ss_solve Z (solver_of (s_tol c) (s_solver c)) s with
  | Er e => SSolveErr e
  | Ok (sol, info) =>
      SRun sol info (ss_observe (omap_fun (s_omap c)) interp1_quad
                                (init_grids (s_gsol c) (s_gobs c)) sol)
  end.
Definition ss_obs_close (tol otol : Q) (om : omap_code) (a b : ss_obs) : bool :=
  match a, b with
  | SSolveErr e, SSolveErr f => err_eqb e f
  | SRun l i o, SRun l' i' o' => qcl_rel tol l l' && info_eqb i i' && res_close (obs_close otol (omap_gain om (length l') (maxabs l'))) o o'
  | _, _ => false
  end.
Definition check_ss (c : ss_cfg) (assembled : bool) (p : qv) (observed : ss_obs) : bool :=
  ss_obs_close (s_tol c) (s_otol c) (s_omap c) observed (ss_run c assembled p) && certificates_ok (s_solver c) (s_itbl c) [].

Definition ss_model_forward (c : ss_cfg) (a d : Qc) (prev : option qv) (x : qv) : res arr :=
  let s0 := match prev with None => mkSS None | Some q => mkSS (Some (sform_of (s_form c) q)) end in
  model_forward (affine_par2fun a d) (fun o => o)
    (ss_forward qv Z (solver_of (s_tol c) (s_solver c)) (sform_of (s_form c)) (omap_fun (s_omap c))
                interp1_quad (init_grids (s_gsol c) (s_gobs c)) s0) x.
Definition check_ss_forward (c : ss_cfg) (a d : Qc) (prev : option qv) (x : qv) (observed : res arr) : bool :=
  let r := ss_run c true (affine_par2fun a d x) in
  let floor := match r with SRun l _ _ => omap_gain (s_omap c) (length l) (maxabs l) | _ => 0%Q end in
  let interpolated := match r with SRun _ _ (Ok (true, _)) => true | _ => false end in
  res_close (arr_close_fl (itol interpolated (s_otol c)) floor) observed (ss_model_forward c a d prev x) && certificates_ok (s_solver c) (s_itbl c) [].

(* ---------------- grid bookkeeping: a sequence of setter calls after __init__ ---------------- *)
Definition check_grids (gs go : grid) (ops : list grid_op) (observed : list bool) : bool :=
  let fix go_ (G : grids) (ops : list grid_op) : list bool :=
      match ops with [] => [] | o :: r => let G' := grid_step G o in g_eq G' :: go_ G' r end in
  let G0 := init_grids gs go in
  list_eqb Bool.eqb observed (g_eq G0 :: go_ G0 ops).

(* ---------------- gradient dispatch ---------------- *)
(* the harness gives the PDE object  gradient_wrt_parameter(d, w) = d @ (G0 + w_0 G1)  and/or
   jacobian_wrt_parameter(w) = J0 + w_0 J1  (or neither) *)
Definition aff_mat (M0 M1 : qm) (w : qv) : qm := madd M0 (mscale (nthq w 0) M1).
Definition check_gradient (g : option (qm * qm)) (j : option (qm * qm)) (a d : Qc)
           (direction wrt : qv) (observed : res qv) : bool :=
  let npar := length wrt in
  let gw := option_map (fun G => fun dir w => qmattvec npar (aff_mat (fst G) (snd G) w) dir) g in
  let jw := option_map (fun J => fun w => aff_mat (fst J) (snd J) w) j in
  res_close qcl_eqb observed (gradient_func qv gw jw npar direction (affine_par2fun a d wrt)).

(* observe() on solutions with two space axes: only the route taken and the slices returned *)
Definition check_observe_2dspace (q : quirks) (gs go : grid) (times : qv) (ta : tobs_arg) (levels : list qm)
           (observed : res (list qm)) : bool :=
  match parse_time_obs times ta with
  | Er _ => false
  | Ok tobs => res_close (list_eqb qcll_eqb) observed (td_observe_2dspace q (init_grids gs go) times tobs levels)
  end.

(* observe() alone, on an arbitrary solution array handed in by the caller (no solve): used with exactly bicubic data *)
Definition check_td_observe (q : quirks) (gs go : grid) (times : qv) (ta : tobs_arg) (om : omap_code) (itbl : list i2entry)
           (otol : Q) (levels : list qv) (observed : res (bool * arr)) : bool :=
  match parse_time_obs times ta with
  | Er _ => false
  | Ok tobs =>
      res_close (obs_close otol (td_floor om levels)) observed
                (td_observe q (omap_fun om) interp2_cubic (init_grids gs go) times tobs levels)
      && forallb i2_law_ok itbl && forallb i2_model_ok itbl
  end.

(* SteadyStateLinearPDE.observe alone, on a solution array handed in by the caller (no solve) *)
Definition check_ss_observe (gs go : grid) (om : omap_code) (otol : Q) (sol : qv) (observed : res (bool * arr)) : bool :=
  res_close (obs_close otol (omap_gain om (length sol) (maxabs sol))) observed
            (ss_observe (omap_fun om) interp1_quad (init_grids gs go) sol).

(* LinearPDE._solve_linear_system on what linalg_solve returned: a value, a tuple with at least one entry (Some), or the EMPTY
   tuple (None), whose `returned_values[0]` raises IndexError -- the only tuple the code does not accept *)
Definition solve_ret_py (r : option (sret Z)) : res (qv * option (list Z)) :=
  match r with None => Er EIndex | Some r => Ok (split_ret r) end.
Definition check_solve_ret (r : option (sret Z)) (observed : res (qv * option (list Z))) : bool :=
  res_close (fun a b => qcl_eqb (fst a) (fst b) && info_eqb (snd a) (snd b)) observed (solve_ret_py r).
