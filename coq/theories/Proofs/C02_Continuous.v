(* C02 -- invariance beyond finite state spaces, part 2: DENSITIES ON THE REAL LINE with compact support [a,b], Riemann integrals
   (Coquelicot RInt).  State space [a,b]; pi : unnormalised target density, q x y : proposal density (a proposal that lands outside
   [a,b], where pi = 0, is rejected, so it only adds to the rejection atom).  The Metropolis-Hastings kernel acts on a test
   function f by
       (K f)(x) = f(x) + int_a^b q(x,y) alpha(x,y) (f(y) - f(x)) dy                  (accepted moves + rejection atom at x)
   and invariance of pi is   int_a^b pi(x) (K f)(x) dx = int_a^b pi(x) f(x) dx   for every test function f.
   `invariance_RInt` proves this from detailed balance under EXACTLY these analytic hypotheses (all of them hold when pi, q, f are
   continuous -- see Proofs/C02_Fubini.v for the discharge of the last two):
     (I1) for every x the accepted-move integrand y |-> q(x,y) alpha(x,y) (f(y) - f(x)) is Riemann integrable on [a,b];
     (I2) x |-> pi(x) f(x) is Riemann integrable on [a,b];
     (I3) x |-> int_a^b h(x,y) dy is Riemann integrable on [a,b], where h(x,y) = min(pi(x)q(x,y), pi(y)q(y,x)) (f(y) - f(x));
     (I4) the two iterated integrals of h over the square [a,b]^2 agree (Fubini for h).
   No positivity: pi >= 0 and q >= 0 only. *)
From Coq Require Import Reals Lra.
From Coquelicot Require Import Coquelicot.
From CV Require Import Proofs.C02_Countable.
Local Open Scope R_scope.

Section Continuous.
Variables (a b : R).
Variable pi : R -> R.
Variable q : R -> R -> R.
Hypothesis pi_nonneg : forall x, 0 <= pi x.
Hypothesis q_nonneg : forall x y, 0 <= q x y.

Definition alphaC (x y : R) : R := acc0 (pi x * q x y) (pi y * q y x).
Definition gflow (x y : R) : R := Rmin (pi x * q x y) (pi y * q y x).       (* = pi(x) q(x,y) alpha(x,y) *)

Lemma gflow_alpha x y : pi x * (q x y * alphaC x y) = gflow x y.
Proof. unfold alphaC, gflow. rewrite <- Rmult_assoc. apply flow_acc0; apply Rmult_le_pos; auto. Qed.

(* detailed balance for every pair of points, zeros of pi and q allowed *)
Lemma gflow_sym x y : gflow x y = gflow y x.
Proof. unfold gflow. apply Rmin_comm. Qed.

Section Test.
Variable f : R -> R.
Definition moveint (x y : R) : R := q x y * alphaC x y * (f y - f x).
Definition Kf (x : R) : R := f x + RInt (moveint x) a b.
Definition hflow (x y : R) : R := gflow x y * (f y - f x).

Lemma hflow_move x y : pi x * moveint x y = hflow x y.
Proof. unfold moveint, hflow. rewrite <- gflow_alpha. ring. Qed.

Lemma hflow_anti x y : hflow x y = - hflow y x.
Proof. unfold hflow. rewrite (gflow_sym x y). ring. Qed.

Hypothesis I1 : forall x, ex_RInt (moveint x) a b.
Hypothesis I2 : ex_RInt (fun x => pi x * f x) a b.
Hypothesis I3 : ex_RInt (fun x => RInt (hflow x) a b) a b.
Hypothesis I4 : RInt (fun x => RInt (fun y => hflow x y) a b) a b = RInt (fun y => RInt (fun x => hflow x y) a b) a b.

Lemma ex_hflow x : ex_RInt (hflow x) a b.
Proof.
  apply ex_RInt_ext with (fun y => scal (pi x) (moveint x y)).
  - intros y _. unfold scal; simpl. unfold mult; simpl. apply hflow_move.
  - apply (@ex_RInt_scal R_NormedModule (moveint x) a b (pi x)). apply I1.
Qed.

Lemma piKf x : pi x * Kf x = pi x * f x + RInt (hflow x) a b.
Proof.
  unfold Kf. rewrite Rmult_plus_distr_l. f_equal.
  change (pi x * RInt (moveint x) a b) with (scal (pi x) (RInt (moveint x) a b)).
  rewrite <- (RInt_scal (moveint x) a b (pi x) (I1 x)).
  apply RInt_ext. intros y _. unfold scal; simpl. unfold mult; simpl. apply hflow_move.
Qed.

(* the net flow of a reversible kernel vanishes *)
Lemma net_flow_zero : RInt (fun x => RInt (hflow x) a b) a b = 0.
Proof.
  set (I := RInt (fun x => RInt (hflow x) a b) a b).
  assert (E : I = - I).
  { unfold I at 1. transitivity (RInt (fun y => RInt (fun x => hflow x y) a b) a b); [exact I4|].
    transitivity (RInt (fun y => opp (RInt (hflow y) a b)) a b).
    - apply RInt_ext. intros y _.
      transitivity (RInt (fun x => opp (hflow y x)) a b).
      + apply RInt_ext. intros x _. unfold opp; simpl. apply hflow_anti.
      + apply (@RInt_opp R_CompleteNormedModule (hflow y) a b). apply ex_hflow.
    - rewrite (@RInt_opp R_CompleteNormedModule (fun y => RInt (hflow y) a b) a b I3). reflexivity. }
  lra.
Qed.

Theorem invariance_RInt : RInt (fun x => pi x * Kf x) a b = RInt (fun x => pi x * f x) a b.
Proof.
  transitivity (RInt (fun x => plus (pi x * f x) (RInt (hflow x) a b)) a b).
  - apply RInt_ext. intros x _. unfold plus; simpl. apply piKf.
  - transitivity (plus (RInt (fun x => pi x * f x) a b) (RInt (fun x => RInt (hflow x) a b) a b)).
    + apply (@RInt_plus R_CompleteNormedModule (fun x => pi x * f x) (fun x => RInt (hflow x) a b) a b I2 I3).
    + rewrite net_flow_zero. unfold plus; simpl. ring.
Qed.
End Test.
End Continuous.

(* ---- non-vacuity: uniform target and uniform independence proposal on [0,1], test function f(x) = x: every hypothesis
        (I1)-(I4) holds ------------------------------------------------------------------------------------------------------- *)
Lemma is_RInt_affine (u v a b : R) : is_RInt (fun t => u * t + v) a b ((u * (b * b) / 2 + v * b) - (u * (a * a) / 2 + v * a)).
Proof.
  apply (is_RInt_derive (fun t => u * (t * t) / 2 + v * t) (fun t => u * t + v)).
  - intros x _. auto_derive; [exact I | field].
  - intros x _. apply (ex_derive_continuous (fun t : R => u * t + v)). auto_derive. exact I.
Qed.

Lemma RInt_affine (u v a b : R) : RInt (fun t => u * t + v) a b = (u * (b * b) / 2 + v * b) - (u * (a * a) / 2 + v * a).
Proof. apply is_RInt_unique. apply is_RInt_affine. Qed.

Lemma acc0_11 : acc0 (1 * 1) (1 * 1) = 1.
Proof. unfold acc0. destruct (Req_EM_T (1 * 1) 0) as [E|E]; [lra|]. rewrite Rmin_left; lra. Qed.

Lemma uniform_example :
  let pi := fun _ : R => 1 in let q := fun _ _ : R => 1 in let f := fun x : R => x in
  (forall x, 0 <= pi x) /\ (forall x y, 0 <= q x y) /\
  (forall x, ex_RInt (moveint pi q f x) 0 1) /\ ex_RInt (fun x => pi x * f x) 0 1 /\
  ex_RInt (fun x => RInt (hflow pi q f x) 0 1) 0 1 /\
  RInt (fun x => RInt (fun y => hflow pi q f x y) 0 1) 0 1 = RInt (fun y => RInt (fun x => hflow pi q f x y) 0 1) 0 1.
Proof.
  intros pi q f.
  assert (Hm : forall x y, moveint pi q f x y = 1 * y + - x).
  { intros x y. unfold moveint, alphaC, pi, q, f. rewrite acc0_11. ring. }
  assert (Hh : forall x y, hflow pi q f x y = 1 * y + - x).
  { intros x y. unfold hflow, gflow, pi, q, f. rewrite Rmin_left by lra. ring. }
  assert (Hin : forall x, RInt (hflow pi q f x) 0 1 = -1 * x + 1 / 2).
  { intro x. rewrite (RInt_ext _ (fun y => 1 * y + - x)) by (intros y _; apply Hh). rewrite RInt_affine. lra. }
  assert (Hin' : forall y, RInt (fun x => hflow pi q f x y) 0 1 = 1 * y + - (1 / 2)).
  { intro y. rewrite (RInt_ext _ (fun x => -1 * x + y)) by (intros x _; rewrite Hh; lra). rewrite RInt_affine. lra. }
  repeat split.
  - intro; unfold pi; lra.
  - intros; unfold q; lra.
  - intro x. apply ex_RInt_ext with (fun y => 1 * y + - x); [intros y _; symmetry; apply Hm | eexists; apply is_RInt_affine].
  - apply ex_RInt_ext with (fun x => 1 * x + 0); [intros x _; unfold pi, f; lra | eexists; apply is_RInt_affine].
  - apply ex_RInt_ext with (fun x => -1 * x + 1 / 2); [intros x _; symmetry; apply Hin | eexists; apply is_RInt_affine].
  - rewrite (RInt_ext _ (fun x => -1 * x + 1 / 2)) by (intros x _; apply Hin).
    rewrite (RInt_ext (fun y => RInt (fun x => hflow pi q f x y) 0 1) (fun y => 1 * y + - (1 / 2))) by (intros y _; apply Hin').
    rewrite !RInt_affine. lra.
Qed.
