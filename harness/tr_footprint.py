"""tr_footprint.py -- attribute footprints of the sampler classes of CUQIpy (property C14).

A small, fail-closed `ast` pass over cuqi/experimental/mcmc/*.py and cuqi/sampler/*.py.  For every concrete class of
the stateful interface it extracts (over-approximations of)

  state / history keys       _STATE_KEYS, _HISTORY_KEYS resolved through the class hierarchy (+ backing attributes of
                             properties named there)
  step reads / writes        attributes of `self` read / re-bound by `step`, transitively through `self.` helper
                             methods, properties (getter / setter bodies) and closures stored on `self`
  scratch                    attributes whose first access in `step` is an unconditional own write
  appends / in-place         `self.X.append(..)`; subscript stores, augmented assignments, mutating method calls on
                             `self.X` or on a local alias / view of it; parameters mutated in place by a helper
  tune writes                writes of tune, _pre_sample, _pre_warmup
  initialize reads / writes  reads of reinitialize (= clear the declared keys, then initialize/_initialize, plus what an
                             override adds) not preceded by an own unconditional write; all (re)bindings other than the clearing
  hidden randomness          attributes bound during initialisation to a value that depends on a random source

and for every class of the stateless interface the parameters mutated in place by helpers of _sample/_sample_adapt.

The result is written as Coq definitions (`coq/gen/Gen_C14.v`, record `facts` of Model/C14_Chain.v) together with one
lemma per checker and class whose truth value was computed here by a mirror of the checker: the lemma only compiles if
Coq's checker (proved sound in Proofs/C14_Chain.v) computes the same value.

Fail-closed: `setattr/getattr/delattr/vars/exec/eval/__dict__` on self with non-constant names, aliases of `self`,
`global`/`nonlocal`, star-args on self-method calls and unknown statement kinds inside analysed methods raise
FootprintError (reported as a broken obligation)."""
import ast, os

EXP_FILES = ["_sampler.py", "_mh.py", "_cwmh.py", "_pcn.py", "_langevin_algorithm.py", "_hmc.py", "_rto.py",
             "_laplace_approximation.py", "_conjugate.py", "_conjugate_approx.py", "_direct.py"]
LEG_FILES = ["_sampler.py", "_mh.py", "_cwmh.py", "_pcn.py", "_langevin_algorithm.py", "_hmc.py", "_rto.py",
             "_laplace_approximation.py"]
MUTATING = {"extend", "insert", "pop", "sort", "fill", "resize", "put", "update", "clear", "remove", "reverse",
            "setdefault", "popitem", "itemset", "setfield", "partition", "byteswap", "add", "discard"}
RANDOM_NAMES = {"estimate_spectral_norm", "randn", "rand", "standard_normal", "default_rng", "RandomState"}
RANDOM_METHODS = {"sample", "rvs", "_sample"}


class FootprintError(Exception):
    pass


class Cls:
    def __init__(self, name, node, module):
        self.name, self.node, self.module = name, node, module
        self.bases = []
        for b in node.bases:
            if isinstance(b, ast.Name):
                self.bases.append(b.id)
            elif isinstance(b, ast.Attribute):
                self.bases.append(b.attr)
        self.methods, self.getters, self.setters, self.consts = {}, {}, {}, {}
        for st in node.body:
            if isinstance(st, ast.FunctionDef):
                decs = [ast.unparse(d) for d in st.decorator_list]
                if "property" in decs:
                    self.getters[st.name] = st
                elif any(d.endswith(".setter") for d in decs):
                    self.setters[st.name] = st
                elif any(d in ("abstractmethod", "staticmethod", "classmethod") for d in decs) and "abstractmethod" not in decs:
                    raise FootprintError("%s.%s: static/class methods are not modelled" % (name, st.name))
                else:
                    self.methods[st.name] = st
            elif isinstance(st, ast.Assign) and len(st.targets) == 1 and isinstance(st.targets[0], ast.Name):
                self.consts[st.targets[0].id] = st.value


class World:
    def __init__(self, directory, files):
        self.classes = {}
        for fn in files:
            path = os.path.join(directory, fn)
            tree = ast.parse(open(path).read(), filename=path)
            for st in tree.body:
                if isinstance(st, ast.ClassDef):
                    self.classes[st.name] = Cls(st.name, st, fn)

    def mro(self, cname):
        out, cur = [], cname
        while cur in self.classes:
            c = self.classes[cur]
            out.append(c)
            nxt = [b for b in c.bases if b in self.classes]
            if len(nxt) > 1:
                raise FootprintError("multiple analysed bases for %s" % cur)
            cur = nxt[0] if nxt else None
        return out

    def lookup(self, cname, kind, name, after=None):
        """kind in methods/getters/setters; `after`: resolve as super() from class `after`."""
        m = self.mro(cname)
        if after is not None:
            idx = [c.name for c in m].index(after)
            m = m[idx + 1:]
        for c in m:
            d = getattr(c, kind)
            if name in d:
                return c, d[name]
        return None

    def is_property(self, cname, name):
        return self.lookup(cname, "getters", name) is not None

    def keyset(self, cname, const):
        """evaluate _STATE_KEYS / _HISTORY_KEYS of a class: set literal | list literal | Base.K.union(literal)."""
        for c in self.mro(cname):
            if const in c.consts:
                return self._eval_keys(c.consts[const], const)
        raise FootprintError("%s has no %s" % (cname, const))

    def _eval_keys(self, e, const):
        if isinstance(e, (ast.Set, ast.List, ast.Tuple)):
            out = []
            for x in e.elts:
                if not (isinstance(x, ast.Constant) and isinstance(x.value, str)):
                    raise FootprintError("non-literal key in %s" % const)
                out.append(x.value)
            return out
        if (isinstance(e, ast.Call) and isinstance(e.func, ast.Attribute) and e.func.attr == "union"
                and isinstance(e.func.value, ast.Attribute) and e.func.value.attr == const
                and isinstance(e.func.value.value, ast.Name) and len(e.args) == 1 and not e.keywords):
            base = self.keyset(e.func.value.value.id, const)
            return base + [k for k in self._eval_keys(e.args[0], const) if k not in base]
        raise FootprintError("unsupported expression for %s: %s" % (const, ast.unparse(e)))


def _is_self_attr(e):
    return isinstance(e, ast.Attribute) and isinstance(e.value, ast.Name) and e.value.id == "self"


class Walk:
    """Ordered event list of one entry method of one class, helpers inlined.

    events: (kind, name, cond) with kind in r,w,append,inplace,argmut,random; cond = inside a conditional / loop /
    nested function (not guaranteed to execute)."""

    def __init__(self, world, cname):
        self.w, self.cname = world, cname
        self.ev = []
        self.lazy = {}
        self.stack = []
        self.closures = self._collect_closures()

    # closures stored on self:  self.A = <nested def name | lambda>
    def _collect_closures(self):
        out = {}
        for c in self.w.mro(self.cname):
            for fn in list(c.methods.values()) + list(c.getters.values()) + list(c.setters.values()):
                nested = {n.name: n for n in ast.walk(fn) if isinstance(n, ast.FunctionDef) and n is not fn}
                for n in ast.walk(fn):
                    if isinstance(n, ast.Assign):
                        for t in n.targets:
                            if _is_self_attr(t):
                                if isinstance(n.value, ast.Name) and n.value.id in nested:
                                    out.setdefault(t.attr, []).append((c.name, nested[n.value.id]))
                                elif isinstance(n.value, ast.Lambda):
                                    out.setdefault(t.attr, []).append((c.name, n.value))
        return out

    def emit(self, kind, name, cond):
        self.ev.append((kind, name, bool(cond)))

    # ---- entry points
    def method(self, name, cond=False, after=None, argexprs=None, frame=None):
        if name == "_ensure_initialized" and self.stack:
            # Sampler.sample / warmup call _ensure_initialized() first (shape checked by check_ensure_shape), so inside
            # step / tune / pre-hooks the sampler is initialised and this call returns immediately
            return True
        r = self.w.lookup(self.cname, "methods", name, after=after)
        if r is None:
            return False
        owner, fn = r
        self.func(owner.name, fn, cond, argexprs, frame)
        return True

    def func(self, owner, fn, cond, argexprs=None, caller=None):
        key = (owner, getattr(fn, "name", "<lambda>"), id(fn))
        if key in self.stack:
            return                      # recursion: already being analysed
        self.stack.append(key)
        params = []
        a = fn.args
        for p in a.posonlyargs + a.args + a.kwonlyargs:
            if p.arg != "self":
                params.append(p.arg)
        if a.vararg or a.kwarg:
            params += [x.arg for x in (a.vararg, a.kwarg) if x]
        fr = {"owner": owner, "name": getattr(fn, "name", "<lambda>"), "params": set(params), "alias": {},
              "nested": {}, "argmap": {}}
        # map parameters to the caller's self-attributes (for in-place mutation through an argument)
        if argexprs is not None and caller is not None:
            pos = [p.arg for p in a.posonlyargs + a.args if p.arg != "self"]
            for i, e in enumerate(argexprs[0]):
                if i < len(pos):
                    t = self.alias_target(e, caller)
                    if t:
                        fr["argmap"][pos[i]] = t
            for k, e in argexprs[1].items():
                t = self.alias_target(e, caller)
                if t:
                    fr["argmap"][k] = t
        body = fn.body if isinstance(fn.body, list) else [ast.Expr(fn.body)]
        for st in body:
            self.stmt(st, cond, fr)
        self.stack.pop()

    def alias_target(self, e, fr):
        """self-attribute that expression e is (a view of), if any"""
        while isinstance(e, ast.Subscript):
            e = e.value
        if _is_self_attr(e):
            return e.attr
        if isinstance(e, ast.Name):
            if e.id in fr["alias"]:
                return fr["alias"][e.id]
            if e.id in fr["argmap"]:
                return fr["argmap"][e.id]
        return None

    def mutated(self, e, cond, fr):
        """in-place mutation of the object denoted by e"""
        base = e
        while isinstance(base, ast.Subscript):
            base = base.value
        # a store / mutating call that goes THROUGH an object held in self.X (self.target.cache[i] = .., self.proposal.mean += ..)
        root, path = base, []
        while isinstance(root, (ast.Attribute, ast.Subscript)) and not _is_self_attr(root):
            if isinstance(root, ast.Attribute):
                path.append(root.attr)
            root = root.value
        if _is_self_attr(root) and path:
            self.emit("extw", "%s.%s" % (root.attr, ".".join(reversed(path))), cond)
            self.emit("inplace", root.attr, cond)
        if _is_self_attr(base):
            self.emit("inplace", base.attr, cond)
        elif isinstance(base, ast.Name):
            if base.id in fr["alias"]:
                self.emit("inplace", fr["alias"][base.id], cond)
            elif base.id in fr["params"]:
                self.emit("argmut", "%s.%s" % (fr["name"], base.id), cond)
                if base.id in fr["argmap"]:
                    self.emit("inplace", fr["argmap"][base.id], cond)

    # ---- statements
    def stmt(self, st, cond, fr):
        if isinstance(st, ast.Expr):
            self.expr(st.value, cond, fr)
        elif isinstance(st, ast.Assign):
            self.expr(st.value, cond, fr)
            for t in st.targets:
                self.target(t, st.value, cond, fr)
        elif isinstance(st, ast.AnnAssign):
            if st.value is not None:
                self.expr(st.value, cond, fr)
                self.target(st.target, st.value, cond, fr)
        elif isinstance(st, ast.AugAssign):
            self.expr(st.value, cond, fr)
            t = st.target
            if _is_self_attr(t):
                self.read_attr(t.attr, cond, fr)
                self.emit("inplace", t.attr, cond)
                self.write_attr(t.attr, cond, fr)
            elif isinstance(t, ast.Subscript):
                self.expr(t.value, cond, fr)
                self.expr(t.slice, cond, fr)
                self.mutated(t, cond, fr)
            elif isinstance(t, ast.Name):
                self.mutated(t, cond, fr)
            else:
                raise FootprintError("unsupported augmented target %s" % ast.unparse(t))
        elif (isinstance(st, ast.If) and not st.orelse and len(st.body) == 1 and isinstance(st.body[0], ast.Assign)
              and len(st.body[0].targets) == 1 and _is_self_attr(st.body[0].targets[0])
              and isinstance(st.test, ast.Compare) and len(st.test.ops) == 1 and isinstance(st.test.ops[0], ast.Is)
              and _is_self_attr(st.test.left) and st.test.left.attr == st.body[0].targets[0].attr
              and isinstance(st.test.comparators[0], ast.Constant) and st.test.comparators[0].value is None):
            # lazy default:  if self.X is None: self.X = <value>
            x = st.test.left.attr
            self.read_attr(x, cond, fr)
            n0 = len(self.ev)
            self.expr(st.body[0].value, True, fr)
            self.lazy.setdefault(x, []).extend(n for k, n, _ in self.ev[n0:] if k == "r")
            if any(k not in ("r", "ext") for k, _, _ in self.ev[n0:]):
                self.lazy[x].append("<effect>")
            self.emit("wlazy", x, True)
            s_ = self.w.lookup(self.cname, "setters", x)
            if s_ is not None:
                self.func(s_[0].name, s_[1], True)
        elif isinstance(st, (ast.If, ast.While)):
            self.expr(st.test, cond, fr)
            for s in st.body + st.orelse:
                self.stmt(s, True, fr)
        elif isinstance(st, ast.For):
            self.expr(st.iter, cond, fr)
            if (_is_self_attr(st.iter) and st.iter.attr in ("_STATE_KEYS", "_HISTORY_KEYS") and isinstance(st.target, ast.Name)):
                fr.setdefault("keyloop", {})[st.target.id] = self.w.keyset(self.cname, st.iter.attr)
            self.target(st.target, None, True, fr)
            for s in st.body + st.orelse:
                self.stmt(s, True, fr)
        elif isinstance(st, ast.Try):
            for s in st.body + st.orelse + st.finalbody:
                self.stmt(s, True, fr)
            for h in st.handlers:
                for s in h.body:
                    self.stmt(s, True, fr)
        elif isinstance(st, ast.With):
            for it in st.items:
                self.expr(it.context_expr, cond, fr)
                if it.optional_vars is not None:
                    self.target(it.optional_vars, None, cond, fr)
            for s in st.body:
                self.stmt(s, cond, fr)
        elif isinstance(st, ast.Return):
            if isinstance(st.value, ast.Name) and st.value.id == "self":
                pass                      # `return self` (fluent interface): no alias inside the analysed code
            elif st.value is not None:
                self.expr(st.value, cond, fr)
        elif isinstance(st, ast.Raise):
            if st.exc is not None:
                self.expr(st.exc, True, fr)
        elif isinstance(st, ast.FunctionDef):
            fr["nested"][st.name] = st      # analysed where it is called or where the attribute holding it is read
        elif isinstance(st, (ast.Pass, ast.Break, ast.Continue, ast.Import, ast.ImportFrom)):
            pass
        elif isinstance(st, ast.Assert):
            self.expr(st.test, cond, fr)
        elif isinstance(st, ast.Delete):
            for t in st.targets:
                if _is_self_attr(t):
                    self.write_attr(t.attr, cond, fr)
                else:
                    self.mutated(t, cond, fr)
        else:
            raise FootprintError("unsupported statement %s in %s.%s" % (type(st).__name__, fr["owner"], fr["name"]))

    def target(self, t, value, cond, fr):
        if _is_self_attr(t):
            self.write_attr(t.attr, cond, fr)
        elif isinstance(t, ast.Name):
            if t.id == "self":
                raise FootprintError("self is re-bound in %s.%s" % (fr["owner"], fr["name"]))
            fr["alias"].pop(t.id, None)
            fr["params"].discard(t.id)
            fr["argmap"].pop(t.id, None)
            if value is not None:
                if isinstance(value, ast.Name) and value.id == "self":
                    raise FootprintError("alias of self in %s.%s" % (fr["owner"], fr["name"]))
                a = self.alias_target(value, fr)
                if a and not isinstance(value, ast.Call):
                    fr["alias"][t.id] = a
                elif isinstance(value, ast.Name) and value.id in fr["nested"]:
                    fr["nested"][t.id] = fr["nested"][value.id]
        elif isinstance(t, (ast.Tuple, ast.List)):
            vals = value.elts if isinstance(value, (ast.Tuple, ast.List)) and len(value.elts) == len(t.elts) else [None] * len(t.elts)
            for x, v in zip(t.elts, vals):
                self.target(x, v, cond, fr)
        elif isinstance(t, ast.Subscript):
            self.expr(t.value, cond, fr)
            self.expr(t.slice, cond, fr)
            self.mutated(t, cond, fr)
        elif isinstance(t, ast.Starred):
            self.target(t.value, None, cond, fr)
        elif isinstance(t, ast.Attribute):
            # attribute of some other object (e.g. sampler.initial_point in a Gibbs class): evaluate the object
            self.expr(t.value, cond, fr)
            a = self.alias_target(t.value, fr)
            if a:
                self.emit("inplace", a, cond)
            root, path = t, []
            while isinstance(root, (ast.Attribute, ast.Subscript)) and not _is_self_attr(root):
                if isinstance(root, ast.Attribute):
                    path.append(root.attr)
                root = root.value
            if _is_self_attr(root):
                self.emit("extw", "%s.%s" % (root.attr, ".".join(reversed(path))), cond)   # self.X.attr = ...
            elif isinstance(root, ast.Name) and root.id in fr["alias"]:
                self.emit("extw", "%s.%s" % (fr["alias"][root.id], ".".join(reversed(path))), cond)
        else:
            raise FootprintError("unsupported assignment target %s" % ast.unparse(t))

    # ---- attribute access on self
    def read_attr(self, name, cond, fr):
        self.emit("r", name, cond)
        g = self.w.lookup(self.cname, "getters", name)
        if g is not None:
            self.func(g[0].name, g[1], cond)
        for owner, fn in self.closures.get(name, []):
            self.func(owner, fn, True)

    def write_attr(self, name, cond, fr):
        self.emit("w", name, cond)
        s = self.w.lookup(self.cname, "setters", name)
        if s is not None:
            self.func(s[0].name, s[1], cond)
        elif self.w.is_property(self.cname, name):
            raise FootprintError("write to read-only property %s" % name)

    # ---- expressions
    def expr(self, e, cond, fr):
        if e is None:
            return
        if isinstance(e, ast.Name):
            if e.id == "self":
                raise FootprintError("bare use of self (alias / passed as argument) in %s.%s: line %d" % (fr["owner"], fr["name"], e.lineno))
            return
        if isinstance(e, ast.Constant):
            return
        if _is_self_attr(e):
            if e.attr == "__dict__":
                raise FootprintError("self.__dict__ in %s.%s" % (fr["owner"], fr["name"]))
            if e.attr == "__class__":
                return
            if self.w.lookup(self.cname, "methods", e.attr) is not None:
                # bound method taken as a value: treat as a (conditional) call
                self.method(e.attr, True)
                return
            self.read_attr(e.attr, cond, fr)
            return
        if isinstance(e, ast.Attribute):
            if _is_self_attr(e.value):
                self.emit("ext", e.value.attr, cond)      # an attribute OF the object held in self.X is used
            self.expr(e.value, cond, fr)
            return
        if isinstance(e, ast.Call):
            return self.call(e, cond, fr)
        if isinstance(e, ast.Lambda):
            sub = {"owner": fr["owner"], "name": fr["name"] + ".<lambda>", "params": set(a.arg for a in e.args.args),
                   "alias": dict(fr["alias"]), "nested": dict(fr["nested"]), "argmap": {}}
            self.expr(e.body, True, sub)
            return
        if isinstance(e, (ast.BoolOp,)):
            self.expr(e.values[0], cond, fr)
            for v in e.values[1:]:
                self.expr(v, True, fr)
            return
        if isinstance(e, ast.IfExp):
            self.expr(e.test, cond, fr)
            self.expr(e.body, True, fr)
            self.expr(e.orelse, True, fr)
            return
        if isinstance(e, (ast.ListComp, ast.SetComp, ast.GeneratorExp, ast.DictComp)):
            for g in e.generators:
                self.expr(g.iter, cond, fr)
                for i in g.ifs:
                    self.expr(i, True, fr)
            for x in ([e.key, e.value] if isinstance(e, ast.DictComp) else [e.elt]):
                self.expr(x, True, fr)
            return
        if isinstance(e, ast.NamedExpr):
            self.expr(e.value, cond, fr)
            self.target(e.target, e.value, cond, fr)
            return
        if isinstance(e, (ast.Await, ast.Yield, ast.YieldFrom)):
            raise FootprintError("generator/async construct in %s.%s" % (fr["owner"], fr["name"]))
        for ch in ast.iter_child_nodes(e):
            if isinstance(ch, ast.expr):
                self.expr(ch, cond, fr)
            elif isinstance(ch, (ast.comprehension, ast.keyword)):
                for c2 in ast.iter_child_nodes(ch):
                    if isinstance(c2, ast.expr):
                        self.expr(c2, cond, fr)

    def call(self, e, cond, fr):
        f = e.func
        for a in e.args:
            if isinstance(a, ast.Starred) and _is_self_attr(f):
                raise FootprintError("star-args on a self method call")
        # reflection on self
        if isinstance(f, ast.Name) and f.id in ("setattr", "getattr", "hasattr", "delattr", "vars", "exec", "eval", "id", "super", "isinstance", "type"):
            if f.id in ("exec", "eval"):
                raise FootprintError("exec/eval in %s.%s" % (fr["owner"], fr["name"]))
            if e.args and isinstance(e.args[0], ast.Name) and e.args[0].id == "self":
                if f.id in ("isinstance", "type", "id"):
                    return
                if f.id == "vars":
                    raise FootprintError("vars(self)")
                if len(e.args) >= 2 and isinstance(e.args[1], ast.Constant) and isinstance(e.args[1].value, str):
                    nm = e.args[1].value
                    if f.id in ("getattr", "hasattr"):
                        if self.w.lookup(self.cname, "methods", nm) is None:
                            self.read_attr(nm, cond, fr)
                    else:
                        for x in e.args[2:]:
                            self.expr(x, cond, fr)
                        self.write_attr(nm, cond, fr)
                    return
                if len(e.args) >= 2 and isinstance(e.args[1], ast.Name) and e.args[1].id in fr.get("keyloop", {}):
                    # getattr/setattr over the declared state / history keys
                    clearing = (f.id == "setattr" and len(e.args) == 3 and isinstance(e.args[2], ast.Constant) and e.args[2].value is None)
                    for nm in fr["keyloop"][e.args[1].id]:
                        if f.id in ("getattr", "hasattr"):
                            self.read_attr(nm, True, fr)
                        elif clearing:
                            # Sampler.reinitialize: every declared key := None (modelled by clear_store); the setter of a
                            # property key still runs
                            self.emit("clear", nm, False)
                            n0 = len(self.ev)
                            self.write_attr(nm, True, fr)
                            self.ev[n0:] = [("clear", n2, c2) if k2 == "w" else (k2, n2, c2) for k2, n2, c2 in self.ev[n0:]]
                        else:
                            self.write_attr(nm, True, fr)
                    return
                raise FootprintError("%s(self, <non-constant>) in %s.%s" % (f.id, fr["owner"], fr["name"]))
            if f.id == "super":
                return
        # self.method(...) / super().method(...)
        args = (list(e.args), {k.arg: k.value for k in e.keywords if k.arg})
        if isinstance(f, ast.Attribute):
            is_super = isinstance(f.value, ast.Call) and isinstance(f.value.func, ast.Name) and f.value.func.id == "super"
            if _is_self_attr(f) or is_super:
                for a in e.args:
                    self.expr(a, cond, fr)
                for k in e.keywords:
                    self.expr(k.value, cond, fr)
                if self.method(f.attr, cond, after=fr["owner"] if is_super else None, argexprs=args, frame=fr):
                    return
                if is_super:
                    return              # base outside the analysed files (ABC/object)
                # callable stored in an attribute (closure) or property returning a callable
                self.read_attr(f.attr, cond, fr)
                return
            # method call on some object
            if _is_self_attr(f.value):
                self.emit("ext", f.value.attr, cond)
            self.expr(f.value, cond, fr)
            for a in e.args:
                self.expr(a, cond, fr)
            for k in e.keywords:
                self.expr(k.value, cond, fr)
            tgt = self.alias_target(f.value, fr)
            if f.attr == "append" and _is_self_attr(f.value):
                self.emit("append", f.value.attr, cond)
            elif f.attr in MUTATING | {"append"}:
                self.mutated(f.value, cond, fr)
            if f.attr in RANDOM_METHODS or ast.unparse(f).startswith(("np.random.", "numpy.random.")):
                self.emit("random", ast.unparse(f), cond)
            return
        if isinstance(f, ast.Name):
            for a in e.args:
                self.expr(a, cond, fr)
            for k in e.keywords:
                self.expr(k.value, cond, fr)
            if f.id in fr["nested"]:
                self.func(fr["owner"], fr["nested"][f.id], cond, args, fr)
            if f.id in RANDOM_NAMES:
                self.emit("random", f.id, cond)
            return
        self.expr(f, cond, fr)
        for a in e.args:
            self.expr(a, cond, fr)
        for k in e.keywords:
            self.expr(k.value, cond, fr)


def _uniq(seq):
    out = []
    for x in seq:
        if x not in out:
            out.append(x)
    return out


def _events(world, cname, entries):
    wk = Walk(world, cname)
    for m in entries:
        wk.method(m, False)
    return wk.ev, wk.lazy


def _resolve_lazy(ev, lazy, volatile):
    """`if self.X is None: self.X = v` is a configuration default (not a run-time write) when v reads nothing a run
    modifies; otherwise it is an ordinary conditional write"""
    out = []
    for k, n, c in ev:
        if k == "wlazy":
            if all(r not in volatile and r != "<effect>" for r in lazy.get(n, ["<effect>"])):
                continue
            out.append(("w", n, True))
        else:
            out.append((k, n, c))
    return out


def check_ensure_shape(world):
    c = world.classes["Sampler"]
    fn = c.methods["_ensure_initialized"]
    body = [s for s in fn.body if not (isinstance(s, ast.Expr) and isinstance(s.value, ast.Constant))]
    if [ast.unparse(s) for s in body] != ["if not self._is_initialized:\n    self.initialize()"]:
        raise FootprintError("Sampler._ensure_initialized has an unexpected shape")
    for m in ("sample", "warmup"):
        b = [s for s in c.methods[m].body if not (isinstance(s, ast.Expr) and isinstance(s.value, ast.Constant))]
        if ast.unparse(b[0]) != "self._ensure_initialized()":
            raise FootprintError("Sampler.%s does not start with _ensure_initialized()" % m)


def _reads_before_write(ev):
    """reads not preceded by an own unconditional write"""
    written, out = set(), []
    for k, n, c in ev:
        if k == "r" and n not in written:
            out.append(n)
        elif k == "w" and not c:
            written.add(n)
    return _uniq(out)


def _wfirst(ev):
    seen, out = set(), []
    for k, n, c in ev:
        if k in ("r", "w", "append", "inplace"):
            if k == "w" and not c and n not in seen:
                out.append(n)
            seen.add(n)
    return _uniq(out)


def _hidden_random(world, cname):
    """attributes bound during initialize/_initialize to values depending on a random source (taint analysis per
    assignment statement of every method reachable from initialize)."""
    tainted = set()
    methods = set()
    wk = Walk(world, cname)
    wk.method("initialize", False)
    # collect every function inlined during initialisation
    reach = []

    class Rec(Walk):
        def func(self2, owner, fn, cond, argexprs=None, caller=None):
            if (owner, fn) not in reach:
                reach.append((owner, fn))
            Walk.func(self2, owner, fn, cond, argexprs, caller)
    rk = Rec(world, cname)
    rk.method("initialize", False)
    changed = True
    while changed:
        changed = False
        for owner, fn in reach:
            for n in ast.walk(fn):
                if isinstance(n, ast.Assign):
                    tg = []
                    for t in n.targets:
                        tg += [x for x in (t.elts if isinstance(t, (ast.Tuple, ast.List)) else [t]) if _is_self_attr(x)]
                    if not tg:
                        continue
                    sub = Walk(world, cname)
                    fr = {"owner": owner, "name": getattr(fn, "name", "<lambda>"), "params": set(), "alias": {}, "nested": {}, "argmap": {}}
                    sub.expr(n.value, False, fr)
                    dep = any(k == "random" for k, _, _ in sub.ev) or any(k == "r" and nm in tainted for k, nm, _ in sub.ev)
                    if dep:
                        for x in tg:
                            if x.attr not in tainted:
                                tainted.add(x.attr)
                                changed = True
    return sorted(tainted)


def extract_experimental(repo):
    world = World(os.path.join(repo, "cuqi", "experimental", "mcmc"), EXP_FILES)
    check_ensure_shape(world)
    out = {}
    for cname, c in world.classes.items():
        if cname.startswith("_") or cname in ("Sampler", "ProposalBasedSampler"):
            continue
        names = [x.name for x in world.mro(cname)]
        if "Sampler" not in names:
            continue
        state = world.keyset(cname, "_STATE_KEYS")
        hist = world.keyset(cname, "_HISTORY_KEYS")
        # backing attributes of state properties: everything the setter binds
        backing = []
        for k in state:
            if world.is_property(cname, k):
                wk = Walk(world, cname)
                wk.write_attr(k, False, None)
                backing += [n for kk, n, _ in wk.ev if kk == "w" and n != k]
        ev, lz1 = _events(world, cname, ["step"])
        tv, lz2 = _events(world, cname, ["tune", "_pre_sample", "_pre_warmup"])
        iv, lz3 = _events(world, cname, ["reinitialize"])     # clears the declared keys, then initialize (+ overrides)
        volatile = set(state) | set(backing) | set(n for k, n, _ in ev + tv if k in ("w", "inplace", "append"))
        ev, tv, iv = _resolve_lazy(ev, lz1, volatile), _resolve_lazy(tv, lz2, volatile), _resolve_lazy(iv, lz3, set())
        appends = _uniq(n for k, n, _ in ev if k == "append")
        inplace = _uniq(n for k, n, _ in ev if k == "inplace")
        f = {
            "state": _uniq(sorted(state) + backing), "hist": sorted(hist),
            "step_r": _uniq(n for k, n, _ in ev if k == "r" and not (n in appends and n not in inplace and
                                                                     all(not (k2 == "w" and n2 == n) for k2, n2, _ in ev) and
                                                                     _only_append_reads(ev, n))),
            "step_w": _uniq(n for k, n, _ in ev if k == "w"),
            "step_wfirst": _wfirst(ev),
            "step_append": appends,
            "step_inplace": inplace,
            "step_argmut": _uniq(n for k, n, _ in ev if k == "argmut"),
            "tune_r": _uniq(n for k, n, _ in tv if k == "r"),
            "tune_w": _uniq(n for k, n, _ in tv if k in ("w", "inplace", "append")),
            "init_r": _reads_before_write(iv),
            "init_w": _uniq(n for k, n, _ in iv if k in ("w", "inplace", "append")),
            "hidden_random": _hidden_random(world, cname),
        }
        # not part of the Coq record: helper OBJECTS step / tune use (their attributes or methods are accessed): what happens
        # inside them is outside the analysis (target, proposal, prior ... are external: assumed not to depend on or modify
        # the sampler); attributes the sample / warmup drivers themselves read
        lv, _ = _events(world, cname, ["sample", "warmup"])
        internal = set(f["state"]) | set(f["hist"]) | set(f["step_w"]) | set(f["tune_w"])
        f["external"] = _uniq(n for k, n, _ in ev + tv if k == "ext" and n not in internal)
        # stores / mutating calls that go through a helper object (self.target.x = .., self.proposal.cache[i] = ..) anywhere
        # in step, tune, the hooks, initialize or the sample / warmup drivers
        f["external_writes"] = _uniq(n for k, n, _ in ev + tv + iv + lv if k == "extw")
        sv, _ = _events(world, cname, ["sample"])
        f["sample_r"] = _uniq(n for k, n, _ in sv if k in ("r", "append", "inplace"))
        f["warmup_r"] = _uniq(n for k, n, _ in lv if k in ("r", "append", "inplace"))
        out[cname] = f
    return out


def _only_append_reads(ev, n):
    """the attribute expression self.n is evaluated only as the receiver of .append: every 'r' of n is immediately
    followed (after argument events) by an 'append' of n -- approximated by equal counts"""
    r = sum(1 for k, m, _ in ev if k == "r" and m == n)
    a = sum(1 for k, m, _ in ev if k == "append" and m == n)
    return r == a


def extract_legacy(repo):
    world = World(os.path.join(repo, "cuqi", "sampler"), LEG_FILES)
    out = {}
    for cname in world.classes:
        if cname.startswith("_") or cname in ("Sampler", "ProposalBasedSampler"):
            continue
        if "Sampler" not in [x.name for x in world.mro(cname)]:
            continue
        res = {}
        for entry in ("_sample", "_sample_adapt"):
            ev, _ = _events(world, cname, [entry])
            res[entry] = {"argmut": _uniq(n for k, n, _ in ev if k == "argmut"),
                          "callback": any(k == "r" and n == "callback" for k, n, _ in ev)}
        out[cname] = res
    return out


# ---- in-place stores that may reach an array recorded earlier or handed out earlier (stateless samplers, Gibbs)
ALIAS_FILES = [("cuqi/sampler", None), ("cuqi/experimental/mcmc", ["_gibbs.py"])]


def _fresh_value(v, fresh):
    """does evaluating v produce a new object (not a view / reference of something that exists already)?"""
    if isinstance(v, (ast.Constant, ast.BinOp, ast.UnaryOp, ast.Compare, ast.BoolOp, ast.List, ast.Dict, ast.Set, ast.ListComp,
                      ast.DictComp, ast.SetComp, ast.JoinedStr, ast.Lambda)):
        return True
    if isinstance(v, ast.Tuple):
        return all(_fresh_value(x, fresh) for x in v.elts)
    if isinstance(v, ast.Name):
        return v.id in fresh
    if isinstance(v, ast.Call):
        f = v.func
        # a method of self / of an object may return a view or a stored array: only library constructors and copies count
        if isinstance(f, ast.Attribute):
            if f.attr in ("copy", "flatten", "astype", "mean", "sum", "tolist"):
                return True
            src = ast.unparse(f)
            return src.startswith(("np.", "numpy.", "sp.", "scipy.", "LA."))
        if isinstance(f, ast.Name):
            return f.id in ("int", "float", "len", "range", "list", "dict", "tuple", "min", "max", "abs", "sum", "str", "bool", "set")
        return False
    return False


def _full_slice(sl):
    parts = sl.elts if isinstance(sl, ast.Tuple) else [sl]
    return all((isinstance(x, ast.Slice) and x.lower is None and x.upper is None and x.step is None)
               or (isinstance(x, ast.Constant) and x.value is Ellipsis) for x in parts)


def extract_slice_stores(repo):
    """whole-array in-place stores  x[:] = v, x[...] = v  and augmented assignments  x op= v / x[..] op= v  whose target
    is not an object created in the same function: such a store can reach the view of a recorded or returned chain the
    function was handed (parameters, results of self-method calls, attributes, subscripts of those)"""
    out = []
    for d, only in ALIAS_FILES:
        full = os.path.join(repo, d)
        for fn in sorted(os.listdir(full)):
            if not fn.endswith(".py") or (only is not None and fn not in only):
                continue
            tree = ast.parse(open(os.path.join(full, fn)).read())
            for cls in [n for n in tree.body if isinstance(n, ast.ClassDef)]:
                for f in [n for n in ast.walk(cls) if isinstance(n, ast.FunctionDef)]:
                    fresh = set()
                    # names bound (only) to fresh values in this function; iterate to a fixpoint for chains of names
                    for _ in range(3):
                        bound, notfresh = {}, set()
                        for n in ast.walk(f):
                            if isinstance(n, ast.Assign):
                                for t in n.targets:
                                    pairs = list(zip(t.elts, n.value.elts)) if (isinstance(t, (ast.Tuple, ast.List)) and isinstance(n.value, (ast.Tuple, ast.List))
                                                                                and len(t.elts) == len(n.value.elts)) else \
                                        ([(x, n.value) for x in t.elts] if isinstance(t, (ast.Tuple, ast.List)) else [(t, n.value)])
                                    for x, v in pairs:
                                        if isinstance(x, ast.Name):
                                            (bound.setdefault(x.id, []) if _fresh_value(v, fresh) else notfresh.add(x.id))
                            elif isinstance(n, (ast.For, ast.comprehension)):
                                tg = n.target
                                for x in (tg.elts if isinstance(tg, (ast.Tuple, ast.List)) else [tg]):
                                    if isinstance(x, ast.Name) and not (isinstance(n.iter, ast.Call) and isinstance(n.iter.func, ast.Name)
                                                                        and n.iter.func.id in ("range", "enumerate", "tqdm")):
                                        notfresh.add(x.id)
                                    elif isinstance(x, ast.Name):
                                        bound.setdefault(x.id, [])
                        fresh = set(bound) - notfresh
                    for n in ast.walk(f):
                        tgt = None
                        if isinstance(n, ast.Assign):
                            for t in n.targets:
                                for x in (t.elts if isinstance(t, (ast.Tuple, ast.List)) else [t]):
                                    if isinstance(x, ast.Subscript) and _full_slice(x.slice):
                                        tgt = x
                        elif isinstance(n, ast.AugAssign) and not _is_self_attr(n.target):
                            tgt = n.target
                        if tgt is None:
                            continue
                        base = tgt
                        while isinstance(base, (ast.Subscript, ast.Attribute)) and not _is_self_attr(base):
                            base = base.value
                        if isinstance(base, ast.Name) and base.id in fresh:
                            continue
                        if isinstance(tgt, ast.Name):
                            # `x op= v` on a bare name: only when x is certainly an object the function was handed (a
                            # parameter, or bound to an attribute / element / view of one) -- results of calls are mostly
                            # numbers (counters returned by helpers) and cannot be told apart syntactically
                            params = set(a.arg for a in f.args.args + f.args.kwonlyargs if a.arg != "self")
                            viewbound = set()
                            for m in ast.walk(f):
                                if isinstance(m, ast.Assign) and isinstance(m.value, (ast.Attribute, ast.Subscript, ast.Name)) \
                                        and not _fresh_value(m.value, fresh):
                                    for t in m.targets:
                                        if isinstance(t, ast.Name):
                                            viewbound.add(t.id)
                            if tgt.id not in params | viewbound:
                                continue
                        out.append("%s.%s: %s" % (cls.name, f.name, ast.unparse(tgt)))
    return _uniq(out)


# ---- mirror of the checkers of Model/C14_Chain.v (the generated lemmas certify the mirror against Coq)
def run_writes(f):
    return f["step_w"] + f["step_append"] + f["step_inplace"] + f["tune_w"] + f["hist"]


def sem_reads(f):
    return [a for a in f["step_r"] if a not in f["step_wfirst"]]


def footprint_ok(excused, f):
    rw = run_writes(f)
    reads_ok = all(a in f["state"] or a not in rw for a in sem_reads(f))
    random_ok = all(a not in f["hidden_random"] or a in f["state"] or a in excused for a in sem_reads(f))
    append_ok = all(a in f["hist"] for a in f["step_append"])
    alias_ok = all(a not in f["state"] for a in f["step_inplace"]) and not f["step_argmut"]
    return reads_ok and random_ok and append_ok and alias_ok


def footprint_reasons(f):
    rw = run_writes(f)
    out = []
    for a in sem_reads(f):
        if not (a in f["state"] or a not in rw):
            out.append("reads-run-modified-attribute-outside-state:" + a)
    for a in sem_reads(f):
        if a in f["hidden_random"] and a not in f["state"]:
            out.append("hidden-random-outside-state:" + a)
    for a in f["step_append"]:
        if a not in f["hist"]:
            out.append("append-outside-history:" + a)
    for a in f["step_inplace"]:
        if a in f["state"]:
            out.append("state-mutated-in-place:" + a)
    for a in f["step_argmut"]:
        out.append("helper-mutates-argument:" + a)
    return out


def with_tune(scr, f):
    g = dict(f)
    g["step_r"] = f["step_r"] + f["tune_r"]
    g["step_w"] = f["step_w"] + f["tune_w"]
    g["step_wfirst"] = f["step_wfirst"] + list(scr)
    return g


def warm_resume_ok(ex, scr, f):
    return footprint_ok(ex, with_tune(scr, f))


def warm_excuses(f):
    """(ex, scr): hidden-random attributes tune reads outside the state; attributes step writes, tune reads, not saved"""
    g = with_tune([], f)
    sr = sem_reads(g)
    ex = [a for a in sr if a in f["hidden_random"] and a not in f["state"]]
    scr = [a for a in f["tune_r"] if a in f["step_w"] and a not in f["state"] and a not in f["hist"]]
    return _uniq(ex), _uniq(scr)


def batch_finalized(repo):
    """does Sampler.sample call finalize() on its batch handler?"""
    tree = ast.parse(open(os.path.join(repo, "cuqi", "experimental", "mcmc", "_sampler.py")).read())
    for c in tree.body:
        if isinstance(c, ast.ClassDef) and c.name == "Sampler":
            for m in c.body:
                if isinstance(m, ast.FunctionDef) and m.name == "sample":
                    return any(isinstance(n, ast.Call) and isinstance(n.func, ast.Attribute) and n.func.attr == "finalize"
                               for n in ast.walk(m))
    raise FootprintError("Sampler.sample not found")


def tune_ok(f):
    sr = sem_reads(f)
    return all(a in f["state"] or a not in sr for a in f["tune_w"])


def reinit_ok(f):
    rw = run_writes(f)
    return (all(a in f["init_w"] for a in f["state"]) and all(a in f["init_w"] for a in f["hist"]) and
            all(a not in rw or a in f["state"] or a in f["hist"] for a in f["init_r"]))


def _cl(l):
    return "[" + "; ".join('"%s"' % a for a in l) + "]"


FIELDS = ["state", "hist", "step_r", "step_w", "step_wfirst", "step_append", "step_inplace", "step_argmut", "tune_r",
          "tune_w", "init_r", "init_w", "hidden_random"]


def render(exp, leg, excuses, stores=None):
    """Coq source of Gen_C14.v.  excuses: {class: [attrs]} used for the `excused` lemma of a class whose plain
    footprint check fails only because of hidden randomness."""
    L = ["(* generated by harness/tr_footprint.py from the source of /repo on every run; do not edit *)",
         "From CV Require Import Base.Tac Base.Cmp Model.C14_Chain Model.C14_Warm Proofs.C14_Chain Proofs.C14_Warm.",
         "From Coq Require String. Import String.StringSyntax. Local Open Scope string_scope.", ""]
    b = lambda x: "true" if x else "false"
    n = 0
    for c in sorted(exp):
        f = exp[c]
        L.append("Definition %s_facts : facts := mkFacts\n  %s." % (c, "\n  ".join(_cl(f[k]) for k in FIELDS)))
        for nm, val, term in (("footprint", footprint_ok([], f), "footprint_ok [] %s_facts" % c),
                              ("tune", tune_ok(f), "tune_ok %s_facts" % c),
                              ("reinit", reinit_ok(f), "reinit_ok %s_facts" % c)):
            L.append("Lemma %s_%s : %s = %s. Proof. vm_compute. reflexivity. Qed." % (c, nm, term, b(val)))
            n += 1
        if c in excuses:
            L.append("Lemma %s_footprint_excused : footprint_ok %s %s_facts = %s. Proof. vm_compute. reflexivity. Qed."
                     % (c, _cl(excuses[c]), c, b(footprint_ok(excuses[c], f))))
            n += 1
        # the extracted sets instantiate the abstract theorems (Props: C14_resume_footprint, C14_reinitialize,
        # C14_reinitialize_frame) for this class
        ex, lem = ([], "%s_footprint" % c) if footprint_ok([], f) else (excuses.get(c), "%s_footprint_excused" % c)
        if ex is not None and footprint_ok(ex, f):
            L.append("Lemma %s_resume : forall (V Rnd : Type) (stepS : store V -> Rnd -> store V),\n"
                     "  (forall s r a, ~ In a (run_writes %s_facts) -> stepS s r a = s a) ->\n"
                     "  (forall s1 s2 r, agree (sem_reads %s_facts) s1 s2 -> agree (f_state %s_facts) (stepS s1 r) (stepS s2 r)) ->\n"
                     "  forall orig fresh rs1 rs2 a, (forall b, ~ In b (run_writes %s_facts) -> fresh b = orig b) -> In a (f_state %s_facts) ->\n"
                     "  runS V Rnd stepS (load_store (f_state %s_facts) (runS V Rnd stepS orig rs1) fresh) rs2 a =\n"
                     "  runS V Rnd stepS (runS V Rnd stepS orig rs1) rs2 a.\n"
                     "Proof. intros V Rnd stepS. exact (resume_from_facts V Rnd %s %s_facts stepS %s). Qed."
                     % (c, c, c, c, c, c, c, _cl(ex), c, lem))
            n += 1
        # checkpoints between warm-up calls
        L.append("Lemma %s_warm : warm_resume_ok [] [] %s_facts = %s. Proof. vm_compute. reflexivity. Qed." % (c, c, b(warm_resume_ok([], [], f))))
        n += 1
        if not warm_resume_ok([], [], f):
            wex, wscr = warm_excuses(f)
            L.append("Lemma %s_warm_excused : warm_resume_ok %s %s %s_facts = %s. Proof. vm_compute. reflexivity. Qed."
                     % (c, _cl(wex), _cl(wscr), c, b(warm_resume_ok(wex, wscr, f))))
            n += 1
        L.append("Definition %s_external : list String.string := %s.  (* helper objects whose internals are outside the analysis *)"
                 % (c, _cl(f.get("external", []))))
        L.append("Lemma %s_no_writes_through_helpers : legacy_alias_ok %s = %s. Proof. vm_compute. reflexivity. Qed."
                 % (c, _cl(f.get("external_writes", [])), b(not f.get("external_writes"))))
        n += 1
        if reinit_ok(f):
            L.append("Lemma %s_reinit_frame : forall (V : Type) (initS : store V -> store V),\n"
                     "  (forall s a, ~ In a (f_init_w %s_facts) -> initS s a = s a) ->\n"
                     "  forall none s a, ~ In a (f_init_w %s_facts) ->\n"
                     "  initS (clear_store none (f_state %s_facts ++ f_hist %s_facts) s) a = s a.\n"
                     "Proof. intros V initS. exact (reinit_frame_from_facts V %s_facts initS %s_reinit). Qed."
                     % (c, c, c, c, c, c, c))
            n += 1
        L.append("")
    for c in sorted(leg):
        for entry in ("_sample", "_sample_adapt"):
            am = leg[c][entry]["argmut"]
            L.append("Lemma legacy_%s%s_alias : legacy_alias_ok %s = %s. Proof. vm_compute. reflexivity. Qed."
                     % (c, entry, _cl(am), b(not am)))
            n += 1
    if stores is not None:
        L.append("(* whole-array in-place stores / augmented assignments through objects the function did not create itself\n"
                 "   (stateless samplers, both Gibbs samplers): none may exist *)")
        L.append("Lemma inplace_stores_through_handed_arrays : legacy_alias_ok %s = %s. Proof. vm_compute. reflexivity. Qed."
                 % (_cl([x.replace('"', "'") for x in stores]), b(not stores)))
        n += 1
    return "\n".join(L) + "\n", n


if __name__ == "__main__":
    import sys, json
    repo = sys.argv[1] if len(sys.argv) > 1 else "/repo"
    e, l = extract_experimental(repo), extract_legacy(repo)
    for c in sorted(e):
        print(c, json.dumps(e[c], indent=1))
        print("   footprint_ok", footprint_ok([], e[c]), footprint_reasons(e[c]), "tune_ok", tune_ok(e[c]), "reinit_ok", reinit_ok(e[c]))
    print(json.dumps(l, indent=1))
    print("slice stores:", extract_slice_stores(repo))
