(* C20 -- the entries of the precision matrices of the model, all sizes (used by mc/C20_DetZero.v for the
   determinant): order 1 / zero boundary: 2 on the diagonal, -1 next to it. *)
From CV Require Import Base.Tac Base.Cmp Base.LinAlg Base.QcLin Model.C20_Diff Model.C20_Spec
  Proofs.C20_Lin Proofs.C20_Stencil.
Local Open Scope Z_scope.

Lemma col_mk_mat m n f j : col 0 (mk_mat m n f) j = map (fun r => nth j (map (f r) (seq 0 n)) 0) (seq 0 m).
Proof. unfold col, mk_mat. rewrite map_map. reflexivity. Qed.

Lemma col_mk_mat_lt m n f j : (j < n)%nat -> col 0 (mk_mat m n f) j = map (fun r => f r j) (seq 0 m).
Proof. intros H. rewrite col_mk_mat. apply map_ext. intros r. apply nth_map_seq. exact H. Qed.

Lemma nth_mk_mat m n f i j : (i < m)%nat -> (j < n)%nat -> nth j (nth i (mk_mat m n f) []) 0 = f i j.
Proof. intros Hi Hj. unfold mk_mat. rewrite (nth_map_seq (fun i => map (fun j => f i j) (seq 0 n))) by exact Hi. apply nth_map_seq. exact Hj. Qed.

Lemma gram_entry n D i j : wf_mat n D -> (i < n)%nat -> (j < n)%nat ->
  nth j (nth i (gram n D) []) 0 = zdot (col 0 D j) (col 0 D i).
Proof.
  intros H Hi Hj. rewrite gram_is_ggram, (gram_entries Z 0 1 Z.add Z.mul Z.sub Z.opp Zth n D H).
  rewrite (nth_map_seq (fun j0 => map (fun k => dot 0 Z.add Z.mul (col 0 D k) (col 0 D j0)) (seq 0 n))) by exact Hi.
  apply (nth_map_seq (fun k => dot 0 Z.add Z.mul (col 0 D k) (col 0 D i))). exact Hj.
Qed.

(* the precision of the order-1 field with zero boundary conditions: tridiagonal (-1, 2, -1) *)
Theorem prec_zero1_entry n i j : (i < n)%nat -> (j < n)%nat ->
  nth j (nth i (gram n (mk_mat (n + 1) n (spd d1_zero))) []) 0 =
  if (i =? j)%nat then 2 else if ((i =? S j) || (j =? S i))%nat then -1 else 0.
Proof.
  intros Hi Hj. rewrite gram_entry by (try apply mk_mat_wf; assumption).
  rewrite !col_mk_mat_lt by assumption.
  rewrite (zdot_row_sparse _ [(j, 1); (S j, -1)] (n + 1)).
  - cbn [sp_apply]. rewrite !nth_map_seq by lia. unfold spd. cbn [diag_val d1_zero]. split_ifs_lia.
  - rewrite map_length. apply seq_length.
  - intros r Hr. unfold spd. cbn [diag_val d1_zero sp_entry]. split_ifs_lia.
Qed.

Lemma fd_matrix_zero1 n : fd_matrix 1 Zero n = Some (mk_mat (n + 1) n (spd d1_zero)).
Proof. reflexivity. Qed.
