(* C13 -- a matrix acting on function values (numpy's M @ x on vectors and on batches of columns): shapes, column-wise
   action, left inverses. *)
From CV Require Import Base.Tac Base.Cmp Base.LinAlg Base.QcLin Model.C13_Geom Proofs.C13_Lists Proofs.C13_Geom.
From Coq Require Import QArith Qcanon.

Lemma qmatvec_length M x : length (qmatvec M x) = length M.
Proof. unfold qmatvec. apply matvec_length. Qed.

(* a vector or a batch of k columns of length n = number of columns of M: the result is the matrix applied to every
   column, of shape (rows,) / (rows, k) *)
Theorem matmap_vb M n k (a : arr Qc) : n = mat_cols M -> shp a = vb_shape n k -> length (dat a) = (n * k)%nat ->
  matmap M a = Some (mkArr (vb_shape (length M) k)
                           (of_cols 0%Qc (length M) (map (qmatvec M) (cols_of 0%Qc n k (dat a))))).
Proof.
  intros Hn Hs Hl. assert (En : (n =? mat_cols M)%nat = true) by (apply Nat.eqb_eq; exact Hn).
  unfold matmap. rewrite Hs. unfold vb_shape. destruct (k =? 1)%nat eqn:Ek.
  - apply Nat.eqb_eq in Ek. subst k. rewrite En. f_equal. f_equal.
    assert (E : cols_of 0%Qc n 1 (dat a) = [dat a]) by (unfold cols_of; cbn [seq map]; rewrite col_of_single by lia; reflexivity).
    rewrite E. cbn [map]. symmetry. apply of_cols_single. apply qmatvec_length.
  - rewrite En. reflexivity.
Qed.

Lemma matmap_vec M (a : arr Qc) : shp a = [mat_cols M] -> matmap M a = Some (mkArr [length M] (qmatvec M (dat a))).
Proof. intros Hs. unfold matmap. rewrite Hs, Nat.eqb_refl. reflexivity. Qed.

(* the column-wise clause for a matrix map: column j of M @ X is M @ (column j of X) *)
Theorem matmap_columnwise M n k (a : arr Qc) : n = mat_cols M -> shp a = [n; k] ->
  exists c, matmap M a = Some c /\ shp c = [length M; k] /\ length (dat c) = (length M * k)%nat /\
    forall j, (j < k)%nat ->
      matmap M (mkArr [n] (col_of 0%Qc n k j (dat a))) = Some (mkArr [length M] (col_of 0%Qc (length M) k j (dat c))).
Proof.
  intros Hn Hs.
  exists (mkArr [length M; k] (of_cols 0%Qc (length M) (map (qmatvec M) (cols_of 0%Qc n k (dat a))))).
  split; [unfold matmap; rewrite Hs; replace (n =? mat_cols M)%nat with true by (symmetry; apply Nat.eqb_eq; exact Hn); reflexivity|]. split; [reflexivity|]. cbn [dat].
  split; [rewrite of_cols_length, map_length, cols_of_length; reflexivity|].
  intros j Hj. rewrite matmap_vec by (cbn [shp]; rewrite Hn; reflexivity). cbn [dat]. f_equal. f_equal.
  pose proof (col_of_of_cols 0%Qc (length M) (map (qmatvec M) (cols_of 0%Qc n k (dat a))) j) as E.
  rewrite map_length, cols_of_length in E. rewrite E.
  - rewrite nth_indep with (d' := qmatvec M []) by (rewrite map_length, cols_of_length; exact Hj).
    rewrite map_nth. rewrite nth_cols_of by exact Hj. reflexivity.
  - exact Hj.
  - rewrite nth_indep with (d' := qmatvec M []) by (rewrite map_length, cols_of_length; exact Hj).
    rewrite map_nth. apply qmatvec_length.
Qed.

(* a left inverse: R @ (M @ x) = x on vectors of length n gives back every vector and every batch *)
Theorem matmap_left_inverse M R n k (a : arr Qc) :
  n = mat_cols M -> mat_cols R = length M -> length R = n ->
  (forall x, length x = n -> qmatvec R (qmatvec M x) = x) ->
  shp a = vb_shape n k -> length (dat a) = (n * k)%nat ->
  obind (matmap M a) (matmap R) = Some a.
Proof.
  intros Hn HR HRl Hinv Hs Hl. rewrite (matmap_vb M n k) by assumption. cbn [obind].
  rewrite (matmap_vb R (length M) k); cbn [shp dat]; try reflexivity; try (symmetry; exact HR);
    [|rewrite of_cols_length, map_length, cols_of_length; reflexivity].
  rewrite HRl. destruct a as [s x]; cbn [shp dat] in *; subst s. f_equal. f_equal.
  pose proof (cols_of_of_cols 0%Qc (length M) (map (qmatvec M) (cols_of 0%Qc n k x))) as E.
  rewrite map_length, cols_of_length in E. rewrite E.
  - rewrite map_map. rewrite map_ext_in with (g := fun c => c).
    + rewrite map_id. apply of_cols_cols_of. exact Hl.
    + intros c Hc. apply Hinv. pose proof (cols_of_Forall 0%Qc n k x) as HF. rewrite Forall_forall in HF. apply HF. exact Hc.
  - apply Forall_forall. intros c Hc. apply in_map_iff in Hc as [c0 [<- _]]. apply qmatvec_length.
Qed.

(* instances the harness runs (all sizes for the two structured families) *)
(* the cumulative-sum matrix and the difference matrix, as functions on vectors *)
Fixpoint cumsum_from (acc : Qc) (x : list Qc) : list Qc :=
  match x with [] => [] | a :: r => (acc + a)%Qc :: cumsum_from (acc + a)%Qc r end.
Fixpoint diff_from (prev : Qc) (y : list Qc) : list Qc :=
  match y with [] => [] | b :: r => (b - prev)%Qc :: diff_from b r end.
Lemma diff_cumsum acc x : diff_from acc (cumsum_from acc x) = x.
Proof. revert acc. induction x as [|a x IH]; intros acc; [reflexivity|]. cbn [cumsum_from diff_from]. rewrite IH. f_equal. ring. Qed.
