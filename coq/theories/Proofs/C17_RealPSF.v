(* C17 (deepening) -- real-valued facts: the Gaussian PSF is normalised, symmetric and maximal at the centre;
   the Abel matrix as coded is the documented quadrature h/sqrt(s_i - t_j), for every n. *)
From Coq Require Import Reals Lra Lia List ZArith.
Import ListNotations.
From CV Require Import Model.C17_TPR.
Local Open Scope R_scope.

Lemma gauss_w_pos s x : 0 < gauss_w s x.
Proof. unfold gauss_w. apply exp_pos. Qed.

Lemma rsum_pos (l : list R) : l <> [] -> (forall a, In a l -> 0 < a) -> 0 < rsum l.
Proof.
  destruct l as [|a l]; [congruence|]. intros _ H. revert a H. induction l as [|b l IH]; intros a H; simpl.
  - specialize (H a (or_introl eq_refl)). lra.
  - assert (Ha : 0 < a) by (apply H; left; reflexivity).
    assert (Hr : 0 < rsum (b :: l)) by (apply IH; intros c Hc; apply H; right; exact Hc).
    simpl in Hr. lra.
Qed.

Lemma gauss_sum_pos grid s : grid <> [] -> 0 < rsum (map (gauss_w s) grid).
Proof.
  intros H. apply rsum_pos.
  - destruct grid; [congruence | discriminate].
  - intros a Ha. apply in_map_iff in Ha as [x [<- _]]. apply gauss_w_pos.
Qed.

Lemma rsum_div (l : list R) S : S <> 0 -> rsum (map (fun v => v / S) l) = rsum l / S.
Proof. intros HS. induction l as [|a l IH]; simpl; [field; exact HS|]. rewrite IH. field. exact HS. Qed.

(* normalisation: the entries of the Gaussian PSF sum to one (any grid, any width s) *)
Theorem gauss_psf_sum_one grid s : grid <> [] ->
  rsum (map (fun i => gauss_psf_R grid s i) (seq 0 (length grid))) = 1.
Proof.
  intros H. pose proof (gauss_sum_pos grid s H) as HS.
  assert (E : map (fun i => gauss_psf_R grid s i) (seq 0 (length grid))
              = map (fun v => v / rsum (map (gauss_w s) grid)) (map (gauss_w s) grid)).
  { unfold gauss_psf_R. rewrite map_map.
    rewrite <- (map_map (fun i => nth i grid 0%Z) (fun x => gauss_w s x / rsum (map (gauss_w s) grid))).
    f_equal. clear. induction grid as [|a g IH]; [reflexivity|]. simpl. f_equal. rewrite <- seq_shift, map_map. exact IH. }
  rewrite E, rsum_div by lra. field. lra.
Qed.

(* symmetry: the weight depends on x^2 only *)
Theorem gauss_psf_symmetric grid s i j : nth i grid 0%Z = (- nth j grid 0%Z)%Z ->
  gauss_psf_R grid s i = gauss_psf_R grid s j.
Proof.
  intros H. unfold gauss_psf_R, gauss_w. rewrite H, opp_IZR.
  replace (- IZR (nth j grid 0%Z) * - IZR (nth j grid 0%Z)) with (IZR (nth j grid 0%Z) * IZR (nth j grid 0%Z)) by ring.
  reflexivity.
Qed.

(* the centre (x = 0) carries the maximum *)
Theorem gauss_psf_centre_max grid s c i : s <> 0 -> grid <> [] -> nth c grid 0%Z = 0%Z ->
  gauss_psf_R grid s i <= gauss_psf_R grid s c.
Proof.
  intros Hs Hg Hc. unfold gauss_psf_R. pose proof (gauss_sum_pos grid s Hg) as HS.
  apply Rmult_le_compat_r; [left; apply Rinv_0_lt_compat; exact HS|].
  unfold gauss_w. rewrite Hc.
  destruct (Rle_lt_or_eq_dec 0 (IZR (nth i grid 0%Z) * IZR (nth i grid 0%Z)) (Rle_0_sqr _)) as [Hp|He].
  - left. apply exp_increasing.
    assert (P : 0 < 2 * (s * s)) by nra.
    pose proof (Rinv_0_lt_compat _ P) as IP.
    replace (- (IZR 0 * IZR 0) / (2 * (s * s))) with 0 by (unfold Rdiv; ring).
    unfold Rdiv. nra.
  - rewrite <- He. right. f_equal. unfold Rdiv. ring.
Qed.

(* ---------------- Abel1D: coded entries = documented quadrature, all n ---------------- *)
Theorem abel_entry_formula n ep i j : 0 < ep -> (0 < n)%nat ->
  let h := ep / INR n in
  abel_entry_R n ep i j = if le_lt_dec j i then h / sqrt ((INR i - INR j + 1 / 2) * h) else 0.
Proof.
  intros Hep Hn h. unfold abel_entry_R. fold h.
  assert (Hh : 0 < h). { unfold h. apply Rdiv_lt_0_compat; [exact Hep | apply lt_0_INR; exact Hn]. }
  unfold abel_s, abel_t.
  destruct (le_lt_dec j i) as [L|L].
  - apply le_INR in L.
    destruct (Rlt_dec (h / 2 + INR j * h) (h / 2 + INR i * h + h / 2)) as [_|C]; [|exfalso; apply C; nra].
    f_equal. f_equal. rewrite Rabs_pos_eq by nra. field.
  - apply lt_INR in L. assert (L1 : INR i + 1 <= INR j).
    { rewrite <- S_INR. apply le_INR. apply INR_lt in L. lia. }
    destruct (Rlt_dec (h / 2 + INR j * h) (h / 2 + INR i * h + h / 2)) as [C|_]; [exfalso; nra | reflexivity].
Qed.

(* squares are rational: A[i,j]^2 = h / (i - j + 1/2): the link to the executable model abel_sq of C17_TP.v *)
Theorem abel_entry_square n ep i j : 0 < ep -> (0 < n)%nat -> (j <= i)%nat ->
  abel_entry_R n ep i j * abel_entry_R n ep i j = (ep / INR n) / (INR i - INR j + 1 / 2) /\ 0 < abel_entry_R n ep i j.
Proof.
  intros Hep Hn L. rewrite abel_entry_formula by assumption. cbv zeta.
  destruct (le_lt_dec j i) as [_|C]; [|lia].
  set (h := ep / INR n).
  assert (Hh : 0 < h). { unfold h. apply Rdiv_lt_0_compat; [exact Hep | apply lt_0_INR; exact Hn]. }
  apply le_INR in L.
  assert (Hd : 0 < (INR i - INR j + 1 / 2) * h) by nra.
  assert (Hq : 0 < sqrt ((INR i - INR j + 1 / 2) * h)) by (apply sqrt_lt_R0; exact Hd).
  split.
  - replace (h / sqrt ((INR i - INR j + 1 / 2) * h) * (h / sqrt ((INR i - INR j + 1 / 2) * h)))
      with (h * h / (sqrt ((INR i - INR j + 1 / 2) * h) * sqrt ((INR i - INR j + 1 / 2) * h))) by (field; lra).
    rewrite sqrt_sqrt by lra. field. split; lra.
  - apply Rdiv_lt_0_compat; assumption.
Qed.

(* ---------------- vonMises phantom: the maximum is attained at the mesh point of smallest modulus ---------------- *)
Lemma cos_pi_abs t : cos (PI * t) = cos (PI * Rabs t).
Proof.
  unfold Rabs. destruct (Rcase_abs t) as [H|H]; [|reflexivity].
  replace (PI * - t) with (- (PI * t)) by ring. rewrite cos_neg. reflexivity.
Qed.

Theorem vonmises_max_at_min_abs p t tm : 0 <= p -> Rabs tm <= Rabs t -> Rabs t <= 1 ->
  ph_vonmises_R p t tm <= 1 /\ ph_vonmises_R p tm tm = 1.
Proof.
  intros Hp H1 H2. unfold ph_vonmises_R. split.
  - rewrite <- exp_0. destruct (Req_dec (p * (cos (PI * t) - cos (PI * tm))) 0) as [E|E]; [rewrite E; right; reflexivity|].
    left. apply exp_increasing.
    assert (C : cos (PI * t) <= cos (PI * tm)).
    { rewrite (cos_pi_abs t), (cos_pi_abs tm). pose proof PI_RGT_0 as HPI. pose proof (Rabs_pos tm) as P1. pose proof (Rabs_pos t) as P2.
      apply cos_decr_1; nra. }
    nra.
  - replace (p * (cos (PI * tm) - cos (PI * tm))) with 0 by ring. apply exp_0.
Qed.
