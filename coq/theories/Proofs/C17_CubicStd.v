(* C17 -- WangCubic over the reals with the standard library's notion of derivative (derivable_pt_lim):
   same statement as Proofs/C17_Cubic.v (Coquelicot's is_derive) without depending on Coquelicot, so that coqchk on
   the property files stays within the time budget. *)
From Coq Require Import Reals Lra.
From CV Require Import Model.C17_TPR.
Local Open Scope R_scope.

(* exact expansion: f(x0+h, x1) - f(x0, x1) = J0 h + h^2 (5 - 30 x0 - 10 h) *)
Lemma cubic_expand x0 x1 h :
  cubic_forward_R (x0 + h) x1 - cubic_forward_R x0 x1
  = fst (cubic_jacobian_R x0 x1) * h + h * h * (5 - 30 * x0 - 10 * h).
Proof. unfold cubic_forward_R, cubic_jacobian_R; simpl. ring. Qed.

Theorem cubic_d0_std x0 x1 : derivable_pt_lim (fun t => cubic_forward_R t x1) x0 (fst (cubic_jacobian_R x0 x1)).
Proof.
  intros eps Heps.
  set (K := Rabs (5 - 30 * x0) + 10).
  assert (HK : 0 < K) by (unfold K; pose proof (Rabs_pos (5 - 30 * x0)); lra).
  assert (Hd : 0 < Rmin 1 (eps / K)).
  { apply Rmin_pos; [lra | apply Rdiv_lt_0_compat; assumption]. }
  exists (mkposreal _ Hd). intros h Hh Hlt. simpl in Hlt.
  assert (H1 : Rabs h < 1) by (eapply Rlt_le_trans; [exact Hlt | apply Rmin_l]).
  assert (H2 : Rabs h < eps / K) by (eapply Rlt_le_trans; [exact Hlt | apply Rmin_r]).
  rewrite cubic_expand.
  replace ((fst (cubic_jacobian_R x0 x1) * h + h * h * (5 - 30 * x0 - 10 * h)) / h - fst (cubic_jacobian_R x0 x1))
    with (h * (5 - 30 * x0 - 10 * h)) by (field; exact Hh).
  rewrite Rabs_mult.
  assert (B : Rabs (5 - 30 * x0 - 10 * h) <= K).
  { unfold K. eapply Rle_trans; [apply Rabs_triang|].
    rewrite Rabs_Ropp, Rabs_mult, (Rabs_pos_eq 10) by lra. pose proof (Rabs_pos (5 - 30 * x0)). nra. }
  pose proof (Rabs_pos h) as Ph. pose proof (Rabs_pos (5 - 30 * x0 - 10 * h)) as Pq.
  apply Rle_lt_trans with (Rabs h * K); [nra|].
  apply Rlt_le_trans with (eps / K * K); [nra|]. right. field. lra.
Qed.

Theorem cubic_d1_std x0 x1 : derivable_pt_lim (fun t => cubic_forward_R x0 t) x1 (snd (cubic_jacobian_R x0 x1)).
Proof.
  intros eps Heps. exists (mkposreal 1 Rlt_0_1). intros h Hh _.
  unfold cubic_forward_R, cubic_jacobian_R; simpl.
  replace ((10 * (x1 + h) - 10 * (x0 * x0 * x0) + 5 * (x0 * x0) + 6 * x0 - (10 * x1 - 10 * (x0 * x0 * x0) + 5 * (x0 * x0) + 6 * x0)) / h - 10)
    with 0 by (field; exact Hh).
  rewrite Rabs_R0. exact Heps.
Qed.
