(* C16 -- packaging of the hypotheses (operator pair, ordered carrier) so that the property theorems
   in Props/C16.v have readable full statements; instances at Qc and R; no new mathematics. *)
From CV Require Import Base.Tac Base.LinAlg Base.QcLin Model.C16_Solve Proofs.C16_CG Proofs.C16_Prox Proofs.C16_Wrap.
From Coq Require Import Reals Lra QArith Qcanon Ring.

(* an order-reflecting ring homomorphism of the carrier into the reals *)
Definition embedding (T : Type) (t0 t1 : T) (tadd tmul tsub : T -> T -> T) (topp : T -> T)
           (tleb : T -> T -> bool) (phi : T -> R) : Prop :=
  phi t0 = 0%R /\ phi t1 = 1%R /\
  (forall a b, phi (tadd a b) = (phi a + phi b)%R) /\
  (forall a b, phi (tmul a b) = (phi a * phi b)%R) /\
  (forall a b, phi (tsub a b) = (phi a - phi b)%R) /\
  (forall a, phi (topp a) = (- phi a)%R) /\
  (forall a b, tleb a b = true <-> (phi a <= phi b)%R).

Lemma embedding_Qc : embedding Qc 0%Qc 1%Qc Qcplus Qcmult Qcminus Qcopp qc_leb phiQ.
Proof.
  repeat split; try apply phiQ_leb.
  - exact phiQ_0. - exact phiQ_1. - exact phiQ_add. - exact phiQ_mul. - exact phiQ_sub. - exact phiQ_opp.
Qed.

Lemma embedding_R : embedding R 0%R 1%R Rplus Rmult Rminus Ropp Rleb (fun x => x).
Proof. repeat split; try apply Rleb_iff; intros; reflexivity. Qed.

(* the operator pair of the "function form": fwd additive and homogeneous on length-n vectors *)
Definition linear_op (T : Type) (tadd tmul : T -> T -> T) (n m : nat) (fwd adj : list T -> list T) : Prop :=
  (forall x y, length x = n -> length y = n -> fwd (vadd tadd x y) = vadd tadd (fwd x) (fwd y)) /\
  (forall c x, length x = n -> fwd (vscale tmul c x) = vscale tmul c (fwd x)) /\
  (forall x, length x = n -> length (fwd x) = m) /\
  (forall y, length y = m -> length (adj y) = n).

(* ... whose adj is the exact adjoint *)
Definition adjoint_op (T : Type) (t0 : T) (tadd tmul tsub : T -> T -> T) (n m : nat) (fwd adj : list T -> list T) : Prop :=
  (forall x y, length x = n -> length y = n -> fwd (vsub tsub x y) = vsub tsub (fwd x) (fwd y)) /\
  (forall x, length x = n -> length (fwd x) = m) /\
  (forall y, length y = m -> length (adj y) = n) /\
  (forall x y, length x = n -> length y = m -> dot t0 tadd tmul (fwd x) y = dot t0 tadd tmul x (adj y)).

Section Matrix.
Variable T : Type.
Variables (t0 t1 : T) (tadd tmul tsub : T -> T -> T) (topp : T -> T).
Hypothesis Tth : ring_theory t0 t1 tadd tmul tsub topp (@eq T).

(* the matrix form  A @ x, A.T @ y  is such a pair, for every matrix *)
Lemma matrix_linear_op n A : wf_mat n A ->
  linear_op T tadd tmul n (length A) (matvec t0 tadd tmul A) (mattvec t0 tadd tmul n A).
Proof.
  intros HA. repeat split.
  - apply (mat_fwd_add T t0 t1 tadd tmul tsub topp Tth n A HA).
  - apply (mat_fwd_scale T t0 t1 tadd tmul tsub topp Tth n A).
  - intros x _. apply matvec_length.
  - intros y _. apply mattvec_length. exact HA.
Qed.

Lemma matrix_adjoint_op n A : wf_mat n A ->
  adjoint_op T t0 tadd tmul tsub n (length A) (matvec t0 tadd tmul A) (mattvec t0 tadd tmul n A).
Proof.
  intros HA. repeat split.
  - intros x y Hx Hy. apply (matvec_vsub T t0 t1 tadd tmul tsub topp Tth A x y n HA Hx Hy).
  - intros x _. apply matvec_length.
  - intros y _. apply mattvec_length. exact HA.
  - intros x y Hx _. apply (adjoint_identity T t0 t1 tadd tmul tsub topp Tth n A x y HA Hx).
Qed.

Variable tdiv : T -> T -> T.
Variable tleb : T -> T -> bool.
Variable teps : T.

(* ---------- CGLS / PCGLS, packaged ---------- *)
Lemma cgls_invariant_pkg n m fwd adj b shift x0 maxit tol x k :
  linear_op T tadd tmul n m fwd adj -> length b = m -> length x0 = n ->
  cgls_solve T t0 t1 tadd tmul tsub tdiv tleb teps fwd adj b shift x0 maxit tol = (x, k) ->
  let ne := fun v => vsub tsub (adj (vsub tsub b (fwd v))) (vscale tmul shift v) in
  let st := cgls_iter T t0 tadd tmul tsub tdiv tleb teps fwd adj shift k (cgls_init T t0 tadd tmul tsub fwd adj b shift x0) in
  x = cg_x T st /\ (k <= maxit)%nat /\ length x = n /\
  cg_r T st = vsub tsub b (fwd x) /\ cg_s T st = ne x /\
  ((k < maxit)%nat ->
     tleb (normsq t0 tadd tmul (ne x)) (tmul (normsq t0 tadd tmul (ne x0)) (tmul tol tol)) = true \/
     tleb t1 (tmul (normsq t0 tadd tmul x) (tmul tol tol)) = true).
Proof.
  intros (H1 & H2 & H3 & H4) Hb Hx0 H.
  exact (cgls_solve_spec T t0 t1 tadd tmul tsub topp Tth tdiv tleb teps n m fwd adj H1 H2 H3 H4 b shift Hb x0 maxit tol x k Hx0 H).
Qed.

(* every iterate, not only the returned one *)
Lemma cgls_iterates_pkg n m fwd adj b shift x0 j :
  linear_op T tadd tmul n m fwd adj -> length b = m -> length x0 = n ->
  let st := cgls_iter T t0 tadd tmul tsub tdiv tleb teps fwd adj shift j (cgls_init T t0 tadd tmul tsub fwd adj b shift x0) in
  length (cg_x T st) = n /\
  cg_r T st = vsub tsub b (fwd (cg_x T st)) /\
  cg_s T st = vsub tsub (adj (cg_r T st)) (vscale tmul shift (cg_x T st)) /\
  cg_gamma T st = normsq t0 tadd tmul (cg_s T st).
Proof.
  intros (H1 & H2 & H3 & H4) Hb Hx0. cbn zeta.
  destruct (cgls_iter_inv T t0 t1 tadd tmul tsub topp Tth tdiv tleb teps n m fwd adj H1 H2 H3 H4 b shift Hb j
              (cgls_init T t0 tadd tmul tsub fwd adj b shift x0)) as (Ha & _ & Hr & Hs & Hg).
  { eapply cgls_init_inv; eassumption. }
  repeat split; try assumption. rewrite Hs. unfold ne_res. rewrite <- Hr. reflexivity.
Qed.

Lemma pcgls_invariant_pkg n m fwd adj b pinv pinvT shift x0 maxit tol x k :
  linear_op T tadd tmul n m fwd adj -> length b = m ->
  (forall y, length y = n -> length (pinv y) = n) -> (forall y, length y = n -> length (pinvT y) = n) ->
  length x0 = n ->
  pcgls_solve T t0 t1 tadd tmul tsub tdiv tleb teps fwd adj b pinv pinvT shift x0 maxit tol = (x, k) ->
  let pne := fun v => pinvT (adj (vsub tsub b (fwd v))) in
  let st := pcgls_iter T t0 tadd tmul tsub tdiv tleb teps fwd adj pinv pinvT k (pcgls_init T t0 tadd tmul tsub fwd adj b pinvT x0) in
  x = cg_x T st /\ (k <= maxit)%nat /\ length x = n /\
  cg_r T st = vsub tsub b (fwd x) /\ cg_s T st = pne x /\
  ((k < maxit)%nat ->
     tleb (normsq t0 tadd tmul (pne x)) (tmul (normsq t0 tadd tmul (pne x0)) (tmul tol tol)) = true \/
     tleb t1 (tmul (normsq t0 tadd tmul x) (tmul tol tol)) = true).
Proof.
  intros (H1 & H2 & H3 & H4) Hb Hp1 Hp2 Hx0 H.
  exact (pcgls_solve_spec T t0 t1 tadd tmul tsub topp Tth tdiv tleb teps n m fwd adj H1 H2 H3 H4 b Hb pinv pinvT Hp1 Hp2 shift x0 maxit tol x k Hx0 H).
Qed.

Lemma pcgls_shift0_pkg n m fwd adj b pinv pinvT shift x0 maxit tol x k :
  linear_op T tadd tmul n m fwd adj -> length b = m ->
  (forall y, length y = n -> length (pinv y) = n) -> (forall y, length y = n -> length (pinvT y) = n) ->
  shift = t0 -> length x0 = n ->
  pcgls_solve T t0 t1 tadd tmul tsub tdiv tleb teps fwd adj b pinv pinvT shift x0 maxit tol = (x, k) ->
  let ne := fun v => vsub tsub (adj (vsub tsub b (fwd v))) (vscale tmul shift v) in
  length x = n /\
  ((k < maxit)%nat ->
     tleb (normsq t0 tadd tmul (pinvT (ne x))) (tmul (normsq t0 tadd tmul (pinvT (ne x0))) (tmul tol tol)) = true \/
     tleb t1 (tmul (normsq t0 tadd tmul x) (tmul tol tol)) = true).
Proof.
  intros (H1 & H2 & H3 & H4) Hb Hp1 Hp2 Hs Hx0 H.
  exact (pcgls_solve_shift0 T t0 t1 tadd tmul tsub topp Tth tdiv tleb teps n m fwd adj H1 H2 H3 H4 b shift Hb pinv pinvT Hp1 Hp2 x0 maxit tol x k Hs Hx0 H).
Qed.

(* ---------- ordered statements, packaged ---------- *)
Variable phi : T -> R.
Hypothesis E : embedding T t0 t1 tadd tmul tsub topp tleb phi.

Local Notation N1 := (norm1 T t0 tadd topp tleb).

Lemma prox_l1_exact_pkg gamma x w : (0 <= phi gamma)%R -> length w = length x ->
  let p := prox_l1 T t0 t1 tmul tsub topp tleb x gamma in
  length p = length x /\
  tleb (tadd (tmul gamma (N1 p)) (dot t0 tadd tmul (vsub tsub x p) (vsub tsub w p))) (tmul gamma (N1 w)) = true /\
  tleb (tadd (normsq t0 tadd tmul (vsub tsub p x)) (tmul (tadd t1 t1) (tmul gamma (N1 p))))
       (tadd (normsq t0 tadd tmul (vsub tsub w x)) (tmul (tadd t1 t1) (tmul gamma (N1 w)))) = true.
Proof.
  destruct E as (E0 & E1 & Ea & Em & Es & Eo & El). intros Hg Hlen. cbn zeta. split; [apply map_length|]. split.
  - exact (prox_l1_vi T t0 t1 tadd tmul tsub topp tleb phi E0 E1 Ea Em Es Eo El gamma Hg x w Hlen).
  - exact (prox_l1_min T t0 t1 tadd tmul tsub topp tleb phi E0 E1 Ea Em Es Eo El gamma Hg x w Hlen).
Qed.

Lemma project_nonneg_exact_pkg x :
  let p := project_nonneg T t0 tleb x in
  length p = length x /\ nonnegb T t0 tleb p = true /\
  forall z, length z = length x -> nonnegb T t0 tleb z = true ->
    tleb (dot t0 tadd tmul (vsub tsub x p) (vsub tsub z p)) t0 = true /\
    tleb (normsq t0 tadd tmul (vsub tsub x p)) (normsq t0 tadd tmul (vsub tsub x z)) = true.
Proof.
  destruct E as (E0 & E1 & Ea & Em & Es & Eo & El).
  exact (project_nonneg_exact T t0 tadd tmul tsub topp tleb phi E0 Ea Em Es Eo El x).
Qed.

Lemma project_box_exact_pkg x lower upper :
  bound_ok T (length x) lower -> bound_ok T (length x) upper ->
  let lo := expand_bound T t0 (length x) lower in
  let up := expand_bound T t1 (length x) upper in
  lebv T tleb lo up = true ->
  let p := project_box T t0 t1 tleb x lower upper in
  boxb T tleb p lo up = true /\
  forall z, boxb T tleb z lo up = true ->
    tleb (dot t0 tadd tmul (vsub tsub x p) (vsub tsub z p)) t0 = true /\
    tleb (normsq t0 tadd tmul (vsub tsub x p)) (normsq t0 tadd tmul (vsub tsub x z)) = true.
Proof.
  destruct E as (E0 & E1 & Ea & Em & Es & Eo & El).
  exact (project_box_exact T t0 t1 tadd tmul tsub topp tleb phi E0 Ea Em Es Eo El x lower upper).
Qed.

Section Min.
Variables (n m : nat) (fwd adj : list T -> list T) (b : list T).
Hypothesis OP : adjoint_op T t0 tadd tmul tsub n m fwd adj.
Hypothesis b_len : length b = m.
Variable t : T.
Hypothesis t_pos : (0 < phi t)%R.

Local Notation half_res x := (/ 2 * phi (normsq t0 tadd tmul (vsub tsub (fwd x) b)))%R.

Lemma pg_near_minimiser_pkg (prox : list T -> T -> list T) (g : list T -> R) (dom : list T -> Prop) :
  (forall w, dom w -> length w = n) ->
  (forall z, length z = n -> dom (prox z t)) ->
  (forall z w, length z = n -> dom w ->
     (phi (dot t0 tadd tmul (vsub tsub z (prox z t)) (vsub tsub w (prox z t))) <= phi t * (g w - g (prox z t)))%R) ->
  forall y w, length y = n -> dom w ->
  let x := pg_map T tmul tsub fwd adj b prox t y in
  dom x /\
  (phi (dot t0 tadd tmul (vsub tsub y x) (vsub tsub w x)) - phi t / 2 * phi (normsq t0 tadd tmul (fwd (vsub tsub x y)))
   <= phi t * ((half_res w + g w) - (half_res x + g x)))%R.
Proof.
  destruct E as (E0 & E1 & Ea & Em & Es & Eo & El). destruct OP as (O1 & O2 & O3 & O4).
  intros Hd Hpd Hpi y w Hy Hw.
  exact (pg_near_minimiser T t0 t1 tadd tmul tsub topp Tth tleb phi E0 Ea Em Es Eo El n m fwd adj O1 O2 O3 O4 b b_len
           prox t t_pos g dom Hd Hpd Hpi y w Hy Hw).
Qed.

Lemma fixed_point_is_minimiser_pkg (prox : list T -> T -> list T) (g : list T -> R) (dom : list T -> Prop) :
  (forall w, dom w -> length w = n) ->
  (forall z, length z = n -> dom (prox z t)) ->
  (forall z w, length z = n -> dom w ->
     (phi (dot t0 tadd tmul (vsub tsub z (prox z t)) (vsub tsub w (prox z t))) <= phi t * (g w - g (prox z t)))%R) ->
  forall x, length x = n -> pg_map T tmul tsub fwd adj b prox t x = x ->
  dom x /\ forall w, dom w -> (half_res x + g x <= half_res w + g w)%R.
Proof.
  destruct E as (E0 & E1 & Ea & Em & Es & Eo & El). destruct OP as (O1 & O2 & O3 & O4).
  intros Hd Hpd Hpi x Hx Hfix.
  exact (fixed_point_is_minimiser T t0 t1 tadd tmul tsub topp Tth tleb phi E0 Ea Em Es Eo El n m fwd adj O1 O2 O3 O4 b b_len
           prox t t_pos g dom Hd Hpd Hpi x Hx Hfix).
Qed.

Lemma fista_l1_pkg s x : (0 <= phi s)%R -> length x = n ->
  pg_map T tmul tsub fwd adj b (fun z gamma => prox_l1 T t0 t1 tmul tsub topp tleb z (tmul gamma s)) t x = x ->
  forall w, length w = n -> (half_res x + phi s * phi (N1 x) <= half_res w + phi s * phi (N1 w))%R.
Proof.
  destruct E as (E0 & E1 & Ea & Em & Es & Eo & El). destruct OP as (O1 & O2 & O3 & O4).
  exact (fista_l1_fixed_point_minimises T t0 t1 tadd tmul tsub topp Tth tleb phi E0 E1 Ea Em Es Eo El n m fwd adj O1 O2 O3 O4 b b_len t t_pos s x).
Qed.

Lemma fista_box_pkg lower upper x :
  bound_ok T n lower -> bound_ok T n upper ->
  let lo := expand_bound T t0 n lower in
  let up := expand_bound T t1 n upper in
  lebv T tleb lo up = true -> length x = n ->
  pg_map T tmul tsub fwd adj b (fun z gamma => project_box T t0 t1 tleb z lower upper) t x = x ->
  boxb T tleb x lo up = true /\ forall w, boxb T tleb w lo up = true -> (half_res x <= half_res w)%R.
Proof.
  destruct E as (E0 & E1 & Ea & Em & Es & Eo & El). destruct OP as (O1 & O2 & O3 & O4).
  exact (fista_box_fixed_point_minimises T t0 t1 tadd tmul tsub topp Tth tleb phi E0 Ea Em Es Eo El n m fwd adj O1 O2 O3 O4 b b_len t t_pos lower upper x).
Qed.

Lemma fista_nonneg_pkg x : length x = n ->
  pg_map T tmul tsub fwd adj b (fun z gamma => project_nonneg T t0 tleb z) t x = x ->
  nonnegb T t0 tleb x = true /\ forall w, length w = n -> nonnegb T t0 tleb w = true -> (half_res x <= half_res w)%R.
Proof.
  destruct E as (E0 & E1 & Ea & Em & Es & Eo & El). destruct OP as (O1 & O2 & O3 & O4).
  exact (fista_nonneg_fixed_point_minimises T t0 t1 tadd tmul tsub topp Tth tleb phi E0 Ea Em Es Eo El n m fwd adj O1 O2 O3 O4 b b_len t t_pos x).
Qed.
End Min.

(* ---------- LM, packaged: multiplicative form of the stopping rule ---------- *)
Hypothesis phi_div : forall a b, phi b <> 0%R -> phi (tdiv a b) = (phi a / phi b)%R.

Lemma lm_stationary_pkg (F : list T -> list T) (Jf : list T -> list (list T)) (solve : list (list T) -> list T -> list T)
      (rnorm : list T -> T) n nu0 gradtol x0 maxit st i :
  (forall v, (0 <= phi (rnorm v))%R) ->
  lm_solve T t0 t1 tadd tmul tsub topp tdiv tleb F Jf solve rnorm n nu0 gradtol x0 maxit = (st, i) ->
  let grad := fun x => mattvec t0 tadd tmul n (Jf x) (F x) in
  (i <= maxit)%nat /\ lm_r T st = F (lm_x T st) /\ lm_J T st = Jf (lm_x T st) /\
  ((i < maxit)%nat -> (phi (rnorm (grad (lm_x T st))) <= phi gradtol * phi (rnorm (grad x0)))%R \/
                      (phi (rnorm (grad x0)) = 0%R /\ lm_x T st = x0)).
Proof.
  intros Hn H. cbn zeta.
  pose proof (lm_solve_spec T t0 t1 tadd tmul tsub topp tdiv tleb F Jf solve rnorm n nu0 gradtol x0 maxit st i H)
    as (Hst & Hi & Hr & HJ & _ & Hstop).
  repeat split; try assumption.
  intros Hlt. specialize (Hstop Hlt). cbn zeta in Hstop. unfold lm_grad in Hstop.
  destruct E as (E0 & E1 & Ea & Em & Es & Eo & El).
  destruct Hstop as [Hz | Hle].
  - (* |g0| = 0: the loop condition is false at once, no iteration is made *)
    right. unfold req in Hz. apply andb_true_iff in Hz as (Hz1 & Hz2). apply El in Hz1, Hz2. rewrite E0 in Hz1, Hz2.
    assert (Hg0 : phi (rnorm (mattvec t0 tadd tmul n (Jf x0) (F x0))) = 0%R) by lra.
    split; [exact Hg0|].
    unfold lm_solve in H. destruct maxit as [|mx]; [lia|]. cbn [lm_loop] in H.
    assert (Hc : lm_continue T t0 tdiv tleb gradtol (lm_ng T (lm_init T t0 t1 tadd tmul tdiv F Jf rnorm n x0))
                   (lm_init T t0 t1 tadd tmul tdiv F Jf rnorm n x0) = false).
    { unfold lm_continue. apply andb_false_iff. left. apply negb_false_iff.
      unfold req. cbn [lm_init lm_ng]. apply andb_true_iff; split; apply El; rewrite E0; lra. }
    rewrite Hc in H. inv H. reflexivity.
  - destruct (Rle_lt_dec (phi (rnorm (mattvec t0 tadd tmul n (Jf x0) (F x0)))) 0) as [Hz | Hpos].
    + (* same as above *)
      right. pose proof (Hn (mattvec t0 tadd tmul n (Jf x0) (F x0))) as Hn0.
      assert (Hg0 : phi (rnorm (mattvec t0 tadd tmul n (Jf x0) (F x0))) = 0%R) by lra.
      split; [exact Hg0|].
      unfold lm_solve in H. destruct maxit as [|mx]; [lia|]. cbn [lm_loop] in H.
      assert (Hc : lm_continue T t0 tdiv tleb gradtol (lm_ng T (lm_init T t0 t1 tadd tmul tdiv F Jf rnorm n x0))
                     (lm_init T t0 t1 tadd tmul tdiv F Jf rnorm n x0) = false).
      { unfold lm_continue. apply andb_false_iff. left. apply negb_false_iff.
        unfold req. cbn [lm_init lm_ng]. apply andb_true_iff; split; apply El; rewrite E0; lra. }
      rewrite Hc in H. inv H. reflexivity.
    + left. exact (ratio_le_mult T tleb phi El tdiv phi_div _ _ _ Hpos Hle).
Qed.
End Matrix.
