"""What MANIFEST.json claims, per property (bin/manifest.py turns this into MANIFEST.json)."""
SOURCE_COMMITS = []
NOTES = ("Every check: (1) rebuilds and re-checks the property theorems in coq/theories/Props/<id>*.v (Print Assumptions against an allow-list), "
         "(2) runs the real implementation from /repo's working tree and the executable Coq model on the same generated inputs, "
         "(3) runs an independent oracle of the property on the implementation; see DESIGN.md sections 2 and 4.")
NOT_YET = {}
TB = ("Trusted: Coq 8.16.1 kernel + vm_compute; the hand-written model is tied to the code only by the correspondence harness "
      "(generators bound its strength; their distribution is in the evidence); numpy/scipy primitives are oracles. ")
CHECKS = {
 "C19": {
  "technique": "Coq proof over list/Z/Q model + vm_compute correspondence with Samples/JointSamples",
  "text": "Theorems (all closed under the global context, for every chain length, sample type, Nb, Nt, credibility level): burnthin returns stored samples Nb+i*Nt "
          "with exact length and refusal condition, composes, keeps flags; joint sets member-wise; percentile monotone => lower<=median<=upper, width>=0; variance identity; "
          "distinct names => variable i gets row i. Tied to the code by EXACT comparison on integer arrays over every (Nb,Nt) for small Ns and by 1e-9 comparison of the statistics.",
  "note": TB + "Floating rounding of numpy's statistics is not modelled (compared to exact rationals within 1e-9). arviz internals are outside the model; only what arviz is handed is checked."},
}
