"""C17 -- shipped test problems match their documentation and are internally consistent.

Correspondence: cuqi.testproblem.{Deconvolution1D (new + legacy), Deconvolution2D, Abel1D, Poisson1D, Heat1D, WangCubic}
vs Model/C17_TP.v (exact / 1e-9 over Z and Qc) and Model/C17_TPR.v (ENCLOSURE: Gaussian PSF, legacy PSFs, posterior.logd).
Independent oracle: reference operators written out in plain Python (Fractions / math), the documented PSFs, the stated
noise rule, object identities, Gaussian log-likelihood + log-prior.
"""
import math, itertools, warnings
from fractions import Fraction
import numpy as np
from common import *

IMPORTS = ("From CV Require Import Base.Cmp Base.QcLin Model.C17_TP Model.C17_TPR Model.C17_More Model.C17_Encl. "
           "From Coq Require Import QArith Qcanon Reals List String. Import ListNotations. "
           "From Interval Require Import Tactic.")
RULE = ("every test problem x option lattice at small dim: Deconvolution1D (5 BC x custom integer PSF symmetric/asymmetric/"
        "even/longer-than-signal + Gauss/Moffat/Defocus x PSF_size parity x PSF_param, gaussian/scaledgaussian noise, custom prior, "
        "string phantoms), legacy circulant (custom + gauss/sinc/vonMises, refusals), Deconvolution2D (5 BC x integer PSFs 1..5 "
        "square/asymmetric/non-square + shipped PSFs), Abel1D, Poisson1D, Heat1D (field types, maps, observation maps, SNR), "
        "WangCubic; string phantoms as formulas; scale sweeps 2^-30..2^24 (relative comparisons); declaration styles (int dtype, views, Fortran order, "
        "CUQIarray, numpy scalars); keep-alive re-reads after evaluations; scripted normals 0 / unit / dyadic; distinct = distinct (problem spec, observable); trivial = refusals and "
        "oracle-verdict carrier cases")

TOL = Fraction(1, 10 ** 9)
SIG_T = "Deconvolution1D.forward|transposed-operator"
SIG_L = "_getCirculantMatrix|custom-PSF:transposed-operator"
SIG_D = "Defocus-PSF|disc-off-centre"
SIG_D0 = "Defocus-PSF|param-0:IndexError"
SIG_PG = "Poisson1D.__init__|range-grid-ignores-endpoint"
SIG_HS = "Heat1D.__init__|field_type-Step+map:AttributeError"
SIG_PP = "cuqi.data.p_power|odd-size:wrong-shape"
SIG_H1 = "Heat1D|single-observation:0-d-data"

# ------------------------------------------------------------------------------------------------
# encoders
# ------------------------------------------------------------------------------------------------
def cqc(x):
    return "(qc %s)" % cq(x)


def cqcvec(v):
    return clist([cqc(a) for a in v])


def cqcmat(m):
    return clist([cqcvec(r) for r in m])


def cr(x):
    f = frac(x)
    if f.denominator == 1:
        return "(IZR (%d))" % f.numerator
    return "(IZR (%d) / IZR %d)" % (f.numerator, f.denominator)


def encl(model, obs, tol=TOL):
    v = frac(obs)
    t = tol * (1 + abs(v))
    return "(Rabs (%s - %s) <= %s)%%R" % (model, cr(v), cr(t)), "c17_encl."


def fl(v):
    return [float(a) for a in np.asarray(v, dtype=float).ravel()]


def fl2(m):
    return [[float(a) for a in r] for r in np.asarray(m, dtype=float)]


def dense(A):
    return np.asarray(A.todense()) if hasattr(A, "todense") else np.asarray(A)


def is_int(v):
    return all(float(a).is_integer() for a in np.asarray(v, dtype=float).ravel())


def close(a, b, tol=1e-9):
    a, b = np.asarray(a, dtype=float), np.asarray(b, dtype=float)
    return a.shape == b.shape and bool(np.all(np.abs(a - b) <= tol * (1 + np.abs(b))))


def rclose(a, b, tol=1e-9):
    """scale-free: |a_i - b_i| <= tol * max_j |b_j|"""
    a, b = np.asarray(a, dtype=float), np.asarray(b, dtype=float)
    return a.shape == b.shape and bool(np.all(np.abs(a - b) <= tol * np.max(np.abs(b)))) if b.size else a.shape == b.shape


BC1 = {"zero": ("constant", "BCzero"), "periodic": ("wrap", "BCwrap"), "nearest": ("nearest", "BCnearest"),
       "reflect": ("reflect", "BCreflect"), "mirror": ("mirror", "BCmirror")}
# Deconvolution2D: neumann -> numpy symmetric (= scipy reflect), mirror -> numpy reflect (= scipy mirror)
BC2 = {"zero": ("constant", "BCzero"), "periodic": ("wrap", "BCwrap"), "nearest": ("nearest", "BCnearest"),
       "neumann": ("reflect", "BCreflect"), "mirror": ("mirror", "BCmirror")}

# ------------------------------------------------------------------------------------------------
# independent reference operators (plain Python; the index rule is the documented one of scipy.ndimage)
# ------------------------------------------------------------------------------------------------
def ext_idx(i, n, mode):
    if 0 <= i < n:
        return i
    if mode == "constant":
        return None
    if mode == "wrap":
        return i % n
    if mode == "nearest":
        return 0 if i < 0 else n - 1
    if mode == "reflect":
        p = 2 * n; j = i % p
        return j if j < n else p - 1 - j
    if mode == "mirror":
        if n == 1:
            return 0
        p = 2 * n - 2; j = i % p
        return j if j < n else p - j
    raise ValueError(mode)


def ref_conv1(x, w, mode):
    n, L = len(x), len(w)
    out = []
    for i in range(n):
        s = 0
        for k in range(L):
            j = ext_idx(i - k + L // 2, n, mode)
            if j is not None:
                s += w[k] * x[j]
        out.append(s)
    return out


def ref_matrix1(n, w, mode):
    """matrix whose COLUMN j is the convolution of e_j"""
    cols = [ref_conv1([1 if i == j else 0 for i in range(n)], w, mode) for j in range(n)]
    return [[cols[j][i] for j in range(n)] for i in range(n)]


def ref_conv2(X, P, mode):
    n1, n2 = len(X), len(X[0]); m, k = len(P), len(P[0]); c = max(m, k) // 2
    out = [[0] * n2 for _ in range(n1)]
    for i in range(n1):
        for j in range(n2):
            s = 0
            for a in range(m):
                ii = ext_idx(i - a + c, n1, mode)
                if ii is None:
                    continue
                for b in range(k):
                    jj = ext_idx(j - b + c, n2, mode)
                    if jj is not None:
                        s += P[a][b] * X[ii][jj]
            out[i][j] = s
    return out


def psf_grid(n):
    return list(range(-(n // 2), -(n // 2) + n))


def doc_psf_1d(kind, n, param):
    """the documented PSFs: Gaussian with std param, Moffat (beta=1), uniform disc of radius param -- centred at n//2"""
    kind = kind.lower()
    if param is None:
        param = 10
    if kind == "gauss":
        g = [math.exp(-0.5 * x * x / param ** 2) for x in psf_grid(n)]
    elif kind == "moffat":
        g = [1.0 / (1 + x * x / param ** 2) for x in psf_grid(n)]
    elif kind == "defocus":
        g = [1.0 if (i - n // 2) ** 2 <= param ** 2 else 0.0 for i in range(n)]     # param = 0: the delta
    else:
        raise ValueError(kind)
    s = sum(g)
    return [v / s for v in g]


def code_defocus_1d(n, param):
    """the disc as the unrepaired code places it (one-based k): used only to CLASSIFY a mismatch"""
    g = [1.0 if (i + 1 - n // 2) ** 2 <= param ** 2 else 0.0 for i in range(n)]
    s = sum(g)
    return [v / s for v in g] if s else None


def doc_psf_2d(kind, n, param):
    kind = kind.lower()
    gr = psf_grid(n)
    if kind == "gauss":
        g = [[math.exp(-0.5 * (x * x + y * y) / param ** 2) for x in gr] for y in gr]
    elif kind == "moffat":
        g = [[1.0 / (1 + (x * x + y * y) / param ** 2) for x in gr] for y in gr]
    elif kind == "defocus":
        g = [[1.0 if (i - n // 2) ** 2 + (j - n // 2) ** 2 <= param ** 2 else 0.0 for j in range(n)] for i in range(n)]
    else:
        raise ValueError(kind)
    s = sum(map(sum, g))
    return [[v / s for v in r] for r in g]


def code_defocus_2d(n, param):
    g = [[1.0 if (i + 1 - n // 2) ** 2 + (j + 1 - n // 2) ** 2 <= param ** 2 else 0.0 for j in range(n)] for i in range(n)]
    s = sum(map(sum, g))
    return [[v / s for v in r] for r in g] if s else None


def transpose(M):
    return [list(r) for r in zip(*M)]


def matvec(M, x):
    return [sum(a * b for a, b in zip(r, x)) for r in M]


LOG2PI = math.log(2 * math.pi)


def gauss_logpdf(d, m, s2):
    """log N(d; m, diag(s2)) with s2 scalar or vector, plain loops"""
    n = len(d)
    s2 = [s2] * n if np.ndim(s2) == 0 else list(s2)
    return sum(-0.5 * (LOG2PI + math.log(v)) - (a - b) ** 2 / (2 * v) for a, b, v in zip(d, m, s2))


# ------------------------------------------------------------------------------------------------
# which of the proposed repairs are present in the tree under test (behavioural probes, once per run)
# ------------------------------------------------------------------------------------------------
_STATE = {}


def probe_state(force=False):
    if _STATE and not force:
        return _STATE
    import cuqi
    from cuqi.testproblem import Deconvolution1D
    from cuqi.testproblem import _testproblem as T
    with warnings.catch_warnings():
        warnings.simplefilter("ignore")
        tp = Deconvolution1D(dim=5, PSF=np.array([1., 2, 3]), BC="zero", phantom=np.arange(5.))
        A = dense(tp.model.get_matrix())
        _STATE["asm_fixed"] = bool(np.array_equal(A[:, 0], [2, 3, 0, 0, 0]))
        P, _ = T._DefocusPSF_1D(5, 1)
        _STATE["defocus_fixed"] = bool(np.allclose(P, [0, 1 / 3, 1 / 3, 1 / 3, 0]))
        L = dense(Deconvolution1D(dim=6, PSF=np.array([1., 2, 3, 4, 5, 6]), use_legacy=True, phantom=np.arange(6.)).model.get_matrix())
        _STATE["legacy_fixed"] = bool(np.array_equal(L[:, 3], [1, 2, 3, 4, 5, 6]))
        from cuqi.testproblem import Poisson1D
        with ScriptedRandom(seed=0):
            _STATE["pgrid_fixed"] = bool(Poisson1D(dim=3, endpoint=2, source=lambda xs: 1 + 0 * xs).model.range_geometry.grid[0] == 1.0)
            try:
                from cuqi.testproblem import Heat1D as _H
                _STATE["heat1obs_fixed"] = np.ndim(_H(dim=1).exactData) == 1
            except Exception:
                _STATE["heat1obs_fixed"] = False
            try:
                _STATE["ppower_fixed"] = cuqi.data.p_power(size=5).shape == (5, 5)
            except Exception:
                _STATE["ppower_fixed"] = False
            try:
                from cuqi.testproblem import Heat1D
                Heat1D(dim=4, field_type="Step", field_params={"n_steps": 2}, map=lambda x: 2 * x + 1)
                _STATE["heatstep_fixed"] = True
            except AttributeError:
                _STATE["heatstep_fixed"] = False
    return _STATE


# ------------------------------------------------------------------------------------------------
# construction under a scripted normal stream
# ------------------------------------------------------------------------------------------------
class HarnessError(Exception):
    pass


class Draws:
    """scripted numpy.random: randn(shape) -> z ; normal(0, sigma, shape) -> sigma * z (the law assumed of numpy's normal);
    records sigma and every call"""
    def __init__(self, z):
        self.z = np.asarray(z, dtype=float)
        self.sigma = None
        self.calls = []

    def __call__(self, kind, a, k, idx):
        self.calls.append(kind)
        if kind == "randn":
            shp = tuple(a)
            if int(np.prod(shp)) != self.z.size:
                raise HarnessError("unexpected randn shape %r" % (shp,))
            return self.z.reshape(shp).copy()
        if kind == "normal":
            loc, sigma, size = a[0], a[1], (a[2] if len(a) > 2 else k.get("size"))
            self.sigma = float(sigma)
            if loc != 0 or int(np.prod(size)) != self.z.size:
                raise HarnessError("unexpected normal call %r" % (a,))
            return (self.sigma * self.z).reshape(size)
        raise HarnessError("unexpected random call " + kind)


def mk_prior(cuqi, spec, dim, geometry=None):
    if spec is None:
        return None
    kw = {"geometry": geometry} if geometry is not None else {}
    return cuqi.distribution.Gaussian(np.array(spec["mean"], dtype=float), spec["cov"], name=spec.get("name", "x"), **kw)


def arr_or_str(v, ndim=1):
    return v if isinstance(v, str) or v is None else np.array(v, dtype=float)


def construct(spec):
    """build the test problem described by spec; returns (problem or None, Draws, exception-name or None)"""
    import cuqi
    from cuqi import testproblem as TP
    d = Draws(spec.get("z", []))
    kind = spec["tp"]
    kw = dict(spec.get("kw", {}))
    try:
        with warnings.catch_warnings():
            warnings.simplefilter("ignore")
            with ScriptedRandom(seed=0, script=d):
                sty = spec.get("style", {})
                if sty.get("np_str"):          # str SUBCLASS instances for every name-valued option
                    for key in ("PSF", "BC", "phantom", "noise_type", "field_type"):
                        if isinstance(kw.get(key), str):
                            kw[key] = np.str_(kw[key])
                    if isinstance(kw.get("field"), dict) and isinstance(kw["field"].get("type"), str) and not kw["field"]["type"].startswith("inst:"):
                        kw["field"] = dict(kw["field"], _np_str=True)
                if sty.get("np_bool") and "use_legacy" in kw:
                    kw["use_legacy"] = np.bool_(kw["use_legacy"])
                if kind in ("deconv1d", "deconv2d"):
                    for key in ("PSF", "phantom"):
                        if key in kw and not isinstance(kw[key], str):
                            a = np.array(kw[key], dtype=(int if sty.get(key) == "int" else float))
                            if sty.get(key) == "fortran":
                                a = np.asfortranarray(a)
                            if sty.get(key) == "view":
                                big = np.zeros(tuple(2 * d_ for d_ in a.shape)); big[...] = 7
                                v = big[tuple(slice(None, None, 2) for _ in a.shape)]; v[...] = a; a = v
                            if sty.get(key) == "flat":
                                a = a.ravel()
                            if sty.get(key) == "cuqiarray" and a.ndim == 1:
                                a = cuqi.array.CUQIarray(a, geometry=cuqi.geometry.Continuous1D(len(a)))
                            kw[key] = a
                            spec.setdefault("_inputs", {})[key] = (a, np.array(a, copy=True))
                    if sty.get("dim") == "np":
                        kw["dim"] = np.int64(kw["dim"])
                    if sty.get("noise_std") == "np":
                        kw["noise_std"] = np.float64(kw["noise_std"])
                if kind == "deconv1d":
                    for key in ("PSF", "phantom"):
                        if key in kw and isinstance(kw[key], list):
                            kw[key] = arr_or_str(kw[key])
                    if "prior" in kw:
                        kw["prior"] = mk_prior(cuqi, kw["prior"], kw.get("dim", 128))
                    tp = TP.Deconvolution1D(**kw)
                elif kind == "deconv2d":
                    for key in ("PSF", "phantom"):
                        if key in kw and isinstance(kw[key], list):
                            kw[key] = arr_or_str(kw[key])
                    if "prior" in kw:
                        n = kw.get("dim", 128)
                        kw["prior"] = mk_prior(cuqi, kw["prior"], n * n, cuqi.geometry.Image2D((n, n)))
                    tp = TP.Deconvolution2D(**kw)
                elif kind == "abel":
                    tp = TP.Abel1D(**field_kw(cuqi, kw, "KL_map"))
                elif kind == "poisson":
                    tp = TP.Poisson1D(**field_kw(cuqi, dict(kw, _tpkind="poisson"), "map"))
                elif kind == "heat":
                    tp = TP.Heat1D(**field_kw(cuqi, dict(kw, _tpkind="heat"), "map"))
                elif kind == "cubic":
                    if "prior" in kw:
                        kw["prior"] = mk_prior(cuqi, kw["prior"], 2)
                    dk = spec.get("data_kind")
                    if dk and "data" in kw:
                        kw["data"] = {"int": int, "float": float, "np": np.float64, "bool": bool, "array": lambda v: np.array([float(v)]),
                                      "npint": np.int64}[dk](kw["data"])
                    if spec.get("noise_kind") == "np" and "noise_std" in kw:
                        kw["noise_std"] = np.float64(kw["noise_std"])
                    tp = TP.WangCubic(**kw)
                else:
                    raise ValueError(kind)
        return tp, d, None
    except HarnessError:
        raise
    except Exception as e:
        return None, d, type(e).__name__ + ": " + str(e)[:120]


SOURCES = {"zero": lambda xs: 0 * xs, "one": lambda xs: 1 + 0 * xs, "lin": lambda xs: 2 * xs + 1, "quad": lambda xs: 4 * xs * xs}
OBSMAPS = {"upper": lambda g: g[np.where(g > 0.45)], "every2": lambda g: g[::2], "last": lambda g: g[-1:]}
MAPS = {"exp": (lambda x: np.exp(x), lambda x: np.log(x)), "affine": (lambda x: 2 * x + 1, lambda x: (x - 1) / 2),
        "sq1": (lambda x: x * x + 1, lambda x: np.sqrt(x - 1))}
GCLASS = {"subcont": ("UserContinuous1D", 0, "GContinuous1D"), "subStep": ("UserStepExpansion", 3, "GStep"), "cont": ("Continuous1D", 0, "GContinuous1D"), "KL": ("KLExpansion", 1, "GKL"), "KL_Full": ("KLExpansion_Full", 2, "GKLFull"),
          "Step": ("StepExpansion", 3, "GStep"), "CustomKL": ("CustomKL", 4, "GCustomKL")}


def field_grid(tpkind, kw):
    n, ep = kw["dim"], kw.get("endpoint", 1)
    if tpkind == "poisson":
        return np.linspace(0, ep, n, endpoint=True)
    if tpkind == "heat":
        return np.linspace(ep / (n + 1), ep, n, endpoint=False)
    return np.linspace(0, ep, n)


def field_params_py(cls, params):
    """json-able field_params -> constructor keywords (CustomKL needs a covariance function)"""
    params = dict(params or {})
    if cls == "CustomKL":
        ell = params.pop("ell", 1.0)
        params["cov_func"] = lambda a, b, ell=ell: np.exp(-abs(a - b) / ell)
    return params


def mk_field_geometry(cuqi, cls, grid, params):
    G = cuqi.geometry
    if cls.startswith("sub"):        # an instance of a USER SUBCLASS of a shipped geometry (isinstance vs exact-type dispatch)
        parent = {"subcont": G.Continuous1D, "subStep": G.StepExpansion}[cls]
        return type("User" + parent.__name__, (parent,), {})(grid, **field_params_py(cls[3:], params))
    ctor = {"cont": G.Continuous1D, "KL": G.KLExpansion, "KL_Full": G.KLExpansion_Full, "Step": G.StepExpansion, "CustomKL": G.CustomKL}[cls]
    return ctor(grid, **field_params_py(cls, params))


FIELD_OBJS = {}


def field_kw(cuqi, kw, mapname):
    kw = dict(kw)
    FIELD_OBJS.clear()
    if "field" in kw:          # {"type": None | name | "inst:<class>", "params": {...}, "map": None | name, "imap": bool}
        fd = kw.pop("field")
        tpkind = {"KL_map": "abel"}.get(mapname, None) or kw.pop("_tpkind")
        ft = fd.get("type")
        if ft is not None and ft.startswith("inst:"):
            inst = mk_field_geometry(cuqi, ft[5:], field_grid(tpkind, kw), fd.get("params"))
            kw["field_type"] = inst
            FIELD_OBJS["instance"] = inst
            if fd.get("params_also"):
                kw["field_params"] = {}
        elif ft is not None:
            kw["field_type"] = np.str_(ft) if fd.get("_np_str") else ft
            if fd.get("params") is not None:
                kw["field_params"] = field_params_py(ft, fd["params"])
        if fd.get("map"):
            m_, im_ = MAPS[fd["map"]]
            m_ = (lambda f: (lambda x: f(x)))(m_)          # fresh callables: identity of the objects handed on is checked
            im_ = (lambda f: (lambda x: f(x)))(im_)
            kw[mapname] = m_
            FIELD_OBJS["map"] = m_
            if fd.get("imap", True):
                kw["KL_imap" if mapname == "KL_map" else "imap"] = im_
                FIELD_OBJS["imap"] = im_
    kw.pop("_tpkind", None)
    if "source" in kw:
        kw["source"] = SOURCES[kw["source"]]
    if "observation_grid_map" in kw:
        kw["observation_grid_map"] = OBSMAPS[kw["observation_grid_map"]]
    if "exactSolution" in kw:
        kw["exactSolution"] = np.array(kw["exactSolution"], dtype=(int if kw.pop("exactSolution_int", False) else float))
    if "fmap" in kw:
        m, im = MAPS[kw.pop("fmap")]
        kw[mapname] = m
        kw["KL_imap" if mapname == "KL_map" else "imap"] = im
    return kw


# ------------------------------------------------------------------------------------------------
# observables common to all problems: data rule, handed-out objects, posterior log-density
# ------------------------------------------------------------------------------------------------
def verdict_case(spec, cell, detail, sig):
    return Case(expr="true", meta=dict(spec, verdict=sig), cell="oracle-verdict/" + cell, trivial=True, kind="DECISION",
                impl_fail=detail, signature=sig)


def prior_of(spec, dim):
    p = spec.get("kw", {}).get("prior")
    if p is not None:
        return [float(v) for v in p["mean"]], float(p["cov"])
    if spec["tp"] == "cubic":
        return [1.0, 0.0], 1.0
    return [0.0] * dim, 1.0


def common_cases(spec, tp, d, cell, stated, info_expected):
    """stated = ("std", s) | ("scaled", s) | ("snr", SNR) | ("given", s)   (given: WangCubic, data is an argument)"""
    cases = []
    rule, val = stated[0], stated[1]
    m, dd, info = tp.get_components()
    L, P = tp.likelihood, tp.posterior
    snap = {nm: (None if a is None else np.array(a, dtype=float, copy=True)) for nm, a in
            (("data", tp.data), ("exactData", tp.exactData), ("exactSolution", tp.exactSolution))}
    # ---------------- data = exact + stated std * z --------------------------------------------
    s2 = None
    if rule != "given":
        exact, data, z = fl(tp.exactData), fl(tp.data), [float(v) for v in spec["z"]]
        fail = None
        if rule == "std":
            expr = "check_data_gaussian%s tol9 %s %s %s %s" % ("_rel" if spec.get("scale") else "", cqc(val), cqcvec(exact), cqcvec(z), cqcvec(data))
            want = [e + abs(val) * zz for e, zz in zip(exact, z)]
            s2 = val * val
        elif rule == "scaled":
            expr = "check_data_scaled tol9 %s %s %s %s" % (cqc(val), cqcvec(exact), cqcvec(z), cqcvec(data))
            want = [e + abs(e * val) * zz for e, zz in zip(exact, z)]
            s2 = [(e * val) ** 2 for e in exact]
        else:
            sig_ = d.sigma
            expr = "check_data_snr%s tol9 %s %s %s %s %s" % ("_rel" if spec.get("scale") else "", cqc(val), cqc(sig_), cqcvec(exact), cqcvec(z), cqcvec(data))
            nrm = math.sqrt(sum(e * e for e in exact))
            want = [e + nrm / val * zz for e, zz in zip(exact, z)]
            s2 = sig_ * sig_
            if not rclose(sig_, nrm / val):
                fail = "noise std handed to numpy is %r, stated rule ||exactData||/SNR = %r" % (sig_, nrm / val)
        if fail is None and not rclose(data, want):
            fail = "data - exactData = %s but stated std x scripted normal = %s" % (
                [a - b for a, b in zip(data, exact)], [a - b for a, b in zip(want, exact)])
        cov = np.asarray(L.distribution.cov, dtype=float).ravel()
        if fail is None and not (cov.shape == np.asarray(s2, dtype=float).ravel().shape and
                                 bool(np.all(np.abs(cov - np.asarray(s2, dtype=float).ravel()) <= 1e-9 * np.abs(np.asarray(s2, dtype=float).ravel())))):
            fail = "likelihood covariance %s is not the stated noise variance %s" % (cov, s2)
        cases.append(Case(expr=expr, meta=dict(spec, obs="data"), cell=cell + "/data", kind="EXACT",
                          trivial=all(v == 0 for v in z)))
        if rule == "std" and np.size(L.distribution.cov) == 1:
            dflt = 0.0036 if spec["tp"] == "deconv2d" else 0.01
            sup = spec.get("kw", {}).get("noise_std")
            cases.append(Case(expr="check_default_sq tol9 %s %s %s" % (copt(sup, lambda v: cqc(float(v))), cqc(Fraction(dflt).limit_denominator(10 ** 6)), cqc(float(np.ravel(L.distribution.cov)[0]))),
                              meta=dict(spec, obs="noise_std-argument"), cell=cell + "/arguments", kind="EXACT"))
        if fail:
            cases.append(verdict_case(dict(spec, obs="data"), cell + "/data", fail, "%s|data-rule" % spec["tp"]))
    else:
        s2 = val * val
    # ---------------- same objects ------------------------------------------------------------------
    ids = (id(L.distribution.mean), id(L.data), id(P.likelihood), id(P.prior))
    obs = (id(m), id(dd), id(tp.likelihood), id(tp.prior))
    expr = "check_components %s %s %s %s %s %s %s %s" % tuple(cz(v) for v in ids + obs)
    fail = None
    checks = [("get_components()[0] is likelihood.model", m is L.model), ("model is the mean of the data distribution", m is L.distribution.mean),
              ("get_components()[1] is likelihood.data", dd is L.data), ("posterior.likelihood is likelihood", P.likelihood is L),
              ("posterior.prior is prior", P.prior is tp.prior), ("posterior.model is model", P.model is m), ("posterior.data is data", P.data is dd),
              ("info.exactSolution is exactSolution", info.exactSolution is tp.exactSolution), ("info.exactData is exactData", info.exactData is tp.exactData),
              ("posterior.geometry is model.domain_geometry (or both default of equal dim)", P.geometry is m.domain_geometry or
               (type(m.domain_geometry).__name__.startswith("_Default") and P.geometry.par_dim == m.domain_dim)),
              ("prior.dim == model.domain_dim", tp.prior.dim == m.domain_dim), ("data dim == model.range_dim", np.size(dd) == m.range_dim),
              ("likelihood distribution dim == model.range_dim", L.distribution.dim == m.range_dim),
              ("info.Miscellaneous is problem.Miscellaneous", info.Miscellaneous is getattr(tp, "Miscellaneous", None)),
              ("infoString", getattr(tp, "infoString", None) == info_expected and info.infoString == info_expected)]
    if tp.exactSolution is not None:
        checks += [("exactSolution.geometry is model.domain_geometry", tp.exactSolution.geometry is m.domain_geometry),
                   ("exactData.geometry is model.range_geometry", tp.exactData.geometry is m.range_geometry),
                   ("exactData == model.forward(exactSolution)", close(fl(tp.exactData), fl(m.forward(tp.exactSolution))))]
    # data / range geometry: same function representation (grid, dimension), whatever the class
    if tp.exactData is not None:
        gd, gr = getattr(dd, "geometry", None), m.range_geometry
        same_grid = gd is not None and gd.par_dim == gr.par_dim and (
            getattr(gd, "grid", None) is None or getattr(gr, "grid", None) is None or
            np.array_equal(np.asarray(gd.grid, dtype=float), np.asarray(gr.grid, dtype=float)))
        checks.append(("data.geometry describes the same grid as model.range_geometry", same_grid))
    bad = [nm for nm, ok in checks if not ok]
    if bad:
        fail = "handed-out objects are inconsistent: " + "; ".join(bad) + (" (infoString=%r, expected %r)" % (getattr(tp, "infoString", None), info_expected) if "infoString" in bad else "")
    cases.append(Case(expr=expr, meta=dict(spec, obs="components"), cell=cell + "/components", kind="DECISION"))
    if fail:
        cases.append(verdict_case(dict(spec, obs="components"), cell + "/components", fail, "%s|components" % spec["tp"]))
    # ---------------- posterior.logd = Gaussian log-likelihood of the stated noise + log-prior ------------------
    x = spec.get("x")
    if x is not None:
        x = [float(v) for v in x]
        mu, ps2 = prior_of(spec, len(x))
        v = float(np.asarray(P.logd(np.array(x))).ravel()[0])
        mx = fl(m.forward(np.array(x)))
        if spec.get("_mx_ref") is not None:      # forward map computed independently (geometry -> map -> documented solution map)
            mx = [float(v) for v in spec["_mx_ref"]]
        data = [stated[2]] if rule == "given" else fl(dd)      # WangCubic: the SUPPLIED observation, not what is handed back
        s2v = [float(a) for a in (s2 if np.ndim(s2) else [s2] * len(data))]
        if min(s2v) > 1e-12 and math.isfinite(v):
            xmu = clist(["(%s, %s)" % (cr(a), cr(b)) for a, b in zip(x, mu)])
            if np.ndim(s2):
                dms = clist(["((%s, %s), %s)" % (cr(a), cr(b), cr(c)) for a, b, c in zip(data, mx, s2v)])
                model = "(post_logd_diag %s %s %s)" % (dms, cr(ps2), xmu)
            else:
                dm = clist(["(%s, %s)" % (cr(a), cr(b)) for a, b in zip(data, mx)])
                model = "(post_logd_iid %s %s %s %s)" % (cr(s2v[0]), dm, cr(ps2), xmu)
            expr, tac = encl(model, v)
            want = gauss_logpdf(data, mx, s2v) + gauss_logpdf(x, mu, ps2)
            cases.append(Case(expr=expr, tac=tac, kind="ENCLOSURE", meta=dict(spec, obs="logd", observed=v), cell=cell + "/logd"))
            if not close(v, want, 1e-8):
                cases.append(verdict_case(dict(spec, obs="logd"), cell + "/logd",
                                          "posterior.logd(%s) = %r but Gaussian log-likelihood of the stated noise + log-prior = %r" % (x, v, want),
                                          "%s|posterior-logd" % spec["tp"]))
    # ---------------- keep-alive: nothing handed out earlier has changed after all the evaluations above -----------
    x0 = np.zeros(m.domain_dim) + 0.5
    with warnings.catch_warnings():
        warnings.simplefilter("ignore")
        try:
            m.forward(x0); L.logd(x0); P.logd(x0); tp.prior.logd(x0)
            if hasattr(m, "adjoint"):
                m.adjoint(np.ones(m.range_dim))
            if hasattr(P, "gradient") and spec["tp"] != "heat" and spec["tp"] != "poisson":
                P.gradient(x0)
        except (NotImplementedError, TypeError, ValueError, AttributeError):
            pass
    m2, dd2, info2 = tp.get_components()
    changed = [nm for nm, a in (("data", tp.data), ("exactData", tp.exactData), ("exactSolution", tp.exactSolution))
               if (a is None) != (snap[nm] is None) or (a is not None and not np.array_equal(np.array(a, dtype=float), snap[nm]))]
    if m2 is not m or dd2 is not dd:
        changed.append("get_components() hands out other objects the second time")
    for nm, ref in spec.get("_inputs", {}).items():
        if not np.array_equal(ref[0], ref[1]):
            changed.append("input array %s was modified by the constructor or by an evaluation" % nm)
    cases.append(Case(expr=cbool(not changed), meta=dict(spec_clean(spec), obs="keepalive"), cell=cell + "/keepalive", kind="DECISION", trivial=True))
    if changed:
        cases.append(verdict_case(dict(spec_clean(spec), obs="keepalive"), cell + "/keepalive",
                                  "after forward/adjoint/logd/gradient evaluations these changed: " + "; ".join(changed), "%s|keepalive" % spec["tp"]))
    for c in cases:
        c.meta = spec_clean(c.meta)
        c.key = ""; c.__post_init__()
    return cases


def spec_clean(meta):
    return {k: v for k, v in meta.items() if not k.startswith("_")}


# ------------------------------------------------------------------------------------------------
# shipped PSF generators
# ------------------------------------------------------------------------------------------------
def psf_cases(kind, n, param, two_d=False):
    """_GaussPSF_1D/_MoffatPSF_1D/_DefocusPSF_1D (and the 2-d ones) against the documented PSF"""
    from cuqi.testproblem import _testproblem as T
    st = probe_state()
    spec = {"tp": "psf2d" if two_d else "psf1d", "kind": kind, "n": n, "param": param}
    cell = "PSF%s/%s/%s" % ("2d" if two_d else "1d", kind, "even" if n % 2 == 0 else "odd")
    cases = []
    err = None
    try:
        with warnings.catch_warnings():
            warnings.simplefilter("ignore")
            with np.errstate(all="ignore"):
                if two_d:
                    f = {"gauss": lambda: T._GaussPSF(np.array([n, n]), param), "moffat": lambda: T._MoffatPSF(np.array([n, n]), param, 1),
                         "defocus": lambda: T._DefocusPSF(np.array([n, n]), param)}[kind]
                else:
                    f = {"gauss": lambda: T._GaussPSF_1D(n, param), "moffat": lambda: T._MoffatPSF_1D(n, param),
                         "defocus": lambda: T._DefocusPSF_1D(n, param)}[kind]
                P, center = f()
        P = np.asarray(P, dtype=float)
        if not np.all(np.isfinite(P)):
            P, err = None, "nan"
    except IndexError as e:
        P, err = None, "IndexError"
    # ---- oracle
    doc = doc_psf_2d(kind, n, param) if two_d else doc_psf_1d(kind, n, param)
    detail, sig = None, ""
    if P is None:
        detail = "%s PSF (size %d, param %r) is not produced: %s; documented: %s" % (kind, n, param, err, doc)
        sig = SIG_D0 if (kind == "defocus" and param == 0) else (SIG_D if kind == "defocus" else "PSF|%s-not-produced" % kind)
    elif not close(P, doc):
        detail = "%s PSF (size %d, param %r) = %s but the documented PSF centred at index %d is %s" % (kind, n, param, P.tolist(), n // 2, doc)
        sig = "PSF|%s-mismatch" % kind
        if kind == "defocus":
            code = code_defocus_2d(n, param) if two_d else code_defocus_1d(n, param)
            if code is not None and close(P, code):
                sig = SIG_D
    # ---- model
    enc = cqcmat if two_d else cqcvec
    chk = "check_oqmat" if two_d else "check_oqvec"
    obs = copt(None if P is None else (fl2(P) if two_d else fl(P)), enc)
    if kind == "moffat":
        expr = "%s tol9 (moffat_psf_%s %s %s) %s" % (chk, "2d" if two_d else "1d", cnat(n), cqc(param), obs)
        cases.append(Case(expr=expr, meta=spec, cell=cell, kind="EXACT"))
    elif kind == "defocus":
        expr = "%s tol9 (defocus_psf_%s %s %s %s) %s" % (chk, "2d" if two_d else "1d", cbool(st["defocus_fixed"]), cnat(n), cqc(param), obs)
        cases.append(Case(expr=expr, meta=spec, cell=cell, kind="EXACT"))
    elif kind == "gauss" and P is not None:
        if two_d:
            g1, _ = T._GaussPSF_1D(n, param)
            cases.append(Case(expr="check_outer tol9 %s %s" % (cqcvec(fl(g1)), cqcmat(fl2(P))), meta=spec, cell=cell, kind="EXACT"))
        else:
            grid = "ltac:(let g := eval vm_compute in (psf_grid %s) in exact g)" % cnat(n)
            for i in range(n):
                e, tac = encl("(gauss_psf_R %s %s %s)" % (grid, cr(param), cnat(i)), P[i])
                cases.append(Case(expr=e, tac=tac, kind="ENCLOSURE", meta=dict(spec, entry=i), cell=cell))
    if detail:
        cases.append(verdict_case(spec, cell, detail, sig))
    return cases


def used_psf_1d(kw):
    """(documented PSF as floats, model-side Coq term of the PSF or None) for a Deconvolution1D spec"""
    P = kw.get("PSF", "gauss")
    n = kw.get("dim", 128)
    if not isinstance(P, str):
        return [float(v) for v in P], None
    size = kw.get("PSF_size") or n
    param = kw.get("PSF_param")
    if param is None:
        param = 10
    return doc_psf_1d(P, size, param), (P.lower(), size, param)


# ------------------------------------------------------------------------------------------------
# Deconvolution1D (convolve1d form)
# ------------------------------------------------------------------------------------------------
def info_deconv(kw):
    return "Noise type: Additive {} with std: {}".format(kw.get("noise_type", "gaussian").capitalize(), kw.get("noise_std", 0.01))


def deconv1d_cases(spec, cell):
    from cuqi.testproblem import _testproblem as T
    st = probe_state()
    kw = spec["kw"]
    n = kw["dim"]
    tp, d, err = construct(spec)
    docP, shipped = used_psf_1d(kw)
    mode, bcn = BC1[kw.get("BC", "periodic").lower()]
    if tp is None:
        # a refusal where the documented PSF exists is a defect of the PSF generator (Defocus with param 0)
        if shipped and shipped[0] == "defocus" and shipped[2] == 0 and "IndexError" in err:
            return [Case(expr=cbool(not st["defocus_fixed"]), meta=spec, cell=cell + "/refused", kind="DECISION", trivial=True),
                    verdict_case(spec, cell, "Deconvolution1D(PSF='Defocus', PSF_param=0) raises %s; documented: the delta PSF, A = I" % err, SIG_D0)]
        raise RuntimeError("unexpected refusal %s for %r" % (err, spec))
    A = dense(tp.model.get_matrix())
    x = fl(tp.exactSolution)
    Ax = fl(tp.exactData)
    cases = []
    # ---- independent oracle: the documented operator, column by column
    ref = ref_matrix1(n, docP, mode)
    detail, sig = None, ""
    close = rclose if spec.get("scale") else globals()["close"]
    if not close(A, ref):
        sig = "Deconvolution1D.forward|operator-mismatch"
        cand = {SIG_T: transpose(ref)}
        if shipped and shipped[0] == "defocus":
            cP = code_defocus_1d(shipped[1], shipped[2])
            if cP is not None:
                cand[SIG_D] = ref_matrix1(n, cP, mode)
                cand[SIG_D + "+T"] = transpose(cand[SIG_D])
        for s_, M in cand.items():
            if close(A, M):
                sig = SIG_D if s_.startswith(SIG_D) else s_
                break
        j = next(j for j in range(n) if not close(A[:, j], [r[j] for r in ref]))
        detail = ("Deconvolution1D(%s): column %d of the model matrix is %s but the documented convolution (convolve1d, mode=%s) of e_%d with the PSF %s is %s"
                  % (", ".join("%s=%r" % kv for kv in kw.items() if kv[0] not in ("phantom",)), j, A[:, j].tolist(), mode, j, docP, [r[j] for r in ref]))
    elif not close(Ax, ref_conv1(x, docP, mode)):
        detail, sig = "exactData is not the documented convolution of exactSolution", "Deconvolution1D.forward|exactData"
    # ---- model
    if shipped is None and is_int(docP) and is_int(x):
        expr = "check_deconv1_z %s %s %s %s %s %s %s" % (cbool(st["asm_fixed"]), bcn, czvec(docP), cnat(n), czmat(A), czvec(x), czvec(Ax))
        cases.append(Case(expr=expr, meta=dict(spec, obs="operator"), cell=cell + "/operator", kind="EXACT"))
    else:
        if shipped is None:
            Pt = cqcvec(docP)
        elif shipped[0] == "moffat":
            Pt = "(moffat_psf_1d %s %s)" % (cnat(shipped[1]), cqc(shipped[2]))
        elif shipped[0] == "defocus":
            Pt = "(defocus_psf_1d %s %s %s)" % (cbool(st["defocus_fixed"]), cnat(shipped[1]), cqc(shipped[2]))
        else:   # gauss: the PSF the shipped generator returns (its entries are enclosed over R by the PSF cells)
            Pt = cqcvec(docP)              # documented Gaussian PSF (plain Python); the generator itself is tied by the PSF cells
        body = ("check_deconv1_qr" if spec.get("scale") else "check_deconv1_q") + " tol9 %s %s P %s %s %s %s" % (cbool(st["asm_fixed"]), bcn, cnat(n), cqcmat(fl2(A)), cqcvec(x), cqcvec(Ax))
        if shipped is not None and shipped[0] in ("moffat", "defocus"):
            expr = "match %s with Some P => %s | None => false end" % (Pt, body)
        else:
            expr = "let P := %s in %s" % (Pt, body)
        cases.append(Case(expr=expr, meta=dict(spec, obs="operator"), cell=cell + "/operator", kind="EXACT"))
    if detail:
        cases.append(verdict_case(dict(spec, obs="operator"), cell + "/operator", detail, sig))
    # ---- phantom handed through
    ph = kw.get("phantom", "sinc")
    if not isinstance(ph, str) and not close(x, ph):
        cases.append(verdict_case(spec, cell, "exactSolution is not the given phantom", "Deconvolution1D|phantom"))
    stated = ("scaled" if kw.get("noise_type", "gaussian").lower() == "scaledgaussian" else "std", float(kw.get("noise_std", 0.01)))
    if spec.get("x") is not None:
        spec = dict(spec, _mx_ref=[float(v) for v in ref_conv1([float(v) for v in spec["x"]], docP, mode)])   # documented operator, not model.forward
    cases += common_cases(spec, tp, d, cell, stated, info_deconv(kw))
    cases += reassign_cases(spec, tp, d, cell, stated, info_deconv(kw))
    return cases


def reassign_cases(spec, tp, d, cell, stated, info):
    """object reuse after attribute re-assignment: problem.prior = <new prior>; everything handed out afterwards refers to the new prior
    and to the unchanged model / data"""
    ra = spec.get("reassign")
    if not ra:
        return []
    import cuqi
    m0, d0 = tp.model, tp.data
    tp.prior = mk_prior(cuqi, ra, len(ra["mean"]))
    spec2 = dict(spec, kw=dict(spec["kw"], prior=ra))
    cs = common_cases(spec2, tp, d, cell + "/prior-reassigned", stated, info)
    if tp.model is not m0 or tp.data is not d0:
        cs.append(verdict_case(spec_clean(dict(spec2, obs="reassign")), cell + "/prior-reassigned", "re-assigning the prior changed the model/data objects handed out", "%s|prior-reassign" % spec["tp"]))
    return cs


def zero_noise_case(spec, cell):
    """noise_std = 0 (falsy but supplied): either refused (a Gaussian with zero covariance cannot be sampled) or noise-free data --
    never the default noise level"""
    tp, d, err = construct(spec)
    ok, detail = True, None
    if tp is not None:
        cov = np.asarray(tp.likelihood.distribution.cov, dtype=float).ravel()
        ok = bool(np.all(cov == 0)) and np.array_equal(np.asarray(tp.data, dtype=float), np.asarray(tp.exactData, dtype=float))
        if not ok:
            detail = "noise_std=0 was supplied but the problem was built with noise covariance %s (data - exactData = %s): a default replaced the supplied value" % (
                cov, (np.asarray(tp.data, dtype=float) - np.asarray(tp.exactData, dtype=float)).tolist())
    c = [Case(expr=cbool(ok), meta=spec, cell=cell, kind="DECISION", trivial=tp is None)]
    if detail:
        c.append(verdict_case(spec, cell, detail, "%s|noise_std-argument" % spec["tp"]))
    return c


def refusal_case(spec, cell, expected_refused):
    tp, d, err = construct(spec)
    refused = tp is None
    c = [Case(expr=cbool(refused == expected_refused), meta=spec, cell=cell, kind="DECISION", trivial=True)]
    if refused != expected_refused:
        c.append(verdict_case(spec, cell, "construction %s although the options are %s" % (
            "is refused (%s)" % err if refused else "succeeds", "outside the documented domain" if expected_refused else "documented"),
            "%s|refusal" % spec["tp"]))
    return c


# ------------------------------------------------------------------------------------------------
# Deconvolution1D legacy circulant
# ------------------------------------------------------------------------------------------------
def legacy_doc_row(kind, n, param):
    grid = [m / n for m in range(n // 2 + 1)]
    if kind == "gauss":
        p = 10 if param is None else param
        return [math.exp(-(p * g) ** 2) for g in grid]
    if kind in ("sinc", "prolate"):
        p = 15 if param is None else param
        return [1.0 if p * g == 0 else math.sin(math.pi * p * g) / (math.pi * p * g) for g in grid]
    if kind == "vonmises":
        p = 5 if param is None else param
        return [math.exp(p * (math.cos(2 * math.pi * g) - 1)) for g in grid]
    raise ValueError(kind)


def legacy_cases(spec, cell):
    st = probe_state()
    kw = spec["kw"]
    n = kw["dim"]
    tp, d, err = construct(spec)
    P = kw.get("PSF", "gauss")
    cases = []
    if not isinstance(P, str):
        refused_expected = (n % 2 == 1) or len(P) != n
        obs = None if tp is None else dense(tp.model.get_matrix())
        expr = "check_legacy_z %s %s %s %s" % (cbool(st["legacy_fixed"]), cnat(n), czvec(P), copt(None if obs is None else obs.tolist(), czmat))
        cases.append(Case(expr=expr, meta=dict(spec, obs="operator"), cell=cell + "/operator", kind="EXACT", trivial=tp is None))
        if (tp is None) != refused_expected:
            cases.append(verdict_case(spec, cell, "legacy construction refused=%s (%s), expected refused=%s" % (tp is None, err, refused_expected), "deconv1d-legacy|refusal"))
        if tp is None:
            return cases
        ref = ref_matrix1(n, [float(v) for v in P], "wrap")      # periodic convolution, PSF centred at dim/2 -- as the convolve1d form
        if not close(obs, ref):
            sig = SIG_L if close(obs, transpose(ref)) else "_getCirculantMatrix|operator-mismatch"
            c = n // 2
            cases.append(verdict_case(dict(spec, obs="operator"), cell + "/operator",
                                      "legacy Deconvolution1D(dim=%d, PSF=%s): the response to the unit impulse at the PSF centre %d is %s, not the PSF (the matrix is the transpose of the periodic convolution with the PSF)"
                                      % (n, list(P), c, obs[:, c].tolist()), sig))
    else:
        A = dense(tp.model.get_matrix())
        hh = fl(A[0, :n // 2 + 1])
        cases.append(Case(expr="check_legacy_builtin tol9 %s %s" % (cqcvec(hh), cqcmat(fl2(A))), meta=dict(spec, obs="operator"),
                          cell=cell + "/operator", kind="EXACT"))
        param = kw.get("PSF_param")
        k = P.lower()
        pdef = {"gauss": 10, "sinc": 15, "prolate": 15, "vonmises": 5}[k] if param is None else param
        for m_ in range(n // 2 + 1):
            g = Fraction(m_, n)
            if k == "gauss":
                mod = "(legacy_gauss_R %s %s)" % (cr(pdef), cr(g))
            elif k == "vonmises":
                mod = "(legacy_vonmises_R %s %s)" % (cr(pdef), cr(g))
            else:
                if m_ == 0 or pdef == 0:
                    mod = "(IZR 1)"
                else:
                    mod = "(legacy_sinc_R %s %s)" % (cr(pdef), cr(g))
            e, tac = encl(mod, hh[m_])
            cases.append(Case(expr=e, tac=tac, kind="ENCLOSURE", meta=dict(spec, obs="row", entry=m_), cell=cell + "/psf"))
        doc = legacy_doc_row(k, n, param)
        full = doc + doc[1:-1][::-1]
        ref = [[full[(j - i) % n] for j in range(n)] for i in range(n)]
        if not close(A, ref):
            cases.append(verdict_case(dict(spec, obs="operator"), cell + "/operator", "legacy %s matrix is not the circulant of the documented PSF %s" % (k, doc),
                                      "_getCirculantMatrix|operator-mismatch"))
    x, Ax = fl(tp.exactSolution), fl(tp.exactData)
    if not close(Ax, matvec(dense(tp.model.get_matrix()).tolist(), x)):
        cases.append(verdict_case(spec, cell, "exactData != A exactSolution", "deconv1d-legacy|exactData"))
    stated = ("scaled" if kw.get("noise_type", "gaussian").lower() == "scaledgaussian" else "std", float(kw.get("noise_std", 0.01)))
    if spec.get("x") is not None:
        spec = dict(spec, _mx_ref=[float(v) for v in matvec(ref, [float(v) for v in spec["x"]])])      # documented circulant, not model.forward
    cases += common_cases(spec, tp, d, cell, stated, info_deconv(kw))
    return cases


# ------------------------------------------------------------------------------------------------
# Deconvolution2D
# ------------------------------------------------------------------------------------------------
def deconv2d_cases(spec, cell):
    from cuqi.testproblem import _testproblem as T
    st = probe_state()
    kw = spec["kw"]
    n = kw["dim"]
    P = kw.get("PSF", "gauss")
    mode, bcn = BC2[kw.get("BC", "periodic").lower()]
    tp, d, err = construct(spec)
    cases = []
    close = rclose if spec.get("scale") else globals()["close"]
    if isinstance(P, str):
        size, param = kw.get("PSF_size", 21), kw.get("PSF_param", 2.56)
        docP = doc_psf_2d(P, size, param)
        if tp is None:
            if P.lower() == "defocus" and param == 0 and "IndexError" in err:
                return [Case(expr=cbool(not st["defocus_fixed"]), meta=spec, cell=cell + "/refused", kind="DECISION", trivial=True),
                        verdict_case(spec, cell, "Deconvolution2D(PSF='Defocus', PSF_param=0) raises %s; documented: the delta PSF" % err, SIG_D0)]
            raise RuntimeError("unexpected refusal %s for %r" % (err, spec))
        usedP = docP                      # the documented PSF (plain Python), not what the problem stores
        if not close(fl2(tp.Miscellaneous["PSF"]), docP) and not (P.lower() == "defocus" and not st["defocus_fixed"]):
            cases.append(verdict_case(dict(spec, obs="Miscellaneous"), cell, "Miscellaneous['PSF'] is not the documented PSF", "Deconvolution2D|Miscellaneous"))
    else:
        docP = [[float(v) for v in r] for r in P]
        square = len(docP) == len(docP[0])
        if tp is None and isinstance(kw.get("phantom"), str):
            sig = SIG_PP if (spec.get("phantom_ref") == "p_power" and n % 2 == 1 and "reshape" in err) else "Deconvolution2D|phantom-name-refused"
            return [Case(expr=cbool(sig == SIG_PP and not st.get("ppower_fixed", False)), meta=spec, cell=cell + "/refused", kind="DECISION", trivial=True),
                    verdict_case(spec, cell, "Deconvolution2D(dim=%d, phantom=%r) cannot be constructed: %s" % (n, kw["phantom"], err), sig)]
        if tp is None:
            X = [[float(v) for v in r] for r in kw["phantom"]]
            expr = "check_deconv2_zq tol9 %s %s %s None" % (bcn, czmat(docP), czmat(X))
            c = [Case(expr=expr, meta=spec, cell=cell + "/refused", kind="DECISION", trivial=True)]
            if square:
                c.append(verdict_case(spec, cell, "square PSF refused: " + err, "deconv2d|refusal"))
            return c
        usedP = docP
    X = np.asarray(tp.exactSolution, dtype=float).reshape(n, n)
    Y = np.asarray(tp.exactData, dtype=float).reshape(n, n)
    # forward on a fresh integer image (spec["img"]) and on the exact solution
    img = np.array(spec["img"], dtype=float)
    Fimg = np.asarray(tp.model.forward(img.ravel()), dtype=float).reshape(n, n)
    Bimg = np.asarray(tp.model.adjoint(img.ravel()), dtype=float).reshape(n, n)
    ref = ref_conv2(img.tolist(), docP, mode)
    detail, sig = None, ""
    close = rclose if spec.get("scale") else globals()["close"]
    if not close(Fimg, ref):
        sig = "Deconvolution2D.forward|operator-mismatch"
        if isinstance(P, str) and P.lower() == "defocus":
            cP = code_defocus_2d(kw.get("PSF_size", 21), kw.get("PSF_param", 2.56))
            if cP is not None and close(Fimg, ref_conv2(img.tolist(), cP, mode)):
                sig = SIG_D
        detail = "Deconvolution2D(dim=%d, PSF=%s, BC=%s).model.forward(%s) = %s but the documented convolution (PSF centre at size//2) is %s" % (
            n, P if isinstance(P, str) else docP, kw.get("BC", "periodic"), img.tolist(), Fimg.tolist(), ref)
    elif not close(Y, ref_conv2(X.tolist(), docP, mode)):
        detail, sig = "exactData is not the documented convolution of exactSolution", "Deconvolution2D.forward|exactData"
    # adjoint as documented in the code: the same padded convolution with the PSF flipped in both axes (its being the
    # transpose of the forward map is C07's property; here: it is THAT operator, for every BC / PSF shape)
    flipP = [r[::-1] for r in docP[::-1]]
    refB = ref_conv2(img.tolist(), flipP, mode)
    if not close(Bimg, refB):
        cases.append(verdict_case(dict(spec, obs="adjoint"), cell + "/backward",
                                  "Deconvolution2D(dim=%d, PSF=%s, BC=%s).model.adjoint(%s) = %s but the convolution with the PSF flipped in both axes is %s" % (
                                      n, P if isinstance(P, str) else docP, kw.get("BC", "periodic"), img.tolist(), Bimg.tolist(), refB), "Deconvolution2D.adjoint|not-flipped-PSF-convolution"))
    ph = kw.get("phantom")
    if isinstance(ph, str) and spec.get("phantom_ref"):
        import cuqi
        with warnings.catch_warnings():
            warnings.simplefilter("ignore")
            want_img = np.asarray(getattr(cuqi.data, spec["phantom_ref"])(size=n), dtype=float)
        if want_img.shape != (n, n) or not np.array_equal(want_img, X):
            cases.append(verdict_case(dict(spec, obs="phantom"), cell, "Deconvolution2D(phantom=%r): exactSolution is not cuqi.data.%s(size=%d)" % (ph, spec["phantom_ref"], n), "Deconvolution2D|phantom-name"))
    if detail is None and ph is not None and not isinstance(ph, str) and not close(X, np.array(ph, dtype=float).reshape(n, n)):
        detail, sig = "exactSolution is not the given phantom", "Deconvolution2D|phantom"
    if is_int(usedP):
        cases.append(Case(expr="check_deconv2_zq tol9 %s %s %s (Some %s)" % (bcn, czmat(usedP), czmat(img.tolist()), cqcmat(fl2(Fimg))),
                          meta=dict(spec, obs="forward"), cell=cell + "/forward", kind="EXACT"))
        cases.append(Case(expr="check_backward2_zq tol9 %s %s %s %s" % (bcn, czmat(usedP), czmat(img.tolist()), cqcmat(fl2(Bimg))),
                          meta=dict(spec, obs="adjoint-code"), cell=cell + "/backward", kind="EXACT"))
    else:
        cases.append(Case(expr=("check_deconv2_qr" if spec.get("scale") else "check_deconv2_q") + " tol9 %s %s %s %s" % (bcn, cqcmat(usedP), cqcmat(img.tolist()), cqcmat(fl2(Fimg))),
                          meta=dict(spec, obs="forward"), cell=cell + "/forward", kind="EXACT"))
        cases.append(Case(expr=("check_backward2_qr" if spec.get("scale") else "check_backward2_q") + " tol9 %s %s %s %s" % (bcn, cqcmat(usedP), cqcmat(img.tolist()), cqcmat(fl2(Bimg))),
                          meta=dict(spec, obs="adjoint-code"), cell=cell + "/backward", kind="EXACT"))
    cases.append(Case(expr=("check_deconv2_qr" if spec.get("scale") else "check_deconv2_q") + " tol9 %s %s %s %s" % (bcn, cqcmat(usedP), cqcmat(fl2(X)), cqcmat(fl2(Y))),
                      meta=dict(spec, obs="exactData"), cell=cell + "/exactData", kind="EXACT"))
    if detail:
        cases.append(verdict_case(dict(spec, obs="forward"), cell + "/forward", detail, sig))
    stated = ("scaled" if kw.get("noise_type", "gaussian").lower() == "scaledgaussian" else "std", float(kw.get("noise_std", 0.0036)))
    if spec.get("x") is not None:
        xim = np.array(spec["x"], dtype=float).reshape(n, n).tolist()
        spec = dict(spec, _mx_ref=[float(v) for r in ref_conv2(xim, docP, mode) for v in r])
    cases += common_cases(spec, tp, d, cell, stated, info_deconv(dict(kw, noise_std=kw.get("noise_std", 0.0036))))
    return cases


# ------------------------------------------------------------------------------------------------
# Abel1D, Poisson1D, Heat1D
# ------------------------------------------------------------------------------------------------
def identity_field(kw):
    ft = kw.get("field_type")
    return "fmap" not in kw and "field" not in kw and (ft is None or type(ft).__name__ == "Continuous1D")


def abel_cases(spec, cell):
    kw = spec["kw"]
    n, ep = kw["dim"], kw.get("endpoint", 1)
    tp, d, err = construct(spec)
    if tp is None:
        raise RuntimeError("Abel1D refused: %s %r" % (err, spec))
    A = dense(tp.model._matrix) if hasattr(tp.model, "_matrix") and tp.model._matrix is not None else dense(tp.model.get_matrix())
    close = rclose if spec.get("scale") else globals()["close"]
    cases = [Case(expr=("check_abel_r" if spec.get("scale") else "check_abel") + " tol9 %s %s %s" % (cnat(n), cqc(ep), cqcmat(fl2(A))), meta=dict(spec, obs="operator"), cell=cell + "/operator", kind="EXACT")]
    h = ep / n
    ref = [[(h / math.sqrt((i - j + 0.5) * h)) if j <= i else 0.0 for j in range(n)] for i in range(n)]
    if not close(A, ref):
        cases.append(verdict_case(dict(spec, obs="operator"), cell + "/operator", "Abel matrix %s is not the documented quadrature h/sqrt(s_i-t_j): %s" % (A.tolist(), ref), "Abel1D|operator-mismatch"))
    # exact solution: sin(pi t) exp(-2 t) at the quadrature nodes; exact data = A applied to it (function values)
    t = [h / 2 + j * (ep - h) / (n - 1) if n > 1 else h / 2 for j in range(n)]
    xs = [math.sin(tt * math.pi) * math.exp(-2 * tt) for tt in t]
    if not close(fl(tp.exactSolution), xs):
        cases.append(verdict_case(spec, cell, "exactSolution is not sin(pi t)exp(-2t) on the quadrature nodes", "Abel1D|exactSolution"))
    elif not close(fl(tp.exactData), matvec(ref, xs)):
        cases.append(verdict_case(spec, cell, "exactData is not the quadrature applied to exactSolution", "Abel1D|exactData"))
    if spec.get("x") is not None and spec.get("_mx_ref") is None and identity_field(kw):
        spec = dict(spec, _mx_ref=[float(v) for v in matvec(ref, [float(v) for v in spec["x"]])])
    cases += common_cases(spec, tp, d, cell, ("snr", float(kw.get("SNR", 100))), None)
    return cases


def poisson_cases(spec, cell):
    kw = spec["kw"]
    n, ep = kw["dim"], kw.get("endpoint", 1)
    tp, d, err = construct(spec)
    if tp is None:
        raise RuntimeError("Poisson1D refused: %s %r" % (err, spec))
    N = n - 1
    dx = ep / N
    kappa = fl(tp.exactSolution)          # function values of the conductivity
    supplied_fail = None
    default_cases = []
    if "exactSolution" not in kw:       # documented default: exp(5 x exp(-2x) sin(endpoint - x)) on the domain nodes linspace(0, endpoint, dim)
        gd = [float(v) for v in np.linspace(0, ep, n)]
        want_k = [math.exp(5 * g_ * math.exp(-2 * g_) * math.sin(ep - g_)) for g_ in gd]
        if not rclose(kappa, want_k):
            supplied_fail = "default exactSolution %s is not exp(5x exp(-2x) sin(endpoint-x)) on linspace(0,endpoint,dim): %s" % (kappa, want_k)
        for i_, g_ in enumerate(gd):
            e_, tac_ = encl("(poisson_default_R %s %s)" % (cr(Fraction(ep)), cr(g_)), kappa[i_])
            default_cases.append(Case(expr=e_, tac=tac_, kind="ENCLOSURE", meta=dict(spec, obs="default-exactSolution", entry=i_), cell=cell + "/default-exactSolution"))
    if "exactSolution" in kw:
        if not np.array_equal(np.asarray(kappa), np.asarray(kw["exactSolution"], dtype=float)):
            supplied_fail = "Poisson1D(exactSolution=%s): problem.exactSolution = %s -- the supplied array was replaced" % (kw["exactSolution"], kappa)
        kappa = [float(v) for v in kw["exactSolution"]]
    src = SOURCES[kw.get("source", "one")]
    grid = [dx + i * (ep - dx) / N for i in range(N)]     # the code's source grid: linspace(dx, endpoint, N, endpoint=False)
    rhs = [float(v) for v in src(np.array(grid))]
    cases = []
    # independent dense solve of the documented discrete equation
    Dx = np.zeros((N + 1, N)); Dx[0, 0] = 1
    for r in range(1, N + 1):
        Dx[r, r - 1] = -1
        if r < N:
            Dx[r, r] = 1
    Dx /= dx
    u = np.linalg.solve(Dx.T @ np.diag(kappa) @ Dx, rhs)
    y = fl(tp.exactData)
    if "observation_grid_map" in kw:
        g = np.array(grid); sel = OBSMAPS[kw["observation_grid_map"]](g)
        idx = [int(np.argmin(abs(g - s))) for s in sel]
        want = [u[i] for i in idx]
        cases.append(Case(expr=cbool(len(y) == len(idx)), meta=dict(spec, obs="obsmap"), cell=cell + "/obsmap", kind="DECISION"))
    else:
        want = list(u)
        if not spec.get("scale"):
            cases.append(Case(expr="check_poisson tol6 %s %s %s %s %s" % (cnat(N), cqc(Fraction(ep).limit_denominator(64) / N), cqcvec(kappa), cqcvec(y), cqcvec(rhs)),
                              meta=dict(spec, obs="residual"), cell=cell + "/residual", kind="EXACT"))
        srcn = {"one": "SrcOne", "lin": "SrcLin", "quad": "SrcQuad", "zero": "SrcZero"}[kw.get("source", "one")]
        cases.append(Case(expr="check_poisson_full tol6 %s %s %s %s %s" % (srcn, cnat(N), cqc(Fraction(ep)), cqcvec(kappa), cqcvec(y)),
                          meta=dict(spec, obs="equation"), cell=cell + "/equation", kind="EXACT"))
        cases.append(Case(expr="check_poisson_grid tol9 %s %s %s %s" % (cbool(probe_state()["pgrid_fixed"]), cnat(N), cqc(Fraction(ep)), cqcvec(fl(tp.model.range_geometry.grid))),
                          meta=dict(spec, obs="grid"), cell=cell + "/grid", kind="EXACT"))
        if not rclose(fl(tp.model.range_geometry.grid), grid):
            cases.append(verdict_case(dict(spec, obs="grid"), cell + "/grid",
                                      "Poisson1D(dim=%d, endpoint=%r): the published range/solution grid %s is not the node grid %s on which the source term is sampled (first node 1/(dim-1) instead of endpoint/(dim-1))"
                                      % (n, ep, fl(tp.model.range_geometry.grid), grid), SIG_PG))
    cases += default_cases
    if supplied_fail:
        cases.append(verdict_case(spec, cell, supplied_fail, "Poisson1D|exactSolution-argument"))
    if not rclose(y, want, 1e-8):
        cases.append(verdict_case(spec, cell, "exactData %s does not solve the documented discrete Poisson equation (observed nodes): %s" % (y, want), "Poisson1D|exactData"))
    if spec.get("x") is not None and spec.get("_mx_ref") is None and identity_field(kw) and "observation_grid_map" not in kw:
        spec = dict(spec, _mx_ref=[float(v) for v in poisson_ref(n, ep, [float(v) for v in spec["x"]], kw.get("source", "one"))])
    cases += common_cases(spec, tp, d, cell, ("snr", float(kw.get("SNR", 200))), None)
    return cases


def heat_cases(spec, cell):
    kw = spec["kw"]
    N, ep, T = kw["dim"], kw.get("endpoint", 1), kw.get("max_time", 0.2)
    tp, d, err = construct(spec)
    if tp is None:
        raise RuntimeError("Heat1D refused: %s %r" % (err, spec))
    if np.ndim(tp.exactData) == 0 or np.ndim(tp.data) == 0:
        # exactly ONE observed node: the observation is squeezed to a 0-d array and the problem cannot be evaluated
        ok_state = not probe_state().get("heat1obs_fixed", False)
        try:
            with warnings.catch_warnings():
                warnings.simplefilter("ignore")
                tp.posterior.logd(np.ones(tp.model.domain_dim))
            raised = None
        except Exception as e_:
            raised = type(e_).__name__
        return [Case(expr=cbool(ok_state), meta=spec_clean(dict(spec, obs="single-observation")), cell=cell + "/single-observation", kind="DECISION", trivial=True),
                verdict_case(spec_clean(dict(spec, obs="single-observation")), cell,
                             "Heat1D(%s): with exactly one observed node exactData/data are 0-d arrays (shape %s) instead of 1-vectors%s" % (
                                 ", ".join("%s=%r" % kv for kv in kw.items()), np.shape(tp.data), "; posterior.logd raises " + raised if raised else ""), SIG_H1)]
    dx = ep / (N + 1)
    steps = int(T / (5 / 11 * dx ** 2))
    dt = T / steps if steps else 0.0
    u = np.array([float(v) for v in kw["exactSolution"]] if "exactSolution" in kw else fl(tp.exactSolution))       # initial condition (function values)
    Dxx = (np.diag(-2 * np.ones(N)) + np.diag(np.ones(N - 1), -1) + np.diag(np.ones(N - 1), 1)) / dx ** 2
    for _ in range(steps):
        u = u + dt * (Dxx @ u)               # forward Euler, the documented default
    y = fl(tp.exactData)
    cases = []
    if "observation_grid_map" in kw:
        g = np.array([dx * (i + 1) for i in range(N)]); sel = OBSMAPS[kw["observation_grid_map"]](g)
        u = np.array([u[int(np.argmin(abs(g - s)))] for s in sel])
    cases.append(Case(expr=cbool(len(y) == len(u)), meta=dict(spec, obs="shape"), cell=cell + "/shape", kind="DECISION", trivial=True))
    nsteps = len(tp.model.pde.time_steps) - 1
    u0 = fl(tp.exactSolution)
    fdsc = kw.get("field", {})
    step_named = kw.get("field_type") == "Step" or fdsc.get("type") == "Step"
    if "exactSolution" not in kw and not step_named:   # documented default: x exp(-2x) sin(endpoint - x) on the nodes (of the geometry's grid)
        gd = [dx * (i + 1) for i in range(N)]
        want_u = [g_ * math.exp(-2 * g_) * math.sin(ep - g_) for g_ in gd]
        if not rclose(u0, want_u):
            cases.append(verdict_case(spec, cell, "default exactSolution %s is not x exp(-2x) sin(endpoint-x) on the nodes: %s" % (u0, want_u), "Heat1D|exactSolution-default"))
        for i_, g_ in enumerate(gd):
            e_, tac_ = encl("(heat_default_R %s %s)" % (cr(Fraction(ep)), cr(g_)), u0[i_])
            cases.append(Case(expr=e_, tac=tac_, kind="ENCLOSURE", meta=dict(spec, obs="default-exactSolution", entry=i_), cell=cell + "/default-exactSolution"))
    if "exactSolution" in kw:        # a supplied exact solution (also an all-zero one) is the one the problem is built on
        if not np.array_equal(np.asarray(u0), np.asarray(kw["exactSolution"], dtype=float)):
            cases.append(verdict_case(spec, cell, "Heat1D(exactSolution=%s): problem.exactSolution = %s -- the supplied array was replaced" % (kw["exactSolution"], u0), "Heat1D|exactSolution-argument"))
        u0 = [float(v) for v in kw["exactSolution"]]
    if "observation_grid_map" in kw:
        g_ = np.array([dx * (i + 1) for i in range(N)])
        idx_ = [int(np.argmin(abs(g_ - s_))) for s_ in OBSMAPS[kw["observation_grid_map"]](g_)]
        fn = "check_heat_sel"
        tail_ = "%s %s" % (clist([cnat(i_) for i_ in idx_]), cqcvec(y))
    else:
        fn, tail_ = "check_heat", cqcvec(y)
    cases.append(Case(expr="%s tol9 %s %s %s %s %s %s" % (fn, cnat(N), cqc(Fraction(ep)), cqc(Fraction(T) if spec.get("scale") else Fraction(T).limit_denominator(1000)), cnat(nsteps), cqcvec(u0), tail_),
                      meta=dict(spec, obs="solution"), cell=cell + "/solution", kind="EXACT"))
    gridref = [dx * (i + 1) for i in range(N)]
    if not rclose(np.asarray(tp.model.domain_geometry.grid, dtype=float), gridref) or nsteps != steps:
        cases.append(verdict_case(spec, cell, "Heat1D grid %s / %d time steps, documented nodes %s / %d steps" % (tp.model.domain_geometry.grid, nsteps, gridref, steps), "Heat1D|grid"))
    if not rclose(y, u, 1e-8):
        cases.append(verdict_case(spec, cell, "exactData %s is not the forward-Euler solution of the heat equation at max_time: %s" % (y, u.tolist()), "Heat1D|exactData"))
    if spec.get("x") is not None and spec.get("_mx_ref") is None and identity_field(kw) and "observation_grid_map" not in kw:
        spec = dict(spec, _mx_ref=[float(v) for v in heat_ref(N, ep, T, [float(v) for v in spec["x"]])])
    cases += common_cases(spec, tp, d, cell, ("snr", float(kw.get("SNR", 200))),
                          "Noise type: Additive i.i.d. noise with mean zero and signal to noise ratio: %s" % kw.get("SNR", 200))
    return cases


# ------------------------------------------------------------------------------------------------
# field_type x map x field_params lattice of Poisson1D / Heat1D / Abel1D
# ------------------------------------------------------------------------------------------------
def heat_ref(N, ep, T, u0):
    dx = ep / (N + 1)
    steps = int(T / (5 / 11 * dx ** 2))
    dt = T / steps if steps else 0.0
    Dxx = (np.diag(-2 * np.ones(N)) + np.diag(np.ones(N - 1), -1) + np.diag(np.ones(N - 1), 1)) / dx ** 2
    u = np.array(u0, dtype=float)
    for _ in range(steps):
        u = u + dt * (Dxx @ u)
    return u


def poisson_ref(n, ep, kappa, srcname):
    N = n - 1
    dx = ep / N
    grid = np.array([dx + i * (ep - dx) / N for i in range(N)])
    Dx = np.zeros((N + 1, N)); Dx[0, 0] = 1
    for r in range(1, N + 1):
        Dx[r, r - 1] = -1
        if r < N:
            Dx[r, r] = 1
    Dx /= dx
    return np.linalg.solve(Dx.T @ np.diag(kappa) @ Dx, SOURCES[srcname](grid))


def abel_ref(n, ep):
    h = ep / n
    return np.array([[(h / math.sqrt((i - j + 0.5) * h)) if j <= i else 0.0 for j in range(n)] for i in range(n)])


def field_base_key(fd):
    ft = fd.get("type")
    return "cont" if ft is None else (ft[5:] if ft.startswith("inst:") else ft)


def field_forward_ref(spec, p):
    """function values map(par2fun(p)) from an independently built geometry, and the documented solution map applied to them"""
    import cuqi
    tpk, kw = spec["tp"], spec["kw"]
    fd = kw["field"]
    g = mk_field_geometry(cuqi, field_base_key(fd), field_grid(tpk, kw), fd.get("params"))
    f = np.asarray(g.par2fun(np.array(p, dtype=float)), dtype=float)
    if fd.get("map"):
        f = MAPS[fd["map"]][0](f)
    n, ep = kw["dim"], kw.get("endpoint", 1)
    if tpk == "heat":
        return f, heat_ref(n, ep, kw.get("max_time", 0.2), f), g.par_dim
    if tpk == "poisson":
        # any sign of the conductivity is accepted as long as the discrete operator is well conditioned (the check is a residual)
        N_ = n - 1
        Dx_ = np.zeros((N_ + 1, N_)); Dx_[0, 0] = 1
        for r_ in range(1, N_ + 1):
            Dx_[r_, r_ - 1] = -1
            if r_ < N_:
                Dx_[r_, r_] = 1
        A_ = Dx_.T @ np.diag(f) @ Dx_
        if not np.all(np.isfinite(A_)) or np.linalg.cond(A_) > 1e5:
            return f, None, g.par_dim
        return f, poisson_ref(n, ep, f, kw.get("source", "one")), g.par_dim
    return f, abel_ref(n, ep) @ f, g.par_dim


def field_cases(spec, cell):
    import cuqi
    tpk, kw = spec["tp"], spec["kw"]
    fd = kw["field"]
    p = [float(v) for v in spec["x"]]
    f_ref, y_ref, pdim = field_forward_ref(spec, p)
    base_spec = dict(spec)
    if y_ref is None:
        base_spec.pop("x", None)
    else:
        base_spec["_mx_ref"] = [float(v) for v in y_ref]
    tp, d, err = construct(spec)
    if tp is None:
        # every combination of the lattice is documented: a refusal is a defect of the constructor
        sig = SIG_HS if (tpk == "heat" and fd.get("type") == "Step" and fd.get("map") and "n_steps" in err) else "%s|field_type-map-refused" % tpk
        return [Case(expr="false || %s" % cbool(sig == SIG_HS and not probe_state().get("heatstep_fixed", False)), meta=spec_clean(dict(spec, obs="constructed")),
                     cell=cell + "/refused", kind="DECISION", trivial=True),
                verdict_case(spec_clean(dict(spec, obs="constructed")), cell,
                             "%s(field_type=%r, map given%s) cannot be constructed: %s" % ({"heat": "Heat1D", "poisson": "Poisson1D", "abel": "Abel1D"}[tpk], fd.get("type"),
                                                                                      "" if "exactSolution" in kw else ", default exact solution", err), sig)]
    cases = {"heat": heat_cases, "poisson": poisson_cases, "abel": abel_cases}[tpk](base_spec, cell)
    tp, d, err = construct(spec)
    objs = dict(FIELD_OBJS)
    g = tp.model.domain_geometry
    mapped = type(g).__name__ == "MappedGeometry"
    base = g.geometry if mapped else g
    cname, ccode, ccoq = GCLASS[field_base_key(fd)]
    obs_code = {v[0]: v[1] for v in GCLASS.values()}.get(type(base).__name__, 99)
    same_obj = ("instance" not in objs) or (base is objs["instance"])
    map_ok = (not fd.get("map")) or (mapped and g.map is objs.get("map"))
    imap_ok = (not fd.get("map")) or (mapped and ((g.imap is objs["imap"]) if "imap" in objs else (g.imap is None)))
    ft = fd.get("type")
    fcoq = "FNone" if ft is None else ("(FInstance %s)" % ccoq if ft.startswith("inst:") else "(FName %s)" % ccoq)
    cases.append(Case(expr="check_domain_geometry %s %s %s %s %s %s %s" % (fcoq, cbool(bool(fd.get("map"))), cbool(mapped), cnat(obs_code), cbool(same_obj), cbool(map_ok), cbool(imap_ok)),
                      meta=dict(spec, obs="domain-geometry"), cell=cell + "/domain-geometry", kind="DECISION"))
    want = "MappedGeometry(%s)" % cname if fd.get("map") else cname
    got = ("MappedGeometry(%s)" % type(base).__name__) if mapped else type(base).__name__
    if got != want or not (same_obj and map_ok and imap_ok) or tp.model.domain_dim != pdim:
        cases.append(verdict_case(dict(spec, obs="domain-geometry"), cell + "/domain-geometry",
                                  "%s(field_type=%s, map=%s): model.domain_geometry is %s (par_dim %d), documented: %s (par_dim %d)%s" % (
                                      type(tp).__name__, ft, fd.get("map"), got, tp.model.domain_dim, want, pdim,
                                      "" if same_obj and map_ok and imap_ok else "; the geometry/map/imap objects handed on are not the ones supplied"),
                                  "%s|field_type-map-dispatch" % tpk))
    # forward(p) = documented solution map applied to map(par2fun(p))
    if tp.model.domain_dim == len(p):
        with warnings.catch_warnings():
            warnings.simplefilter("ignore")
            fwd = fl(tp.model.forward(np.array(p)))
        n, ep = kw["dim"], kw.get("endpoint", 1)
        fexpr = None
        if tpk == "heat":
            nsteps = len(tp.model.pde.time_steps) - 1
            fexpr = "check_heat tol9 %s %s %s %s %s %s" % (cnat(n), cqc(Fraction(ep)), cqc(Fraction(kw.get("max_time", 0.2)).limit_denominator(1000)), cnat(nsteps), cqcvec(fl(f_ref)), cqcvec(fwd))
        elif tpk == "poisson" and y_ref is not None:
            srcn = {"one": "SrcOne", "lin": "SrcLin", "quad": "SrcQuad", "zero": "SrcZero"}[kw.get("source", "one")]
            fexpr = "check_poisson_full tol6 %s %s %s %s %s" % (srcn, cnat(n - 1), cqc(Fraction(ep)), cqcvec(fl(f_ref)), cqcvec(fwd))
        elif tpk == "abel":
            fexpr = "check_abel_forward tol9 %s %s %s %s %s" % (cnat(n), cqc(Fraction(ep)), cqcmat(fl2(dense(tp.model._matrix) if getattr(tp.model, "_matrix", None) is not None else dense(tp.model.get_matrix()))), cqcvec(fl(f_ref)), cqcvec(fwd))
        if fexpr:
            cases.append(Case(expr=fexpr, meta=dict(spec, obs="forward"), cell=cell + "/forward", kind="EXACT"))
        if y_ref is not None and not rclose(fwd, y_ref, 1e-7):
            cases.append(verdict_case(dict(spec, obs="forward"), cell + "/forward",
                                      "%s(field_type=%s, map=%s).model.forward(%s) = %s but the documented solution map applied to map(par2fun(p)) = %s gives %s" % (
                                          type(tp).__name__, ft, fd.get("map"), p, fwd, fl(f_ref), fl(y_ref)), "%s|forward-through-geometry" % tpk))
    for c in cases:
        c.meta = spec_clean(c.meta); c.key = ""; c.__post_init__()
    return cases


# ------------------------------------------------------------------------------------------------
# WangCubic
# ------------------------------------------------------------------------------------------------
def cubic_cases(spec, cell):
    kw = spec["kw"]
    tp, d, err = construct(spec)
    if tp is None:
        raise RuntimeError("WangCubic refused: %s" % err)
    x0, x1 = [float(v) for v in spec["x"]]
    f = float(np.asarray(tp.model.forward(np.array([x0, x1]))).ravel()[0])
    J = fl(tp.model.gradient(np.array([1.0]), np.array([x0, x1])))
    cases = [Case(expr="check_cubic %s %s %s %s %s" % (cqc(x0), cqc(x1), cqc(f), cqc(J[0]), cqc(J[1])), meta=dict(spec, obs="forward"),
                  cell=cell + "/forward", kind="EXACT")]
    X0, X1 = Fraction(x0), Fraction(x1)
    wf = 10 * X1 - 10 * X0 ** 3 + 5 * X0 ** 2 + 6 * X0
    h = Fraction(1, 2 ** 20)
    fd = ((10 * X1 - 10 * (X0 + h) ** 3 + 5 * (X0 + h) ** 2 + 6 * (X0 + h)) - (10 * X1 - 10 * (X0 - h) ** 3 + 5 * (X0 - h) ** 2 + 6 * (X0 - h))) / (2 * h)
    if frac(f) != wf or abs(frac(J[0]) - fd) > Fraction(1, 10 ** 6) or J[1] != 10:
        cases.append(verdict_case(spec, cell, "forward/Jacobian at (%r,%r): %r, %r; documented cubic %s, central difference %s" % (x0, x1, f, J, float(wf), float(fd)), "WangCubic|forward"))
    data = kw.get("data", 1)       # the documented default applies ONLY when the argument is omitted
    od, ol = float(np.asarray(tp.data).ravel()[0]), float(np.asarray(tp.likelihood.data).ravel()[0])
    ocov = float(np.asarray(tp.likelihood.distribution.cov).ravel()[0])
    args = "(mkCubicArgs %s %s)" % (copt(kw.get("noise_std"), cqc), copt(kw.get("data"), lambda v: cqc(float(v))))
    cases.append(Case(expr="check_cubic_args %s %s %s %s" % (args, cqc(od), cqc(ol), cqc(ocov)), meta=dict(spec, obs="arguments"),
                      cell=cell + "/arguments", kind="EXACT"))
    if od != float(data) or ol != float(data) or tp.exactSolution is not None or tp.exactData is not None:
        cases.append(verdict_case(dict(spec, obs="arguments"), cell + "/arguments",
                                  "WangCubic(data=%r): problem.data = %r, likelihood.data = %r -- the supplied observation is %r (the default 1 applies only when data is omitted)"
                                  % (kw.get("data", "<omitted>"), tp.data, tp.likelihood.data, data), "WangCubic|data"))
    spec = dict(spec, _mx_ref=[float(wf)])
    cases += common_cases(spec, tp, d, cell, ("given", float(kw.get("noise_std", 1)), float(data)),
                          "Noise type: Additive Gaussian with std: {}".format(kw.get("noise_std", 1)))
    cases += reassign_cases(spec, tp, d, cell, ("given", float(kw.get("noise_std", 1)), float(data)),
                            "Noise type: Additive Gaussian with std: {}".format(kw.get("noise_std", 1)))
    return cases


# ------------------------------------------------------------------------------------------------
# string phantoms (_getExactSolution) as formulas
# ------------------------------------------------------------------------------------------------
def py_round(q):
    q = Fraction(q); f = q.numerator // q.denominator; d = q - f
    return f if d < Fraction(1, 2) else f + 1 if d > Fraction(1, 2) else (f if f % 2 == 0 else f + 1)


PC = ([Fraction(1, 10), Fraction(15, 100), Fraction(2, 10), Fraction(25, 100), Fraction(3, 10), Fraction(6, 10)], [0, 2, 3, 2, 0, 1, 0])
SKY = ([Fraction(k, 100) for k in (10, 15, 20, 25, 35, 38, 45, 55, 75, 80)], [0, 1.5, 0, 1.3, 0, 0.75, 0, 0.25, 0, 1, 0])


# the break points as the binary64 literals the documentation/code state them with
PCF = ([0.1, 0.15, 0.2, 0.25, 0.3, 0.6], [0, 2, 3, 2, 0, 1, 0])
SKYF = ([0.10, 0.15, 0.20, 0.25, 0.35, 0.38, 0.45, 0.55, 0.75, 0.8], [0, 1.5, 0, 1.3, 0, 0.75, 0, 0.25, 0, 1, 0])


def pw_safe(breaks, dim):
    return all(abs((Fraction(i, dim - 1) if dim > 1 else Fraction(0)) - b) > Fraction(1, 2 ** 40) for i in range(dim) for b in breaks)


def doc_phantom(kind, dim, param):
    """the documented phantoms, plain Python"""
    t = [(-1 + 2 * i / (dim - 1)) if dim > 1 else -1.0 for i in range(dim)]
    if kind == "gauss":
        p = 5 if param is None else param
        return [math.exp(-(p * tt) ** 2) for tt in t]
    if kind == "sinc":
        p = 5 if param is None else param
        return [1.0 if p * tt == 0 else math.sin(math.pi * p * tt) / (math.pi * p * tt) for tt in t]
    if kind == "vonmises":
        p = 5 if param is None else param
        v = [math.exp(math.cos(math.pi * tt)) for tt in t]
        return [(a / max(v)) ** p for a in v]
    if kind == "bumps":
        h = math.pi / dim
        return [math.exp(-12 * (-math.pi / 2 + (i + 0.5) * h - 0.8) ** 2) + 0.5 * math.exp(-5 * (-math.pi / 2 + (i + 0.5) * h + 0.5) ** 2) for i in range(dim)]
    if kind == "derivgauss":
        p = 5 if param is None else param
        g = [math.exp(-(p * (-1 + 2 * i / dim)) ** 2) for i in range(dim + 1)]
        dd_ = [g[i + 1] - g[i] for i in range(dim)]
        return [a / max(dd_) for a in dd_]
    if kind in ("square", "hat"):
        p = 15 if param is None else param
        dimh, w = py_round(Fraction(dim, 2)), py_round(Fraction(dim) / Fraction(p))
        x = [0.0] * dim
        if kind == "square":
            for i in range(max(dimh - w, 0), min(dimh + w, dim)):
                x[i] = 1.0
            return x
        if w == 0:
            return None
        for k_ in range(w + 1):
            x[dimh - w - 1 + k_] = k_ / w
        for k_ in range(w + 1):
            x[dimh - 1 + k_] = (w - k_) / w
        return x
    if kind in ("pc", "skyscraper"):
        br, vals = PCF if kind == "pc" else SKYF
        return [float(vals[sum(1 for b in br if b <= xx)]) for xx in [float(v) for v in np.linspace(0, 1, dim)]]
    raise ValueError(kind)


def phantom_cases(kind, dim, param):
    spec = {"tp": "phantom", "kind": kind, "dim": dim, "param": param}
    cell = "phantom/" + kind
    kw = {"dim": dim, "PSF": [1.0], "BC": "zero", "phantom": kind, "noise_std": 0.5}
    if param is not None:
        kw["phantom_param"] = param
    with np.errstate(all="ignore"):
        tp, d, err = construct({"tp": "deconv1d", "kw": kw, "z": [0.0] * dim})
    if tp is None:
        raise RuntimeError("phantom %s refused: %s" % (kind, err))
    x = np.asarray(tp.exactSolution, dtype=float)
    obs = None if not np.all(np.isfinite(x)) else fl(x)
    doc = doc_phantom(kind, dim, param)
    cases = []
    detail = None
    if (obs is None) != (doc is None) or (obs is not None and not close(obs, doc)):
        detail = "phantom %s (dim %d, param %r) = %s, documented function sampled on the mesh: %s" % (kind, dim, param, obs, doc)
    p = param
    if kind in ("square", "hat"):
        p = 15 if param is None else param
        mod = "(Some (phantom_square %s %s))" % (cnat(dim), cq(Fraction(p))) if kind == "square" else "(phantom_hat %s %s)" % (cnat(dim), cq(Fraction(p)))
        cases.append(Case(expr="check_phantom tol9 %s %s" % (mod, copt(obs, cqcvec)), meta=spec, cell=cell, kind="EXACT"))
    elif kind in ("pc", "skyscraper"):
        br, vals = PCF if kind == "pc" else SKYF
        mesh = [float(v) for v in np.linspace(0, 1, dim)]          # numpy's linspace is an oracle, its values enter exactly
        cases.append(Case(expr="check_phantom tol9 (Some (phantom_pw_f %s %s %s)) %s" % (clist([cq(b) for b in br]), clist([cq(v) for v in vals]), clist([cq(m_) for m_ in mesh]), copt(obs, cqcvec)),
                          meta=spec, cell=cell, kind="EXACT"))
    else:
        p = 5 if param is None else param
        T = [Fraction(-1) + Fraction(2 * i, dim - 1) if dim > 1 else Fraction(-1) for i in range(dim)]
        if kind == "vonmises":
            tm = min(T, key=abs)
        if kind == "derivgauss":
            T1 = [Fraction(-1) + Fraction(2 * i, dim) for i in range(dim + 1)]
            g = [math.exp(-(p * float(tt)) ** 2) for tt in T1]
            j = max(range(dim), key=lambda i: g[i + 1] - g[i])
        for i in range(dim):
            if kind == "gauss":
                mod = "(ph_gauss_R %s %s)" % (cr(p), cr(T[i]))
            elif kind == "sinc":
                mod = "(IZR 1)" if p * T[i] == 0 else "(ph_sinc_R %s %s)" % (cr(p), cr(T[i]))
            elif kind == "vonmises":
                mod = "(ph_vonmises_R %s %s %s)" % (cr(p), cr(T[i]), cr(tm))
                e, tac = encl(mod, obs[i])
                # the maximum point is computed by the model (vonmises_tm) and must equal the value used in the enclosure
                cases.append(Case(expr="(Qeq_bool (vonmises_tm %s) %s = true) /\\ %s" % (cnat(dim), cq(tm), e), tac="c17_both.", kind="ENCLOSURE",
                                  meta=dict(spec, entry=i), cell=cell))
                continue
            elif kind == "bumps":
                mod = "(ph_bumps_R %s %s)" % (cr(dim), cr(Fraction(2 * i + 1, 2)))
            else:
                mod = "(ph_dgauss_R %s %s %s %s %s)" % (cr(p), cr(T1[i]), cr(T1[i + 1]), cr(T1[j]), cr(T1[j + 1]))
            e, tac = encl(mod, obs[i])
            cases.append(Case(expr=e, tac=tac, kind="ENCLOSURE", meta=dict(spec, entry=i), cell=cell))
    if kind == "derivgauss":
        # the index of the maximal increment is a certificate: every increment is enclosed below the chosen one
        for k_ in range(dim):
            if k_ != j:
                cases.append(Case(expr="(dgauss_inc_R %s %s %s <= dgauss_inc_R %s %s %s + IZR 1 / IZR 1000000000000)%%R" % (cr(p), cr(T1[k_]), cr(T1[k_ + 1]), cr(p), cr(T1[j]), cr(T1[j + 1])),
                                  tac="c17_encl.", kind="ENCLOSURE", meta=dict(spec, entry="max-%d" % k_), cell=cell + "/max-certificate"))
    if detail:
        cases.append(verdict_case(spec, cell, detail, "_getExactSolution|%s" % kind))
    return cases


# ------------------------------------------------------------------------------------------------
# generator: the option lattice (cells are fixed; the seed only picks values inside cells)
# ------------------------------------------------------------------------------------------------
DISPATCH = {}


def zvec(rng, n, k):
    kind = ("zero", "unit", "dyadic")[k % 3]
    if kind == "zero":
        return [0.0] * n
    if kind == "unit":
        j = rng.randrange(n)
        return [1.0 if i == j else 0.0 for i in range(n)]
    return [rng.randint(-16, 16) / 8 for _ in range(n)]


def dyvec(rng, n, lo=-8, hi=8, den=4):
    return [rng.randint(lo, hi) / den for _ in range(n)]


def ivec(rng, n, lo=-4, hi=4):
    return [rng.randint(lo, hi) for _ in range(n)]


def specs(ctx):
    """yield (spec, cell, handler-name)"""
    rng = ctx.rng
    out = []
    k = 0
    STD = [0.5, 0.25, 2.0, 0.0625]
    # ---------------- Deconvolution1D, convolve1d form ----------------
    def psf1(kind, n):
        if kind == "sym3":
            a, b = rng.randint(1, 4), rng.randint(1, 4); return {"PSF": [a, b, a]}
        if kind == "asym3":
            a = rng.randint(1, 3); return {"PSF": [a, rng.randint(1, 4), a + rng.randint(1, 3)]}
        if kind == "asym5":
            v = ivec(rng, 5, -3, 4); v[0] = v[4] + 1; return {"PSF": v}
        if kind == "sym5":
            a, b, c = rng.randint(-2, 3), rng.randint(1, 3), rng.randint(1, 4); return {"PSF": [a, b, c, b, a]}
        if kind == "even2":
            return {"PSF": [rng.randint(1, 4), rng.randint(1, 4)]}
        if kind == "even4":
            return {"PSF": [rng.randint(1, 3) for _ in range(4)]}
        if kind == "long":
            v = ivec(rng, n + 2 + rng.randint(0, 3), -2, 3); v[0] = v[-1] + 1; return {"PSF": v}
        if kind == "len1":
            return {"PSF": [rng.randint(2, 5)]}
        if kind in ("gauss", "moffat", "defocus"):
            return {"PSF": rng.choice([kind, kind.capitalize()]), "PSF_size": rng.choice([3, 5]) if k % 2 else rng.choice([2, 4, 6]),
                    "PSF_param": rng.choice([0.5, 1, 2, 1.5])}
        if kind == "gauss-default-size":
            return {"PSF": "gauss", "PSF_param": rng.choice([1, 2])}
        if kind == "defocus0":
            return {"PSF": "defocus", "PSF_size": rng.choice([3, 4]), "PSF_param": 0}
        raise ValueError(kind)
    kinds1 = ["sym3", "asym3", "asym5", "sym5", "even2", "even4", "long", "len1", "gauss", "moffat", "defocus", "gauss-default-size", "defocus0"]
    for bc in ["zero", "periodic", "nearest", "reflect", "mirror"]:
        for kind in kinds1:
            dims = [5, 6, rng.randint(1, 7)] if ctx.thorough or kind in ("asym3", "even2", "long", "defocus") else [rng.choice([5, 6]), rng.randint(1, 4)]
            for n in dims:
                k += 1
                kw = {"dim": n, "BC": rng.choice([bc, bc.capitalize(), bc.upper()])}
                kw.update(psf1(kind, n))
                custom = not isinstance(kw["PSF"], str)
                scaled = custom and min(kw["PSF"]) > 0 and k % 2 == 0
                kw["phantom"] = [rng.randint(1, 5) for _ in range(n)] if scaled or (custom and k % 5) else (
                    ivec(rng, n) if k % 3 else rng.choice(["sinc", "gauss", "square", "hat", "bumps", "pc", "skyscraper", "vonmises", "derivgauss"]))
                if isinstance(kw["phantom"], str) and n < 2:
                    kw["phantom"] = ivec(rng, n)     # derivGauss at dim 1 is 0/0
                if isinstance(kw["phantom"], str) and kw["phantom"] in ("square", "hat"):
                    if n < 4 or (kw["phantom"] == "hat" and n < 6):
                        kw["phantom"] = ivec(rng, n)
                    else:
                        kw["phantom_param"] = 3      # the default 15 gives a zero-width (0/0) hat below dim 8
                kw["noise_std"] = STD[k % 4]
                if scaled:
                    kw["noise_type"] = rng.choice(["scaledgaussian", "scaledGaussian"])
                elif k % 4 == 1:
                    kw["noise_type"] = "Gaussian"
                if k % 7 == 3:
                    kw["prior"] = {"mean": dyvec(rng, n), "cov": rng.choice([0.25, 4.0, 1.0])}
                out.append(({"tp": "deconv1d", "kw": kw, "z": zvec(rng, n, k), "x": dyvec(rng, n)},
                            "Deconvolution1D/%s/%s" % (bc, kind), "deconv1d"))
    # scale sweep (relative comparisons) and declaration styles
    for e_ in [-30, -12, 9, 24]:
        for bc in (["zero", "periodic", "nearest", "reflect", "mirror"] if ctx.thorough else [rng.choice(["zero", "nearest"]), rng.choice(["periodic", "reflect", "mirror"])]):
            k += 1
            n = rng.choice([4, 5, 6])
            sc = 2.0 ** e_
            P = [sc * v for v in psf1("asym3", n)["PSF"]]
            kw = {"dim": n, "BC": bc, "PSF": P, "phantom": [rng.randint(1, 5) * (2.0 ** rng.choice([0, e_])) for _ in range(n)],
                  "noise_std": sc * rng.choice([0.5, 2.0]) * (2.0 ** rng.choice([0, e_]))}
            out.append(({"tp": "deconv1d", "kw": kw, "scale": True, "z": zvec(rng, n, k), "x": dyvec(rng, n)}, "Deconvolution1D/scale/2^%d" % e_, "deconv1d"))
    for sty in [{"PSF": "int"}, {"phantom": "int"}, {"PSF": "int", "phantom": "int"}, {"phantom": "cuqiarray"}, {"phantom": "view"}, {"PSF": "view"},
                {"dim": "np"}, {"noise_std": "np"}]:
        k += 1
        n = rng.choice([5, 6])
        bc = rng.choice(["zero", "periodic", "nearest", "reflect", "mirror"])
        kw = {"dim": n, "BC": bc, "phantom": ivec(rng, n), "noise_std": STD[k % 4]}
        kw.update(psf1(rng.choice(["asym3", "even2", "asym5"]), n))
        out.append(({"tp": "deconv1d", "kw": kw, "style": sty, "z": zvec(rng, n, k), "x": dyvec(rng, n)},
                    "Deconvolution1D/style/%s" % "+".join("%s=%s" % kv for kv in sorted(sty.items())), "deconv1d"))
    # falsy-but-legitimate argument values next to None/default: a supplied 0 / 0.0 / all-zero array stays what was supplied
    for nm, kwf, sty in [("phantom-zeros", {"PSF": [1, 2, 3], "phantom": [0] * 5}, {}), ("phantom-zeros-int", {"PSF": [1, 2, 3], "phantom": [0] * 5}, {"phantom": "int"}),
                         ("phantom-leading-zero", {"PSF": [1, 2, 3], "phantom": [0, 3, 0, -1, 0]}, {}), ("PSF-zeros", {"PSF": [0, 0, 0], "phantom": [1, 2, 3, 4, 5]}, {}),
                         ("PSF-leading-zero", {"PSF": [0, 2, 1], "phantom": [1, 2, 3, 4, 5]}, {}), ("PSF_param-0.0", {"PSF": "defocus", "PSF_size": 3, "PSF_param": 0.0, "phantom": [1, 2, 3, 4, 5]}, {}),
                         ("PSF_param-0", {"PSF": "Defocus", "PSF_size": 4, "PSF_param": 0, "phantom": [1, 2, 3, 4, 5]}, {}),
                         ("prior-zero-mean", {"PSF": [1, 2, 3], "phantom": [1, 0, 2, 0, 1], "prior": {"mean": [0.0] * 5, "cov": 0.25}}, {}),
                         ("use_legacy-False", {"PSF": [1, 2, 3], "phantom": [1, 0, 2, 0, 1], "use_legacy": False}, {})]:
        k += 1
        kw = dict({"dim": 5, "BC": rng.choice(["zero", "periodic", "nearest", "reflect", "mirror"]), "noise_std": STD[k % 4]}, **kwf)
        out.append(({"tp": "deconv1d", "kw": kw, "style": sty, "z": zvec(rng, 5, k), "x": dyvec(rng, 5)}, "Deconvolution1D/falsy/" + nm, "deconv1d"))
    # options that must survive every branch of a type dispatch: prior x (legacy | array PSF | named PSF) x noise_type; array PSF with (ignored) PSF_param/PSF_size
    for nm, kwf, h in [("legacy+prior", {"use_legacy": True, "PSF": [1, 3, 2, 5, 1, 2], "prior": {"mean": dyvec(rng, 6), "cov": 0.25}}, "legacy"),
                       ("legacy-builtin+prior+scaled", {"use_legacy": True, "PSF": "gauss", "PSF_param": 3, "prior": {"mean": dyvec(rng, 6), "cov": 4.0}, "noise_type": "scaledGaussian"}, "legacy"),
                       ("array-PSF+prior+scaled", {"PSF": [1, 2, 3], "BC": "zero", "prior": {"mean": dyvec(rng, 6), "cov": 0.25}, "noise_type": "scaledgaussian"}, "deconv1d"),
                       ("named-PSF+prior", {"PSF": "moffat", "PSF_size": 3, "PSF_param": 1.5, "BC": "mirror", "prior": {"mean": dyvec(rng, 6), "cov": 4.0}}, "deconv1d"),
                       ("array-PSF+PSF_param+PSF_size", {"PSF": [3, 1, 2], "PSF_param": 3, "PSF_size": 5, "BC": "nearest"}, "deconv1d")]:
        k += 1
        kw = dict({"dim": 6, "phantom": [rng.randint(1, 5) for _ in range(6)], "noise_std": STD[k % 4]}, **kwf)
        out.append(({"tp": "deconv1d", "kw": kw, "z": zvec(rng, 6, k), "x": dyvec(rng, 6)}, "Deconvolution1D/dispatch/" + nm, h))
    for bc in ["zero", "mirror"]:
        k += 1
        out.append(({"tp": "deconv1d", "kw": {"dim": 5, "BC": bc, "PSF": [1, 2, 3], "phantom": [rng.randint(1, 5) for _ in range(5)], "noise_std": 0.5},
                     "reassign": {"mean": dyvec(rng, 5), "cov": rng.choice([0.25, 4.0])}, "z": zvec(rng, 5, k), "x": dyvec(rng, 5)}, "Deconvolution1D/reassign-prior", "deconv1d"))
    out.append(({"tp": "deconv1d", "kw": {"dim": 6}, "z": zvec(rng, 6, 2), "x": dyvec(rng, 6)}, "Deconvolution1D/all-defaults", "deconv1d"))
    out.append(({"tp": "deconv1d", "kw": {"dim": 6, "use_legacy": True}, "z": zvec(rng, 6, 2), "x": dyvec(rng, 6)}, "Deconvolution1D/legacy/all-defaults", "legacy"))
    for kind in ["gauss", "sinc", "vonMises"]:
        for zero in [0, 0.0]:
            k += 1
            out.append(({"tp": "deconv1d", "kw": {"dim": 6, "PSF": kind, "PSF_param": zero, "use_legacy": True, "phantom": ivec(rng, 6), "noise_std": STD[k % 4]},
                         "z": zvec(rng, 6, k), "x": dyvec(rng, 6)}, "Deconvolution1D/falsy/legacy-PSF_param-0", "legacy"))
    for zero, nt in [(0, "gaussian"), (0.0, "gaussian"), (0.0, "scaledgaussian")]:
        out.append(({"tp": "deconv1d", "kw": {"dim": 5, "PSF": [1, 2, 3], "phantom": [1, 2, 3, 4, 5], "noise_std": zero, "noise_type": nt}, "z": [1.0, 0, 0, 0, 0]},
                    "Deconvolution1D/falsy/noise_std-0", "zero-noise"))
    # refusals
    for kw, refused in [({"dim": 6, "BC": "neumann"}, True), ({"dim": 6, "PSF": 7}, True), ({"dim": 6, "PSF": "sinc"}, True), ({"dim": 6, "PSF": [[1, 2], [3, 4]]}, True),
                        ({"dim": 6, "phantom": [1, 2, 3, 4, 5]}, True), ({"dim": 4, "phantom": [[1, 2], [3, 4]]}, True),
                        ({"dim": 6, "noise_type": "poisson"}, True), ({"dim": 6, "use_legacy": True, "BC": "zero"}, True),
                        ({"dim": 6, "use_legacy": True, "PSF_size": 3}, True), ({"dim": 6, "use_legacy": True, "PSF": "moffat"}, True),
                        ({"dim": 5, "use_legacy": True}, True), ({"dim": 6, "PSF": [1, 2, 1], "phantom": [1, 2, 3, 4, 5, 6]}, False)]:
        out.append(({"tp": "deconv1d", "kw": kw, "z": [0.0] * kw["dim"]}, "Deconvolution1D/refusals", "refusal:%d" % refused))
    # ---------------- legacy ----------------
    for n in [2, 4, 6, 8] + ([3, 5] if True else []):
        for kind in ["asym", "sym"]:
            k += 1
            P = ivec(rng, n, -3, 5)
            if kind == "sym":
                h = n // 2
                for m in range(1, h):
                    P[(h - m) % n] = P[(h + m) % n]
            elif n >= 4:
                P[n // 2 + 1] = P[n // 2 - 1] + 1
            kw = {"dim": n, "PSF": P, "use_legacy": True, "phantom": ivec(rng, n), "noise_std": STD[k % 4]}
            out.append(({"tp": "deconv1d", "kw": kw, "z": zvec(rng, n, k), "x": dyvec(rng, n)}, "Deconvolution1D/legacy/custom-%s" % kind, "legacy"))
    k += 1
    out.append(({"tp": "deconv1d", "kw": {"dim": 6, "PSF": [1, 2, 3, 4, 5], "use_legacy": True, "phantom": [0] * 6}, "z": [0.0] * 6}, "Deconvolution1D/legacy/custom-wrong-length", "legacy"))
    for kind in ["gauss", "sinc", "prolate", "vonMises"]:
        for n in ([4, 6, 8] if ctx.thorough else [rng.choice([4, 8]), 6]):
            for param in [None, rng.choice([2, 3, 4.5, 7])]:
                k += 1
                kw = {"dim": n, "PSF": kind, "use_legacy": True, "phantom": ivec(rng, n), "noise_std": STD[k % 4]}
                if param is not None:
                    kw["PSF_param"] = param
                if k % 3 == 0:
                    kw["noise_type"] = "scaledGaussian"; kw["phantom"] = [rng.randint(1, 4) for _ in range(n)]
                out.append(({"tp": "deconv1d", "kw": kw, "z": zvec(rng, n, k), "x": dyvec(rng, n)}, "Deconvolution1D/legacy/%s" % kind.lower(), "legacy"))
    # ---------------- Deconvolution2D ----------------
    def psf2(kind):
        if kind == "1x1": return [[rng.randint(2, 4)]]
        if kind == "2x2": return [[rng.randint(1, 4) for _ in range(2)] for _ in range(2)]
        if kind == "3x3asym":
            P = [[rng.randint(0, 3) for _ in range(3)] for _ in range(3)]; P[0][2] = P[2][0] + 1; P[1][1] = rng.randint(1, 4); return P
        if kind == "3x3sym":
            a, b, c = rng.randint(0, 2), rng.randint(1, 3), rng.randint(1, 4); return [[a, b, a], [b, c, b], [a, b, a]]
        if kind == "4x4": return [[rng.randint(0, 3) for _ in range(4)] for _ in range(4)]
        if kind == "5x5":
            P = [[rng.randint(-1, 2) for _ in range(5)] for _ in range(5)]; P[0][4] = P[4][0] + 1; return P
        if kind == "2x3": return [[rng.randint(1, 3) for _ in range(3)] for _ in range(2)]
        if kind == "3x1": return [[rng.randint(1, 3)] for _ in range(3)]
        raise ValueError(kind)
    for bc in ["zero", "periodic", "nearest", "neumann", "mirror"]:
        for kind in ["1x1", "2x2", "3x3asym", "3x3sym", "4x4", "5x5", "2x3", "3x1", "gauss", "moffat", "defocus", "defocus0"]:
            for n in ([2, 3, 4] if ctx.thorough else [rng.choice([3, 4]) if kind not in ("5x5",) else 3] + ([1] if bc == "periodic" and kind in ("3x3asym", "2x2") else [])):
                k += 1
                kw = {"dim": n, "BC": rng.choice([bc, bc.capitalize()])}
                if kind in ("gauss", "moffat", "defocus"):
                    kw.update({"PSF": rng.choice([kind, kind.capitalize()]), "PSF_size": rng.choice([3, 5]) if k % 2 else rng.choice([2, 4]), "PSF_param": rng.choice([1, 2, 1.5])})
                elif kind == "defocus0":
                    kw.update({"PSF": "defocus", "PSF_size": 3, "PSF_param": 0})
                else:
                    kw["PSF"] = psf2(kind)
                pos = not isinstance(kw["PSF"], str) and min(map(min, kw["PSF"])) > 0
                kw["phantom"] = [[rng.randint(1, 5) if pos else rng.randint(-4, 4) for _ in range(n)] for _ in range(n)]
                kw["noise_std"] = STD[k % 4]
                if pos and k % 2 == 0:
                    kw["noise_type"] = "scaledGaussian"
                if k % 6 == 1:
                    kw["prior"] = {"mean": dyvec(rng, n * n), "cov": rng.choice([0.25, 4.0])}
                out.append(({"tp": "deconv2d", "kw": kw, "img": [ivec(rng, n) for _ in range(n)], "z": zvec(rng, n * n, k), "x": dyvec(rng, n * n)},
                            "Deconvolution2D/%s/%s" % (bc, kind), "deconv2d"))
    for e_ in [-30, 12]:
        for bc in ["zero", "periodic", "nearest", "neumann", "mirror"]:
            k += 1
            n = 3
            sc = 2.0 ** e_
            P = [[sc * v for v in r] for r in psf2(rng.choice(["3x3asym", "2x2"]))]
            kw = {"dim": n, "BC": bc, "PSF": P, "phantom": [[rng.randint(-4, 4) for _ in range(n)] for _ in range(n)], "noise_std": sc * 0.5}
            out.append(({"tp": "deconv2d", "kw": kw, "scale": True, "img": [ivec(rng, n) for _ in range(n)], "z": zvec(rng, n * n, k), "x": dyvec(rng, n * n)},
                        "Deconvolution2D/scale/2^%d" % e_, "deconv2d"))
    for sty in [{"PSF": "int"}, {"PSF": "fortran"}, {"phantom": "view"}, {"phantom": "int", "PSF": "view"}]:
        k += 1
        n = 3
        kw = {"dim": n, "BC": rng.choice(["zero", "periodic", "nearest", "neumann", "mirror"]), "PSF": psf2(rng.choice(["3x3asym", "2x2", "4x4"])),
              "phantom": [[rng.randint(-4, 4) for _ in range(n)] for _ in range(n)], "noise_std": 0.5}
        out.append(({"tp": "deconv2d", "kw": kw, "style": sty, "img": [ivec(rng, n) for _ in range(n)], "z": zvec(rng, n * n, k), "x": dyvec(rng, n * n)},
                    "Deconvolution2D/style/%s" % "+".join("%s=%s" % kv for kv in sorted(sty.items())), "deconv2d"))
    for nm, kwf in [("phantom-zeros", {"PSF": [[1, 2], [3, 4]], "phantom": [[0] * 3] * 3}), ("PSF-zeros", {"PSF": [[0] * 3] * 3, "phantom": [[1, 2, 3], [0, 1, 0], [2, 0, 1]]}),
                    ("PSF_param-0", {"PSF": "defocus", "PSF_size": 3, "PSF_param": 0, "phantom": [[1, 2, 3], [0, 1, 0], [2, 0, 1]]}),
                    ("PSF_param-0.0", {"PSF": "Defocus", "PSF_size": 4, "PSF_param": 0.0, "phantom": [[1, 2, 3], [0, 1, 0], [2, 0, 1]]}),
                    ("all-defaults", {})]:
        k += 1
        kw = dict({"dim": 3}, **kwf)
        if kwf:
            kw.update({"BC": rng.choice(["zero", "periodic", "nearest", "neumann", "mirror"]), "noise_std": 0.5})
        out.append(({"tp": "deconv2d", "kw": kw, "img": [ivec(rng, 3) for _ in range(3)], "z": zvec(rng, 9, k), "x": dyvec(rng, 9)},
                    "Deconvolution2D/falsy/" + nm if kwf else "Deconvolution2D/all-defaults", "deconv2d"))
    for nm, kwf, sty in [("array-PSF+prior+scaled", {"PSF": [[1, 2, 1], [2, 3, 1], [1, 1, 2]], "prior": {"mean": dyvec(rng, 9), "cov": 0.25}, "noise_type": "scaledGaussian"}, {}),
                         ("named-PSF+prior", {"PSF": "moffat", "PSF_size": 3, "PSF_param": 1.5, "prior": {"mean": dyvec(rng, 9), "cov": 4.0}}, {}),
                         ("array-PSF+PSF_param+PSF_size", {"PSF": [[1, 2], [3, 4]], "PSF_param": 1.0, "PSF_size": 5}, {}),
                         ("phantom-as-vector", {"PSF": [[1, 2, 1], [2, 3, 1], [1, 1, 2]]}, {"phantom": "flat"})]:
        k += 1
        kw = dict({"dim": 3, "BC": rng.choice(["zero", "periodic", "nearest", "neumann", "mirror"]), "phantom": [[rng.randint(1, 5) for _ in range(3)] for _ in range(3)], "noise_std": 0.5}, **kwf)
        out.append(({"tp": "deconv2d", "kw": kw, "style": sty, "img": [ivec(rng, 3) for _ in range(3)], "z": zvec(rng, 9, k), "x": dyvec(rng, 9)},
                    "Deconvolution2D/dispatch/" + nm, "deconv2d"))
    # phantoms by name (lower-cased, hyphens -> underscores): the image of cuqi.data with that name, resized to dim
    for nm, ref in [("satellite", "satellite"), ("Shepp-Logan", "shepp_logan"), ("COOKIE", "cookie"), ("p-power", "p_power"), ("grains", "grains"), ("camera", "camera"),
                    ("astronaut", "astronaut"), ("cat", "cat")]:
        for n in [4, 5]:
            k += 1
            kw = {"dim": n, "PSF": psf2(rng.choice(["3x3asym", "2x2"])), "BC": rng.choice(["zero", "periodic", "nearest", "neumann", "mirror"]), "phantom": nm, "noise_std": 0.5}
            out.append(({"tp": "deconv2d", "kw": kw, "phantom_ref": ref, "img": [ivec(rng, n) for _ in range(n)], "z": zvec(rng, n * n, k), "x": dyvec(rng, n * n)},
                        "Deconvolution2D/phantom-name", "deconv2d"))
    out.append(({"tp": "deconv2d", "kw": {"dim": 3, "PSF": [[1, 2], [3, 4]], "phantom": [[1, 2, 3], [0, 1, 0], [2, 0, 1]], "noise_std": 0}, "z": [1.0] + [0.0] * 8},
                "Deconvolution2D/falsy/noise_std-0", "zero-noise"))
    for kw, refused in [({"dim": 3, "BC": "reflect"}, True), ({"dim": 3, "PSF": 3}, True), ({"dim": 3, "noise_type": "poisson", "PSF": [[1]], "phantom": [[1, 2, 3]] * 3}, True),
                        ({"dim": 3, "phantom": "no-such-phantom", "PSF": [[1]]}, True)]:
        out.append(({"tp": "deconv2d", "kw": kw, "z": [0.0] * 9}, "Deconvolution2D/refusals", "refusal:%d" % refused))
    # ---------------- Abel1D ----------------
    for n in [1, 2, 3, 4, 5, 6]:
        for ft in [None, "KL", "Step", "geom", "map"]:
            if n == 1 and ft is not None:
                continue
            if not ctx.thorough and ft is not None and n not in (4, 6):
                continue
            k += 1
            kw = {"dim": n, "endpoint": rng.choice([1, 2, 0.5]), "SNR": rng.choice([100, 50, 8])}
            xd = n
            if ft == "KL":
                kw["field_type"] = "KL"; kw["field_params"] = {"num_modes": n - 1}; xd = n - 1
            elif ft == "Step":
                kw["field_type"] = "Step"; kw["field_params"] = {"n_steps": 2}; xd = 2
            elif ft == "map":
                kw["fmap"] = "affine"
            out.append(({"tp": "abel", "kw": kw, "geom": ft == "geom", "z": zvec(rng, n, k), "x": dyvec(rng, xd, 1, 8)}, "Abel1D/%s" % (ft or "default"), "abel"))
    for e_ in [-20, -6, 10]:
        k += 1
        n = rng.choice([3, 4, 5])
        out.append(({"tp": "abel", "kw": {"dim": n, "endpoint": 2.0 ** e_, "SNR": rng.choice([100, 8])}, "scale": True, "z": zvec(rng, n, k), "x": dyvec(rng, n, 1, 8)},
                    "Abel1D/scale/2^%d" % e_, "abel"))
    out.append(({"tp": "abel", "kw": {"dim": 4, "field_params": {}}, "z": zvec(rng, 4, 2), "x": dyvec(rng, 4, 1, 8)}, "Abel1D/falsy/field_params-empty", "abel"))
    out.append(({"tp": "abel", "kw": {"dim": 4}, "z": zvec(rng, 4, 1), "x": dyvec(rng, 4, 1, 8)}, "Abel1D/all-defaults", "abel"))
    out.append(({"tp": "poisson", "kw": {"dim": 5, "source": "zero"}, "z": zvec(rng, 4, 2), "x": dyvec(rng, 5, 2, 8)}, "Poisson1D/falsy/source-zero", "poisson"))
    out.append(({"tp": "poisson", "kw": {"dim": 5, "source": "lin", "field_params": {}}, "z": zvec(rng, 4, 2), "x": dyvec(rng, 5, 2, 8)}, "Poisson1D/falsy/field_params-empty", "poisson"))
    out.append(({"tp": "poisson", "kw": {"dim": 7, "endpoint": 1, "source": "lin", "observation_grid_map": "upper"}, "z": zvec(rng, 3, 1), "x": dyvec(rng, 7, 2, 8)}, "Poisson1D/obsmap-upper", "poisson"))
    out.append(({"tp": "heat", "kw": {"dim": 6, "endpoint": 1, "observation_grid_map": "upper"}, "z": zvec(rng, 3, 1), "x": dyvec(rng, 6)}, "Heat1D/obsmap-upper", "heat"))
    for nm, kwf in [("exactSolution-zeros", {"exactSolution": [0.0] * 4}), ("exactSolution-with-zeros", {"exactSolution": [0.0, 1.0, 0.0, 2.0]}), ("max_time-0", {"max_time": 0}),
                    ("max_time-0.0", {"max_time": 0.0, "exactSolution": [1.0, 0.0, 2.0, 0.5]}), ("field_params-empty", {"field_params": {}}), ("all-defaults", {})]:
        k += 1
        out.append(({"tp": "heat", "kw": dict({"dim": 4}, **kwf), "z": zvec(rng, 4, k), "x": dyvec(rng, 4)}, "Heat1D/falsy/" + nm if kwf else "Heat1D/all-defaults", "heat"))
    # ---------------- Poisson1D ----------------
    for e_ in [-10, -3, 6]:
        k += 1
        n = rng.choice([4, 5])
        out.append(({"tp": "poisson", "kw": {"dim": n, "endpoint": 2.0 ** e_, "SNR": 200, "source": rng.choice(["one", "lin", "quad"]),
                                             "exactSolution": [rng.randint(2, 12) / 4 * 2.0 ** rng.choice([0, e_]) for _ in range(n)]},
                     "scale": True, "z": zvec(rng, n - 1, k), "x": dyvec(rng, n, 2, 8)}, "Poisson1D/scale/2^%d" % e_, "poisson"))
    for n in [3, 4, 5, 6]:
        for var in ["default", "source", "exact", "obsmap", "KL", "Step", "map"]:
            if not ctx.thorough and var not in ("default", "exact") and n not in (5,):
                continue
            if var == "obsmap" and n < 5:
                continue        # observing a sub-grid goes through a cubic spline: needs >= 4 solution nodes (C18's branch)
            k += 1
            kw = {"dim": n, "endpoint": rng.choice([1, 2]), "SNR": rng.choice([200, 40]), "source": rng.choice(["one", "lin", "quad"])}
            xd = n
            if var == "exact":
                kw["exactSolution"] = [rng.randint(2, 12) / 4 for _ in range(n)]
            elif var == "obsmap":
                kw["observation_grid_map"] = "every2"; kw["endpoint"] = 1
            elif var == "KL":
                kw["field_type"] = "KL"; kw["field_params"] = {"num_modes": n - 1}; kw["fmap"] = "exp"; xd = n - 1
            elif var == "Step":
                kw["field_type"] = "Step"; kw["field_params"] = {"n_steps": 2}; xd = 2
            elif var == "map":
                kw["fmap"] = "exp"
            nobs = n - 1 if var != "obsmap" else len(range(0, n - 1, 2))
            xv = dyvec(rng, xd, 2, 8) if var not in ("KL", "map") else dyvec(rng, xd, -2, 2)
            out.append(({"tp": "poisson", "kw": kw, "z": zvec(rng, nobs, k), "x": xv}, "Poisson1D/%s" % var, "poisson"))
    # ---------------- Heat1D ----------------
    for n in [3, 4, 5]:
        for var in ["default", "exact", "obsmap", "KL", "Step", "map", "time"]:
            if not ctx.thorough and var not in ("default", "exact") and n != 4:
                continue
            if var == "obsmap" and n < 4:
                continue        # sub-grid observation = spline interpolation in space and time: needs >= 4 nodes / time levels
            k += 1
            kw = {"dim": n, "endpoint": rng.choice([1, 2]), "SNR": rng.choice([200, 40])}
            xd = n
            if var == "exact":
                kw["exactSolution"] = dyvec(rng, n, 0, 8)
            elif var == "obsmap":
                kw["observation_grid_map"] = "every2"; kw["endpoint"] = 1
            elif var == "KL":
                kw["field_type"] = "KL"; kw["field_params"] = {"num_modes": n - 1}; xd = n - 1
            elif var == "Step":
                kw["field_type"] = "Step"; kw["field_params"] = {"n_steps": 2}; xd = 2
            elif var == "map":
                kw["fmap"] = "affine"
            elif var == "time":
                kw["max_time"] = rng.choice([0.05, 0.1]); kw["endpoint"] = 1      # keeps at least one time step
            nobs = n if var != "obsmap" else len(range(0, n, 2))
            out.append(({"tp": "heat", "kw": kw, "z": zvec(rng, nobs, k), "x": dyvec(rng, xd)}, "Heat1D/%s" % var, "heat"))
    for e_ in [-8, -2, 5]:
        k += 1
        n = rng.choice([3, 4])
        out.append(({"tp": "heat", "kw": {"dim": n, "endpoint": 2.0 ** e_, "max_time": 0.2 * 4.0 ** e_, "SNR": 200,
                                          "exactSolution": [rng.randint(1, 8) * 2.0 ** rng.choice([0, e_, -e_]) for _ in range(n)]},
                     "scale": True, "z": zvec(rng, n, k), "x": dyvec(rng, n)}, "Heat1D/scale/2^%d" % e_, "heat"))
    # ---------------- field_type x map x field_params for the three problems with a field ----------------
    FT = [None, "KL", "KL_Full", "Step", "CustomKL", "inst:cont", "inst:KL", "inst:KL_Full", "inst:Step", "inst:CustomKL"]
    for tpk in ["poisson", "heat", "abel"]:
        for ft in FT:
            if tpk == "abel" and ft == "KL_Full":
                continue                      # not among Abel1D's documented names (the instance is)
            for mp in [None, True, False]:    # no map | map with imap | map without imap
                k += 1
                n = 5
                base = "cont" if ft is None else (ft[5:] if ft.startswith("inst:") else ft)
                params = {"cont": None, "KL": {"num_modes": 3} if k % 2 else None, "KL_Full": {"std": 2.0, "cor_len": 0.5} if k % 2 else None,
                          "Step": {"n_steps": 2} if k % 2 else None, "CustomKL": {"mean": 0, "std": 1.0, "trunc_term": 3, "ell": 1.0}}[base]
                pdim = {"cont": n, "KL": 3 if params else n, "KL_Full": n, "Step": 2 if params else 3, "CustomKL": 3}[base]
                fd = {"type": ft, "params": params}
                if mp is not None:
                    fd["map"] = ("affine" if base in ("cont", "Step") else "sq1") if tpk == "poisson" else rng.choice(["affine", "sq1"])
                    fd["imap"] = mp
                kw = {"dim": n, "SNR": rng.choice([200, 40]), "field": fd}
                if tpk == "poisson":
                    kw["source"] = rng.choice(["one", "lin", "quad"])
                    kw["endpoint"] = rng.choice([1, 2])
                    xv = [rng.randint(4, 12) / 4 for _ in range(pdim)] if base in ("cont", "Step") else dyvec(rng, pdim, -6, 6)
                    nobs = n - 1
                    if k % 4 == 0:
                        kw["exactSolution"] = [rng.randint(4, 12) / 4 for _ in range(n)]
                else:
                    kw["endpoint"] = rng.choice([1, 2]) if tpk == "abel" else 1
                    xv = dyvec(rng, pdim)
                    nobs = n
                    if tpk == "heat" and k % 4 == 0:
                        kw["exactSolution"] = dyvec(rng, n, 0, 8)
                out.append(({"tp": tpk, "kw": kw, "z": zvec(rng, nobs, k), "x": xv},
                            "%s/field/%s/%s" % ({"poisson": "Poisson1D", "heat": "Heat1D", "abel": "Abel1D"}[tpk], ft or "None",
                                                "nomap" if mp is None else ("map+imap" if mp else "map-noimap")), "field"))
    # ---------------- round-4 lessons: cells that fit the existing handlers ----------------
    # L23 exact type vs subclass: ndarray / str / bool / Geometry SUBCLASS instances for every dispatched argument
    for nm, kwf, sty, h in [("PSF-CUQIarray", {"PSF": [1, 3, 2], "BC": "mirror"}, {"PSF": "cuqiarray"}, "deconv1d"),
                            ("names-np.str_", {"PSF": "Moffat", "PSF_size": 3, "PSF_param": 1.5, "BC": "Reflect", "noise_type": "Gaussian"}, {"np_str": True}, "deconv1d"),
                            ("phantom-name-np.str_", {"PSF": [1, 2, 3], "BC": "zero", "phantom": "sinc"}, {"np_str": True}, "deconv1d"),
                            ("use_legacy-np.bool_", {"PSF": [1, 3, 2, 5, 1, 2], "use_legacy": True}, {"np_bool": True}, "legacy"),
                            ("legacy-name-np.str_", {"PSF": "vonMises", "PSF_param": 3, "use_legacy": True}, {"np_str": True, "np_bool": True}, "legacy")]:
        k += 1
        kw = dict({"dim": 6, "phantom": [rng.randint(1, 5) for _ in range(6)], "noise_std": STD[k % 4]}, **kwf)
        out.append(({"tp": "deconv1d", "kw": kw, "style": sty, "z": zvec(rng, 6, k), "x": dyvec(rng, 6)}, "Deconvolution1D/subclass/" + nm, h))
    k += 1
    out.append(({"tp": "deconv2d", "kw": {"dim": 3, "PSF": "Gauss", "PSF_size": 3, "PSF_param": 1.0, "BC": "Neumann", "phantom": [[1, 2, 3], [0, 1, 0], [2, 0, 1]], "noise_type": "Gaussian", "noise_std": 0.5},
                 "style": {"np_str": True}, "img": [ivec(rng, 3) for _ in range(3)], "z": zvec(rng, 9, k), "x": dyvec(rng, 9)}, "Deconvolution2D/subclass/names-np.str_", "deconv2d"))
    for tpk in ["poisson", "heat", "abel"]:
        for ft, params in [("inst:subcont", None), ("inst:subStep", {"n_steps": 2})]:
            for mp in [None, True]:
                k += 1
                pdim = 5 if ft == "inst:subcont" else 2
                fd = {"type": ft, "params": params}
                if mp:
                    fd.update({"map": "affine", "imap": True})
                kw = {"dim": 5, "SNR": 200, "field": fd}
                if tpk == "poisson":
                    kw["source"] = "lin"
                out.append(({"tp": tpk, "kw": kw, "z": zvec(rng, 4 if tpk == "poisson" else 5, k), "x": [rng.randint(4, 12) / 4 for _ in range(pdim)]},
                            "%s/field/%s/%s" % ({"poisson": "Poisson1D", "heat": "Heat1D", "abel": "Abel1D"}[tpk], ft, "map+imap" if mp else "nomap"), "field"))
        k += 1
        fd = {"type": rng.choice(["KL", "Step"]), "params": None, "map": "sq1", "imap": True}
        kw = {"dim": 5, "SNR": 200, "field": fd}
        if tpk == "poisson":
            kw["source"] = "one"
        pdim = 5 if fd["type"] == "KL" else 3
        out.append(({"tp": tpk, "kw": kw, "style": {"np_str": True}, "z": zvec(rng, 4 if tpk == "poisson" else 5, k), "x": dyvec(rng, pdim, -6, 6)},
                    "%s/field/name-np.str_" % {"poisson": "Poisson1D", "heat": "Heat1D", "abel": "Abel1D"}[tpk], "field"))
    # L21 degenerate counts: one node, one step, one mode, one observed node, one time step
    for tpk, kwf, nobs, xd in [("heat", {"dim": 1}, 1, 1), ("heat", {"dim": 2}, 2, 2), ("poisson", {"dim": 2, "source": "lin"}, 1, 2),
                               ("heat", {"dim": 4, "max_time": 0.03}, 4, 4), ("heat", {"dim": 5, "observation_grid_map": "last"}, 1, 5),
                               ("poisson", {"dim": 6, "source": "quad", "observation_grid_map": "last"}, 1, 6)]:
        k += 1
        out.append(({"tp": tpk, "kw": dict({"SNR": 200}, **kwf), "z": zvec(rng, nobs, k), "x": dyvec(rng, xd, 2, 8)},
                    "%s/count-1/%s" % ({"poisson": "Poisson1D", "heat": "Heat1D"}[tpk], "+".join("%s=%s" % kv for kv in sorted(kwf.items()))), tpk))
    for tpk in ["poisson", "heat", "abel"]:
        for ft, params, pdim in [("Step", {"n_steps": 1}, 1), ("KL", {"num_modes": 1}, 1), ("inst:Step", {"n_steps": 1}, 1)]:
            k += 1
            fd = {"type": ft, "params": params, "map": "sq1" if tpk == "poisson" else rng.choice([None, "affine"]), "imap": True}
            kw = {"dim": 4, "SNR": 200, "field": fd}
            if tpk == "poisson":
                kw["source"] = "one"
            if tpk != "abel":
                kw["exactSolution"] = [rng.randint(4, 12) / 4 for _ in range(4)]
            out.append(({"tp": tpk, "kw": kw, "z": zvec(rng, 3 if tpk == "poisson" else 4, k), "x": [rng.randint(4, 12) / 4]},
                        "%s/count-1/field-%s" % ({"poisson": "Poisson1D", "heat": "Heat1D", "abel": "Abel1D"}[tpk], ft), "field"))
    # L18 exact zeros inside generic data; L17 a prior whose name is not the default "x"
    for nm, pr in [("prior-mean-with-zeros", {"mean": [0.0, 2.0, 0.0, -1.0, 0.0], "cov": 0.25}), ("prior-named-theta", {"mean": dyvec(rng, 5), "cov": 4.0, "name": "theta"}),
                   ("prior-named-u0-zero-mean", {"mean": [0.0] * 5, "cov": 0.25, "name": "u0"})]:
        k += 1
        out.append(({"tp": "deconv1d", "kw": {"dim": 5, "PSF": [1, 2, 3], "BC": rng.choice(["zero", "mirror"]), "phantom": [0, 3, 0, 1, 2], "noise_std": 0.5, "prior": pr},
                     "z": zvec(rng, 5, k), "x": [0.0, 1.5, 0.0, -0.5, 2.0]}, "Deconvolution1D/" + nm, "deconv1d"))
    out.append(({"tp": "deconv2d", "kw": {"dim": 2, "PSF": [[1, 2], [3, 4]], "BC": "zero", "phantom": [[0, 1], [2, 0]], "noise_std": 0.5, "prior": {"mean": [0.0, 1.0, 0.0, 2.0], "cov": 0.25, "name": "theta"}},
                 "img": [[1, 0], [0, 2]], "z": zvec(rng, 4, 2), "x": [0.0, 1.0, 0.0, -1.0]}, "Deconvolution2D/prior-named-theta", "deconv2d"))
    out.append(({"tp": "cubic", "kw": {"data": 0.75, "prior": {"mean": [0.0, 2.0], "cov": 0.25, "name": "theta"}}, "x": [0.0, 1.5]}, "WangCubic/prior-named-theta", "cubic"))
    # L20 integer dtype: exact solutions given as integer arrays
    out.append(({"tp": "heat", "kw": {"dim": 4, "exactSolution": [1, 2, 0, 3], "exactSolution_int": True}, "z": zvec(rng, 4, 2), "x": dyvec(rng, 4)}, "Heat1D/int-dtype/exactSolution", "heat"))
    out.append(({"tp": "poisson", "kw": {"dim": 4, "source": "lin", "exactSolution": [1, 2, 1, 3], "exactSolution_int": True}, "z": zvec(rng, 3, 2), "x": dyvec(rng, 4, 2, 8)}, "Poisson1D/int-dtype/exactSolution", "poisson"))
    # L22 the shipped defaults at an odd size as well (PSF_size defaults to dim)
    out.append(({"tp": "deconv1d", "kw": {"dim": 7}, "z": zvec(rng, 7, 2), "x": dyvec(rng, 7)}, "Deconvolution1D/all-defaults-odd", "deconv1d"))
    # ---------------- WangCubic ----------------
    for dk in ["int", "float", "np", "npint", "bool", "array"]:
        for ns in [None, 0.5]:
            kw = {"data": 0}
            if ns is not None:
                kw["noise_std"] = ns
            out.append(({"tp": "cubic", "kw": kw, "data_kind": dk, "noise_kind": "np" if dk == "np" else None, "x": dyvec(rng, 2, -12, 12, 8)}, "WangCubic/falsy/data-0-%s" % dk, "cubic"))
    out.append(({"tp": "cubic", "kw": {"data": 1}, "data_kind": "bool", "x": dyvec(rng, 2, -12, 12, 8)}, "WangCubic/falsy/data-True", "cubic"))
    out.append(({"tp": "cubic", "kw": {"data": 2.5}, "data_kind": "array", "x": dyvec(rng, 2, -12, 12, 8)}, "WangCubic/data-array", "cubic"))
    out.append(({"tp": "cubic", "kw": {"data": 0.75, "noise_std": 0.5}, "reassign": {"mean": dyvec(rng, 2), "cov": 0.25}, "x": dyvec(rng, 2, -12, 12, 8)}, "WangCubic/reassign-prior", "cubic"))
    for var in ["default", "std", "data", "prior", "all"]:
        for _ in range(ctx.n(2, 8)):
            kw = {}
            if var in ("std", "all"):
                kw["noise_std"] = rng.choice([0.5, 2, 0.25])
            if var in ("data", "all"):
                kw["data"] = rng.choice([2.5, -1, 0.75])
            if var in ("prior", "all"):
                kw["prior"] = {"mean": dyvec(rng, 2), "cov": rng.choice([0.25, 4.0])}
            out.append(({"tp": "cubic", "kw": kw, "x": dyvec(rng, 2, -12, 12, 8)}, "WangCubic/%s" % var, "cubic"))
    return out


def handle(spec, cell, h):
    if h == "deconv1d":
        return deconv1d_cases(spec, cell)
    if h == "legacy":
        return legacy_cases(spec, cell)
    if h == "deconv2d":
        return deconv2d_cases(spec, cell)
    if h == "abel":
        if spec.get("geom"):
            import cuqi
            n, ep = spec["kw"]["dim"], spec["kw"].get("endpoint", 1)
            spec = dict(spec, kw=dict(spec["kw"]))      # the Geometry object itself is not json-able: rebuilt here
            spec["kw"]["field_type"] = cuqi.geometry.Continuous1D(np.linspace(0, ep, n))
            cs = abel_cases(spec, cell)
            for c in cs:
                c.meta = dict(c.meta, kw={kk: vv for kk, vv in c.meta["kw"].items() if kk != "field_type"}, geom=True)
                c.key = ""
                c.__post_init__()
            return cs
        return abel_cases(spec, cell)
    if h == "poisson":
        return poisson_cases(spec, cell)
    if h == "heat":
        return heat_cases(spec, cell)
    if h == "cubic":
        return cubic_cases(spec, cell)
    if h == "field":
        return field_cases(spec, cell)
    if h.startswith("refusal:"):
        return refusal_case(spec, cell, h.endswith("1"))
    if h == "zero-noise":
        return zero_noise_case(spec, cell)
    raise ValueError(h)


def history_cases(ctx):
    """histories that revisit earlier objects: problem A is built and evaluated, then other problems of the same class are built
    (other options, other sizes), then A is evaluated again -- bit for bit the same"""
    rng = ctx.rng
    seqs = {
        "Deconvolution1D": [{"tp": "deconv1d", "kw": {"dim": 5, "PSF": [1, 2, 3], "BC": "zero", "phantom": [1, 2, 3, 4, 5], "noise_std": 0.5}, "z": [0.5] * 5},
                            {"tp": "deconv1d", "kw": {"dim": 5, "PSF": [3, 1], "BC": "mirror", "phantom": [5, 4, 3, 2, 1], "noise_std": 0.25}, "z": [1.0] * 5},
                            {"tp": "deconv1d", "kw": {"dim": 6, "PSF": "gauss", "use_legacy": True, "phantom": [1, 0, 2, 0, 1, 1], "noise_std": 2.0}, "z": [0.0] * 6}],
        "Deconvolution2D": [{"tp": "deconv2d", "kw": {"dim": 3, "PSF": [[1, 2, 0], [0, 3, 1], [2, 1, 1]], "BC": "neumann", "phantom": [[1, 2, 3], [4, 5, 6], [7, 8, 9]], "noise_std": 0.5}, "z": [0.5] * 9},
                            {"tp": "deconv2d", "kw": {"dim": 3, "PSF": [[1, 2], [3, 4]], "BC": "zero", "phantom": [[1, 0, 1], [0, 1, 0], [1, 0, 1]], "noise_std": 0.25}, "z": [1.0] * 9},
                            {"tp": "deconv2d", "kw": {"dim": 4, "PSF": "moffat", "PSF_size": 3, "PSF_param": 1.0, "BC": "periodic", "phantom": [[1] * 4] * 4, "noise_std": 0.5}, "z": [0.0] * 16}],
        "Heat1D": [{"tp": "heat", "kw": {"dim": 4, "SNR": 50}, "z": [0.5] * 4}, {"tp": "heat", "kw": {"dim": 5, "endpoint": 2, "max_time": 0.1, "SNR": 200}, "z": [1.0] * 5},
                   {"tp": "heat", "kw": {"dim": 4, "exactSolution": [1.0, 2.0, 0.0, 1.0]}, "z": [0.0] * 4}],
        "Poisson1D": [{"tp": "poisson", "kw": {"dim": 5, "source": "lin", "SNR": 50}, "z": [0.5] * 4}, {"tp": "poisson", "kw": {"dim": 6, "endpoint": 2, "source": "quad"}, "z": [1.0] * 5},
                      {"tp": "poisson", "kw": {"dim": 5, "source": "one", "exactSolution": [1.0, 2.0, 1.5, 1.0, 2.5]}, "z": [0.0] * 4}],
        "Abel1D": [{"tp": "abel", "kw": {"dim": 4, "SNR": 50}, "z": [0.5] * 4}, {"tp": "abel", "kw": {"dim": 5, "endpoint": 2}, "z": [1.0] * 5}, {"tp": "abel", "kw": {"dim": 4, "endpoint": 0.5}, "z": [0.0] * 4}],
        "WangCubic": [{"tp": "cubic", "kw": {"data": 0.5}}, {"tp": "cubic", "kw": {"data": -2, "noise_std": 0.5}}, {"tp": "cubic", "kw": {}}],
    }
    cases = []
    for name, seq in seqs.items():
        tps = []
        for sp in seq:
            tp, d, err = construct(sp)
            if tp is None:
                raise RuntimeError("history: %s refused %s" % (name, err))
            x = np.array([rng.randint(2, 8) / 4 for _ in range(tp.model.domain_dim)])
            with warnings.catch_warnings():
                warnings.simplefilter("ignore")
                snap = (np.array(tp.model.forward(x), dtype=float), np.array(tp.data, dtype=float), float(np.ravel(tp.posterior.logd(x))[0]),
                        None if tp.exactData is None else np.array(tp.exactData, dtype=float))
            tps.append((tp, x, snap))
        bad = []
        for i, (tp, x, snap) in enumerate(tps):
            with warnings.catch_warnings():
                warnings.simplefilter("ignore")
                now = (np.array(tp.model.forward(x), dtype=float), np.array(tp.data, dtype=float), float(np.ravel(tp.posterior.logd(x))[0]),
                       None if tp.exactData is None else np.array(tp.exactData, dtype=float))
            same = all((a is None and b is None) or (np.array_equal(a, b, equal_nan=True) if isinstance(a, np.ndarray) else (a == b or (a != a and b != b))) for a, b in zip(snap, now))
            if not same:
                bad.append(i)
        meta = {"tp": "history", "name": name, "handler": "history"}
        cases.append(Case(expr=cbool(not bad), meta=meta, cell="history/" + name, kind="DECISION"))
        if bad:
            cases.append(verdict_case(meta, "history/" + name, "%s: problems %s give other forward/data/logd values after later problems of the class were built" % (name, bad), "%s|history" % name))
    return cases


def _ref_forward(spec, x):
    """documented forward map of a plain (identity-geometry) problem spec, plain Python/numpy"""
    tpk, kw = spec["tp"], spec["kw"]
    x = [float(v) for v in x]
    if tpk == "deconv1d":
        docP, _ = used_psf_1d(kw)
        return np.array(ref_conv1(x, docP, BC1[kw.get("BC", "periodic").lower()][0]), dtype=float)
    if tpk == "deconv2d":
        n = kw["dim"]
        return np.array(ref_conv2(np.array(x).reshape(n, n).tolist(), [[float(v) for v in r] for r in kw["PSF"]], BC2[kw.get("BC", "periodic").lower()][0]), dtype=float).ravel()
    if tpk == "abel":
        return abel_ref(kw["dim"], kw.get("endpoint", 1)) @ np.array(x)
    if tpk == "heat":
        return heat_ref(kw["dim"], kw.get("endpoint", 1), kw.get("max_time", 0.2), x)
    if tpk == "poisson":
        return poisson_ref(kw["dim"], kw.get("endpoint", 1), x, kw.get("source", "one"))
    return np.array([10 * x[1] - 10 * x[0] ** 3 + 5 * x[0] ** 2 + 6 * x[0]])


def _explicit_logd(data, mx, s2, x, mu, ps2):
    return gauss_logpdf([float(v) for v in np.ravel(data)], [float(v) for v in np.ravel(mx)], s2) + gauss_logpdf([float(v) for v in x], mu, ps2)


LESSON_SPECS = {
    "Deconvolution1D": {"tp": "deconv1d", "kw": {"dim": 5, "PSF": [1, 2, 3], "BC": "mirror", "phantom": [1, 0, 3, 2, 0], "noise_std": 0.5}, "z": [0.5, 0, -1, 0, 0.25]},
    "Deconvolution2D": {"tp": "deconv2d", "kw": {"dim": 3, "PSF": [[1, 2, 0], [0, 3, 1], [2, 1, 1]], "BC": "neumann", "phantom": [[1, 2, 0], [4, 0, 6], [7, 8, 9]], "noise_std": 0.5}, "z": [0.5] * 9},
    "Abel1D": {"tp": "abel", "kw": {"dim": 4, "SNR": 50}, "z": [0.5, 0, -1, 0]},
    "Heat1D": {"tp": "heat", "kw": {"dim": 4, "SNR": 50}, "z": [0.5, 0, -1, 0]},
    "Poisson1D": {"tp": "poisson", "kw": {"dim": 5, "source": "lin", "SNR": 50}, "z": [0.5, 0, -1, 0]},
    "WangCubic": {"tp": "cubic", "kw": {"data": 0.5, "noise_std": 0.5}},
}


def lesson_cases(ctx):
    try:
        return _lesson_cases(ctx)
    except HarnessError:
        raise
    except Exception as e_:
        import traceback
        meta = {"tp": "lesson", "name": "crash", "handler": "lesson"}
        tb = traceback.format_exc()
        return [Case(expr="false", meta=meta, cell="lesson/crash", kind="DECISION"),
                verdict_case(meta, "lesson/crash", "a lesson cell could not be evaluated: %s: %s | %s" % (type(e_).__name__, str(e_)[:200], tb[-600:].replace("\n", " | ")), "lesson|%s" % type(e_).__name__)]


def _lesson_cases(ctx):
    """round-4 lessons that need a history of calls on one object (oracle-driven DECISION cases):
    L14 refusal in every life-cycle state, L15 caller overwrites its argument in place between calls, L16 the composite rebuilt from
    get_components(), L19 user callables returning a reused work buffer / non-contiguous results, L20 integer-dtype evaluation points,
    L22 the true shipped defaults, L25 argument objects shared by two problems alive at once"""
    import cuqi
    from cuqi import testproblem as TP
    rng = ctx.rng
    cases = []

    def emit(cell, name, ok, detail, sig):
        meta = {"tp": "lesson", "name": name, "handler": "lesson"}
        cases.append(Case(expr=cbool(ok), meta=meta, cell=cell, kind="DECISION"))
        if not ok:
            cases.append(verdict_case(meta, cell, detail, sig))

    def noise_var(tp):
        return [float(v) for v in np.ravel(tp.likelihood.distribution.cov)]

    for name, spec in LESSON_SPECS.items():
        tp, d, err = construct(spec)
        n = tp.model.domain_dim
        x0 = np.array([rng.randint(4, 10) / 4 for _ in range(n)])
        s2 = noise_var(tp); s2 = s2[0] if len(s2) == 1 else s2
        mu, ps2 = prior_of(spec, n)
        dat = [float(v) for v in np.ravel(tp.data)]
        with warnings.catch_warnings():
            warnings.simplefilter("ignore")
            # ---- L15: the caller re-uses and overwrites ONE array object between calls
            x = x0.copy()
            y1 = tp.model.forward(x); c1 = np.array(y1, dtype=float, copy=True)
            l1 = float(np.ravel(tp.posterior.logd(x))[0])
            x *= 2                                   # in place: same object, new contents
            y2 = np.array(tp.model.forward(x), dtype=float)
            l2 = float(np.ravel(tp.posterior.logd(x))[0])
            ref1, ref2 = _ref_forward(spec, x0), _ref_forward(spec, 2 * x0)
            ok = rclose(np.ravel(c1), np.ravel(ref1), 1e-8) and rclose(np.ravel(y2), np.ravel(ref2), 1e-8) and np.array_equal(np.array(y1, dtype=float), c1) \
                and close(l1, _explicit_logd(dat, ref1, s2, x0, mu, ps2), 1e-8) and close(l2, _explicit_logd(dat, ref2, s2, 2 * x0, mu, ps2), 1e-8)
            emit("lesson/L15-inplace-argument/" + name, "L15/" + name, ok,
                 "%s: forward/logd at an argument array overwritten in place between calls: forward %s / %s, documented %s / %s; logd %r / %r" % (
                     name, np.ravel(c1), np.ravel(y2), np.ravel(ref1), np.ravel(ref2), l1, l2), "%s|inplace-argument" % spec["tp"])
            # ---- L20: integer-dtype evaluation point
            xi = np.array([2, 1, 3, 1, 2, 1, 2, 3, 1][:n])
            yi = np.array(tp.model.forward(xi), dtype=float); li = float(np.ravel(tp.posterior.logd(xi))[0])
            refi = _ref_forward(spec, xi)
            ok = rclose(np.ravel(yi), np.ravel(refi), 1e-8) and close(li, _explicit_logd(dat, refi, s2, xi, mu, ps2), 1e-8)
            emit("lesson/L20-int-point/" + name, "L20/" + name, ok, "%s: forward/logd at the integer-dtype point %s: %s, logd %r; documented %s" % (name, xi, yi, li, refi), "%s|int-point" % spec["tp"])
            # ---- L14: set_data on a finished test problem is refused in every state and leaves it untouched
            states = []
            for stage in ("fresh-after-evaluation", "after-refused-call", "after-prior-reassign"):
                if stage == "after-prior-reassign":
                    tp.prior = cuqi.distribution.Gaussian(np.array(mu, dtype=float), ps2, name=tp.prior.name)
                try:
                    tp.set_data(y=np.zeros(len(dat)))
                    states.append((stage, "accepted"))
                except ValueError:
                    states.append((stage, "refused"))
                except Exception as e_:
                    states.append((stage, type(e_).__name__))
            l3 = float(np.ravel(tp.posterior.logd(x0))[0])
            ok = all(r == "refused" for _, r in states) and [float(v) for v in np.ravel(tp.data)] == dat and close(l3, _explicit_logd(dat, ref1, s2, x0, mu, ps2), 1e-8)
            emit("lesson/L14-refusal-states/" + name, "L14/" + name, ok, "%s.set_data on a constructed problem: %s; data afterwards %s (was %s), logd %r" % (name, states, np.ravel(tp.data), dat, l3),
                 "%s|set_data-states" % spec["tp"])
            # ---- L16: the composite a user rebuilds from get_components() (documented usage) has the explicit posterior
            tp2, d2, _ = construct(spec)
            A, ydat, info = tp2.get_components()
            xd = cuqi.distribution.Gaussian(np.zeros(n), 0.25, name="x")
            yd = cuqi.distribution.Gaussian(A(xd), 4.0, name="y")
            BP = cuqi.problem.BayesianProblem(yd, xd).set_data(y=ydat)
            lb = float(np.ravel(BP.posterior.logd(x0))[0])
            want = _explicit_logd(dat, ref1, 4.0, x0, [0.0] * n, 0.25)
            ok = close(lb, want, 1e-8) and BP.data is ydat and BP.model is not None
            emit("lesson/L16-rebuilt-composite/" + name, "L16/" + name, ok, "%s: BayesianProblem(y, x).set_data(y=data) rebuilt from get_components(): posterior.logd = %r, explicit %r" % (name, lb, want),
                 "%s|rebuilt-composite" % spec["tp"])

    # ---- L19: user callables returning a reused work buffer / a non-contiguous result
    def mk_map(kind, n):
        if kind == "workbuffer":
            buf = np.empty(n)
            def m(v):
                np.multiply(v, 2, out=buf); np.add(buf, 1, out=buf)
                return buf
        else:
            big = np.zeros(2 * n)
            def m(v):
                big[::2] = 2 * np.asarray(v) + 1
                return big[::2]                  # strided view of a persistent buffer
        return m
    for cname, cls, mapkw, tpk, extra in [("Heat1D", TP.Heat1D, "map", "heat", {}), ("Poisson1D", TP.Poisson1D, "map", "poisson", {"source": SOURCES["lin"]}), ("Abel1D", TP.Abel1D, "KL_map", "abel", {})]:
        for kind in ("workbuffer", "strided-view"):
            n = 5
            with warnings.catch_warnings():
                warnings.simplefilter("ignore")
                with ScriptedRandom(seed=0, script=Draws([0.0] * (n - 1 if tpk == "poisson" else n))):
                    tp = cls(dim=n, **{mapkw: mk_map(kind, n)}, **extra)
                p1 = np.array([rng.randint(4, 10) / 4 for _ in range(n)]); p2 = np.array([rng.randint(4, 10) / 4 for _ in range(n)])
                sp = {"tp": tpk, "kw": {"dim": n, "source": "lin"}}
                r1, r2 = _ref_forward(sp, 2 * p1 + 1), _ref_forward(sp, 2 * p2 + 1)
                a1 = tp.model.forward(p1); a1c = np.array(a1, dtype=float, copy=True)
                a2 = np.array(tp.model.forward(p2), dtype=float)
                a3 = np.array(tp.model.forward(p1), dtype=float)
                ok = rclose(a1c, r1, 1e-8) and rclose(a2, r2, 1e-8) and rclose(a3, r1, 1e-8) and np.array_equal(np.array(a1, dtype=float), a1c) \
                    and close(fl(tp.exactData), fl(tp.model.forward(tp.exactSolution)))
            emit("lesson/L19-callable-%s/%s" % (kind, cname), "L19/%s/%s" % (kind, cname), ok,
                 "%s with a map returning a %s: forward(p1), forward(p2), forward(p1) = %s, %s, %s; documented %s, %s" % (cname, kind, a1c, a2, a3, r1, r2), "%s|callable-%s" % (tpk, kind))

    # ---- L25: one argument object shared by two problems that are alive at once; the FIRST evaluated after the second was built
    with warnings.catch_warnings():
        warnings.simplefilter("ignore")
        pr = cuqi.distribution.Gaussian(np.array([0.0, 1.0, 0.0, -1.0, 0.5]), 0.25, name="x")
        with ScriptedRandom(seed=0, script=Draws([0.5] * 5)):
            a = TP.Deconvolution1D(dim=5, PSF=np.array([1., 2, 3]), BC="zero", phantom=np.array([1., 2, 3, 4, 5]), noise_std=0.5, prior=pr)
        with ScriptedRandom(seed=0, script=Draws([0.25] * 5)):
            b = TP.Deconvolution1D(dim=5, PSF=np.array([3., 1]), BC="mirror", phantom=np.array([5., 4, 3, 2, 1]), noise_std=2.0, prior=pr)
        xx = np.array([0.5, 1.0, -1.0, 0.0, 2.0])
        la, lb_ = float(np.ravel(a.posterior.logd(xx))[0]), float(np.ravel(b.posterior.logd(xx))[0])
        sa = {"tp": "deconv1d", "kw": {"dim": 5, "PSF": [1, 2, 3], "BC": "zero"}}; sb = {"tp": "deconv1d", "kw": {"dim": 5, "PSF": [3, 1], "BC": "mirror"}}
        wa = _explicit_logd(a.data, _ref_forward(sa, xx), 0.25, xx, [0.0, 1.0, 0.0, -1.0, 0.5], 0.25)
        wb = _explicit_logd(b.data, _ref_forward(sb, xx), 4.0, xx, [0.0, 1.0, 0.0, -1.0, 0.5], 0.25)
        ok = close(la, wa, 1e-8) and close(lb_, wb, 1e-8) and a.model is not b.model and a.data is not b.data
        emit("lesson/L25-shared-prior/Deconvolution1D", "L25/prior", ok, "two Deconvolution1D problems given the SAME prior object: logd %r / %r, explicit %r / %r" % (la, lb_, wa, wb), "deconv1d|shared-prior")
        geo = cuqi.geometry.Continuous1D(np.linspace(1 / 6, 1, 5, endpoint=False))
        with ScriptedRandom(seed=0, script=Draws([0.0] * 5)):
            h1 = TP.Heat1D(dim=5, field_type=geo, map=lambda v: 2 * v + 1)
        with ScriptedRandom(seed=0, script=Draws([0.0] * 5)):
            h2 = TP.Heat1D(dim=5, field_type=geo, map=lambda v: v * v + 1)
        pp = np.array([1.0, 2.0, 0.5, 1.5, 1.0])
        f1, f2 = np.array(h1.model.forward(pp), dtype=float), np.array(h2.model.forward(pp), dtype=float)
        sh = {"tp": "heat", "kw": {"dim": 5}}
        ok = rclose(f1, _ref_forward(sh, 2 * pp + 1), 1e-8) and rclose(f2, _ref_forward(sh, pp * pp + 1), 1e-8)
        emit("lesson/L25-shared-geometry/Heat1D", "L25/geometry", ok, "two Heat1D problems given the SAME geometry instance with different maps: forward %s / %s" % (f1, f2), "heat|shared-geometry")
        Pshared = np.array([[1., 2, 0], [0, 3, 1], [2, 1, 1]])
        img = np.arange(9.)
        with ScriptedRandom(seed=0, script=Draws([0.0] * 9)):
            t1 = TP.Deconvolution2D(dim=3, PSF=Pshared, BC="zero", phantom=np.ones((3, 3)), noise_std=0.5)
        with ScriptedRandom(seed=0, script=Draws([0.0] * 9)):
            t2 = TP.Deconvolution2D(dim=3, PSF=Pshared, BC="mirror", phantom=np.ones((3, 3)), noise_std=0.5)
        g1, g2 = np.array(t1.model.forward(img), dtype=float), np.array(t2.model.forward(img), dtype=float)
        ok = close(g1, _ref_forward({"tp": "deconv2d", "kw": {"dim": 3, "PSF": Pshared.tolist(), "BC": "zero"}}, img)) and \
            close(g2, _ref_forward({"tp": "deconv2d", "kw": {"dim": 3, "PSF": Pshared.tolist(), "BC": "mirror"}}, img))
        emit("lesson/L25-shared-PSF/Deconvolution2D", "L25/PSF", ok, "two Deconvolution2D problems given the SAME PSF array with different BC: forward %s / %s" % (g1, g2), "deconv2d|shared-PSF")

    # ---- L22: the true shipped defaults (dim 128; 1-d PSF size 128, 2-d PSF size 21 -- odd), scipy.ndimage as the documented operator
    from scipy.ndimage import convolve1d, convolve
    with warnings.catch_warnings():
        warnings.simplefilter("ignore")
        with ScriptedRandom(seed=0, script=Draws([0.0] * 128)):
            t = TP.Deconvolution1D()
        P1 = np.array(doc_psf_1d("gauss", 128, 10))
        xs = np.asarray(t.exactSolution, dtype=float)
        ok = close(np.asarray(t.exactData, dtype=float), convolve1d(xs, P1, mode="wrap")) and close(dense(t.model.get_matrix())[:, 5], convolve1d(np.eye(128)[:, 5], P1, mode="wrap")) \
            and close(xs, np.sinc(5 * np.linspace(-1, 1, 128))) and close(noise_var(t), [1e-4]) and np.array_equal(np.asarray(t.data, dtype=float), np.asarray(t.exactData, dtype=float))
        emit("lesson/L22-true-defaults/Deconvolution1D", "L22/Deconvolution1D", ok, "Deconvolution1D() with every default: operator / phantom / noise level differ from the documented defaults", "deconv1d|true-defaults")
        with ScriptedRandom(seed=0, script=Draws([0.0] * 128 * 128)):
            t = TP.Deconvolution2D()
        P2 = np.array(doc_psf_2d("gauss", 21, 2.56))
        X = np.asarray(t.exactSolution, dtype=float).reshape(128, 128)
        imgr = np.zeros((128, 128)); imgr[3, 120] = 1.0; imgr[64, 64] = 2.0
        ok = close(np.asarray(t.exactData, dtype=float).reshape(128, 128), convolve(X, P2, mode="wrap"), 1e-8) and \
            close(np.asarray(t.model.forward(imgr.ravel()), dtype=float).reshape(128, 128), convolve(imgr, P2, mode="wrap"), 1e-8) and \
            close(np.asarray(t.model.adjoint(imgr.ravel()), dtype=float).reshape(128, 128), convolve(imgr, P2[::-1, ::-1], mode="wrap"), 1e-8) and \
            close(P2, np.asarray(t.Miscellaneous["PSF"], dtype=float)) and close(noise_var(t), [0.0036 ** 2], 1e-9)
        emit("lesson/L22-true-defaults/Deconvolution2D", "L22/Deconvolution2D", ok, "Deconvolution2D() with every default (dim 128, PSF 21x21 Gauss 2.56, periodic): forward / adjoint / PSF / noise level differ from the documented defaults",
             "deconv2d|true-defaults")
    return cases


def run(ctx):
    probe_state(force=True)
    ctx.note("tree state: %s" % _STATE)
    cases = []
    for rep in range(ctx.n(1, 3)):          # thorough: the whole lattice three times with fresh values
        for spec, cell, h in specs(ctx):
            cs = handle(spec, cell, h)
            for c in cs:
                c.meta = dict(spec_clean(c.meta), handler=h, cell=cell)
                c.key = ""; c.__post_init__()
            cases += cs
    cases += history_cases(ctx)
    cases += lesson_cases(ctx)
    # shipped PSF generators
    for kind in ["gauss", "moffat", "defocus"]:
        for n in range(1, 8):
            for param in [0.5, 1, 2, 1.5] + ([0] if kind == "defocus" else []):
                if not ctx.thorough and (n + int(param * 2)) % 2 and param not in (0, 1):
                    continue
                for c in psf_cases(kind, n, param):
                    c.meta = dict(c.meta, handler="psf"); cases.append(c)
                if n <= 5:
                    for c in psf_cases(kind, n, param, two_d=True):
                        c.meta = dict(c.meta, handler="psf"); cases.append(c)
    # string phantoms as formulas
    for kind, params in [("gauss", [None, 2, 0]), ("sinc", [None, 3, 0.0]), ("vonmises", [None, 2, 0]), ("bumps", [None]), ("derivgauss", [None, 3]),
                         ("square", [None, 3, 4]), ("hat", [None, 3, 4]), ("pc", [None]), ("skyscraper", [None])]:
        for param in params:
            dims = {"pc": [1, 4, 6, 11, 21, 14], "skyscraper": [4, 11, 21, 14, 51, 101]}.get(kind, [2, 5, 6, 7, 8, 10] + ([16, 31] if kind in ("square", "hat") else []))
            if kind in ("square", "hat") and param is not None:
                dims = [d_ for d_ in dims if d_ >= 6]
            if not ctx.thorough:
                dims = dims[::2] + dims[-1:]
            for dim in dims:
                for c in phantom_cases(kind, dim, param):
                    c.meta = dict(c.meta, handler="phantom"); cases.append(c)
    return Result(cases=cases, rule=RULE, extra={"tree_state": dict(_STATE)},
                  assumptions=["scipy.signal.fftconvolve equals the direct convolution and numpy.pad / scipy.ndimage.convolve1d follow their documented index rules (each exercised by every case)",
                               "numpy.random.normal(0, s, size) = s * standard normal; Gaussian.sample = mean + sqrt(cov) * randn (scripted)",
                               "floating rounding not modelled: integer cases exact, others within 1e-9 (1e-6 after the Poisson solve)",
                               "Heat1D / Poisson1D solution maps: checked here only through the discrete residual (Poisson) and an independent forward-Euler run (Heat, oracle only); their theory is C18's"])


# ------------------------------------------------------------------------------------------------
# violation protocol
# ------------------------------------------------------------------------------------------------
def _rerun(meta):
    """re-run the driver + independent oracle for one stored case; returns the list of cases it yields"""
    m = dict(meta.get("meta", meta))
    h = m.pop("handler", None)
    cell = m.pop("cell", "replay")
    for kk in ("obs", "verdict", "observed", "entry"):
        m.pop(kk, None)
    if h == "lesson" or m.get("tp") == "lesson":
        return [c for c in lesson_cases(Ctx("C17", "quick", 0, "/repo")) if c.meta.get("name") == m.get("name")]
    if h == "history" or m.get("tp") == "history":
        return [c for c in history_cases(Ctx("C17", "quick", 0, "/repo")) if c.meta.get("name") == m.get("name")]
    if h == "phantom" or m.get("tp") == "phantom":
        return phantom_cases(m["kind"], m["dim"], m["param"])
    if h == "psf" or m.get("tp") in ("psf1d", "psf2d"):
        return psf_cases(m["kind"], m["n"], m["param"], two_d=(m["tp"] == "psf2d"))
    if "field" in m.get("kw", {}):
        h = "field"
    if h is None:
        h = {"deconv1d": "legacy" if m.get("kw", {}).get("use_legacy") else "deconv1d", "deconv2d": "deconv2d", "abel": "abel",
             "poisson": "poisson", "heat": "heat", "cubic": "cubic"}[m["tp"]]
    return handle(m, cell, h)


def oracle(ctx, meta):
    probe_state()
    fails = [c for c in _rerun(meta) if c.impl_fail]
    if not fails:
        return None
    return "; ".join("[%s] %s" % (c.signature, c.impl_fail) for c in fails)[:3000]


def classify(meta, detail):
    m = re.match(r"^\[([^\]]+)\]", detail or "")
    if m:
        return m.group(1)
    return "%s|%s" % (meta.get("tp", "C17"), meta.get("obs", "case"))


WITNESSES = {
    SIG_T: {"tp": "deconv1d", "kw": {"dim": 5, "PSF": [1, 2, 3], "BC": "zero", "phantom": [1, -2, 0, 3, 1], "noise_std": 0.5},
            "z": [1, 0, -0.5, 0.25, 2], "x": [0.5, 1, -1, 0, 0.25], "handler": "deconv1d"},
    SIG_L: {"tp": "deconv1d", "kw": {"dim": 6, "PSF": [1, 2, 3, 4, 5, 6], "use_legacy": True, "phantom": [1, -2, 0, 3, 1, 1], "noise_std": 0.5},
            "z": [1, 0, -0.5, 0.25, 2, 0], "x": [0.5, 1, -1, 0, 0.25, 1], "handler": "legacy"},
    SIG_D: {"tp": "psf1d", "kind": "defocus", "n": 5, "param": 1, "handler": "psf"},
    SIG_HS: {"tp": "heat", "kw": {"dim": 5, "SNR": 200, "endpoint": 1, "field": {"type": "Step", "params": {"n_steps": 2}, "map": "affine", "imap": True}},
             "z": [0.0] * 5, "x": [0.5, 1.0], "handler": "field"},
    SIG_PP: {"tp": "deconv2d", "kw": {"dim": 5, "PSF": [[1, 2], [3, 4]], "BC": "zero", "phantom": "p-power", "noise_std": 0.5}, "phantom_ref": "p_power",
             "img": [[0] * 5] * 5, "z": [0.0] * 25, "x": [0.0] * 25, "handler": "deconv2d"},
    SIG_H1: {"tp": "heat", "kw": {"dim": 5, "SNR": 200, "observation_grid_map": "last"}, "z": [0.0], "x": [1.0, 1.0, 1.0, 1.0, 1.0], "handler": "heat"},
    SIG_PG: {"tp": "poisson", "kw": {"dim": 3, "endpoint": 2, "SNR": 200, "source": "one"}, "z": [0.0, 1.0], "x": [2.0, 1.75, 0.5], "handler": "poisson"},
    SIG_D0: {"tp": "deconv1d", "kw": {"dim": 6, "PSF": "defocus", "PSF_size": 3, "PSF_param": 0, "phantom": [1, 2, 3, 4, 5, 6], "noise_std": 0.5},
             "z": [0.0] * 6, "handler": "deconv1d"},
}


def known_witnesses(ctx):
    probe_state()
    out = {}
    for sig, meta in WITNESSES.items():
        fails = [c for c in _rerun(meta) if c.impl_fail and c.signature == sig]
        out[sig] = (bool(fails), fails[0].impl_fail if fails else "witness satisfies the property on this tree")
    return out


def search(ctx):
    """wider search with the oracle alone: the whole lattice again with fresh values"""
    found = []
    saved = ctx.tier
    try:
        ctx.tier = "quick"
        for spec, cell, h in specs(ctx):
            try:
                for c in handle(spec, cell, h):
                    if c.impl_fail:
                        c.meta = dict(c.meta, handler=h, cell=cell)
                        found.append(c)
            except Exception:
                pass
    finally:
        ctx.tier = saved
    return found


def replay(ctx, meta):
    print(json.dumps({k: v for k, v in meta.items() if k != "meta"}, indent=1)[:3000])
    m = meta.get("meta", meta)
    print("spec:", json.dumps(m)[:3000])
    probe_state(force=True)
    print("tree state:", _STATE)
    if "no_longer_checks" in meta and "meta" not in meta:
        for b in meta["no_longer_checks"] if isinstance(meta["no_longer_checks"], list) else []:
            for c in b.get("cases", [])[:3]:
                print("--- disagreeing case:", json.dumps(c.get("meta"))[:1500])
                try:
                    for cc in _rerun(c["meta"]):
                        print("   ", cc.cell, "| oracle:", cc.impl_fail or "ok")
                        print("      implementation vs model term:", cc.expr[:600])
                except Exception as e:
                    print("    re-run raised", repr(e))
        return 0
    try:
        cs = _rerun(meta)
    except Exception as e:
        print("re-run raised", repr(e))
        return 1
    rc = 0
    for c in cs:
        print("---", c.cell, c.kind)
        print("   implementation (observed values inside the term) vs model:", c.expr[:1200])
        if c.impl_fail:
            rc = 1
            print("   ORACLE: [%s] %s" % (c.signature, c.impl_fail))
        elif c.kind != "ENCLOSURE" and c.expr != "true":
            r, out = eval_in_coq(IMPORTS, c.expr, tag="replay_C17")
            print("   model agrees:", out[-200:])
    return rc
