(* C04 -- proofs, part 4: vector-level statements for InverseGamma and Beta, the Lognormal with diagonal
   covariance as a product of 1-d lognormal densities, and the meaning of the support decisions
   (where the log-density is -infinity). *)
From CV Require Import Base.Tac Base.Cmp Model.C04_Dens Proofs.C04_Dens Proofs.C04_Gauss.
From Coq Require Import QArith Reals Lra.
From Coquelicot Require Import Coquelicot.
Local Open Scope R_scope.
Notation Forall := List.Forall.

Lemma bc_map (g : R -> R) n p : bc n (map g p) = map g (bc n p).
Proof. destruct p as [|a [|b r]]; cbn; try reflexivity. induction n; cbn; congruence. Qed.

Lemma combine_map_l {A B C} (g : A -> C) (a : list A) (b : list B) :
  combine (map g a) b = map (fun p => (g (fst p), snd p)) (combine a b).
Proof. revert b; induction a as [|x a IH]; intros [|y b]; cbn; try reflexivity. f_equal. apply IH. Qed.

Lemma combine_Forall_fst {A B} (P : A -> Prop) (a : list A) (b : list B) :
  Forall P a -> Forall (fun p => P (fst p)) (combine a b).
Proof.
  intros H. revert b. induction H as [|x a Hx _ IH]; intros [|y b]; cbn; constructor; [exact Hx | apply IH].
Qed.

(* ---------- InverseGamma, all coordinates (Gs = values of the Gamma function at the shapes) ---------- *)
Definition invgamma_pdf_vec (Gs shape loc scale x : list R) : R :=
  let n := length x in
  rprod (map (fun p : R * (R * R * R * R) => let '(sh, l, sc, t) := snd p in invgamma_pdf1 (fst p) sh l sc t)
             (combine (bc n Gs) (zip4 (bc n shape) (bc n loc) (bc n scale) x))).

Theorem invgamma_logpdf_doc Gs shape loc scale x : Forall (fun G => 0 < G) Gs ->
  invgamma_logpdf (map ln Gs) shape loc scale x = ln (invgamma_pdf_vec Gs shape loc scale x).
Proof.
  intros HG. unfold invgamma_logpdf, invgamma_pdf_vec. cbv zeta.
  rewrite bc_map, combine_map_l, map_map.
  apply ln_rprod.
  pose proof (combine_Forall_fst (fun G => 0 < G) (bc (length x) Gs)
                (zip4 (bc (length x) shape) (bc (length x) loc) (bc (length x) scale) x) (bc_Forall _ _ _ HG)) as H.
  eapply Forall_impl; [|exact H]. intros [G [[[sh l] sc] t]] HGp. cbn [fst snd] in *. split.
  - unfold invgamma_pdf1. apply Rdiv_lt_0_compat.
    + apply Rmult_lt_0_compat; [apply Rpower_pos | apply exp_pos].
    + apply Rmult_lt_0_compat; [apply Rpower_pos | exact HGp].
  - apply invgamma_term_doc. exact HGp.
Qed.

(* ---------- Beta, all coordinates ---------- *)
Definition beta_pdf_vec (Ga Gb Gab alpha beta x : list R) : R :=
  let n := length x in
  rprod (map (fun p : (R * R * R) * (R * R * R) => let '(ga, gb, gab) := fst p in let '(al, be, t) := snd p in beta_pdf1 ga gb gab al be t)
             (combine (zip3 (bc n Ga) (bc n Gb) (bc n Gab)) (zip3 (bc n alpha) (bc n beta) x))).

Lemma zip3_map3 (g : R -> R) a b c :
  zip3 (map g a) (map g b) (map g c) = map (fun t : R * R * R => let '(x, y, z) := t in (g x, g y, g z)) (zip3 a b c).
Proof.
  revert b c; induction a as [|x a IH]; intros [|y b] [|z c]; cbn; try reflexivity. f_equal. apply IH.
Qed.

Lemma zip3_Forall_all (P : R -> Prop) a b c : Forall P a -> Forall P b -> Forall P c ->
  Forall (fun t : R * R * R => let '(x, y, z) := t in P x /\ P y /\ P z) (zip3 a b c).
Proof.
  intros Ha. revert b c. induction Ha as [|x a Hx _ IH]; intros [|y b] [|z c] Hb Hc; cbn; try constructor.
  - inversion Hb; inversion Hc; subst; auto.
  - inversion Hb; inversion Hc; subst. apply IH; assumption.
Qed.

Theorem beta_logpdf_doc Ga Gb Gab alpha beta x :
  Forall (fun G => 0 < G) Ga -> Forall (fun G => 0 < G) Gb -> Forall (fun G => 0 < G) Gab ->
  beta_logpdf (map ln Ga) (map ln Gb) (map ln Gab) alpha beta x = ln (beta_pdf_vec Ga Gb Gab alpha beta x).
Proof.
  intros Ha Hb Hab. unfold beta_logpdf, beta_pdf_vec. cbv zeta.
  rewrite !bc_map, zip3_map3, combine_map_l, map_map.
  apply ln_rprod.
  pose proof (combine_Forall_fst (fun t : R * R * R => let '(x, y, z) := t in 0 < x /\ 0 < y /\ 0 < z)
                (zip3 (bc (length x) Ga) (bc (length x) Gb) (bc (length x) Gab))
                (zip3 (bc (length x) alpha) (bc (length x) beta) x)
                (zip3_Forall_all _ _ _ _ (bc_Forall _ _ _ Ha) (bc_Forall _ _ _ Hb) (bc_Forall _ _ _ Hab))) as H.
  eapply Forall_impl; [|exact H]. intros [[[ga gb] gab] [[al be] t]] [H1 [H2 H3]]. cbn [fst snd] in *. split.
  - unfold beta_pdf1. apply Rdiv_lt_0_compat.
    + apply Rmult_lt_0_compat; [apply Rmult_lt_0_compat; apply Rpower_pos | exact H3].
    + apply Rmult_lt_0_compat; assumption.
  - apply beta_term_doc; assumption.
Qed.

(* ---------- Lognormal with diagonal covariance V: product of the documented 1-d lognormal densities ---------- *)
Definition lognormal_term (a : R * R * R) : R := let '(m, s, t) := a in - ln t + normal_term (m, s, ln t).

Theorem lognormal_diag_doc V mean x :
  length V = length x -> (length mean = 1%nat \/ length mean = length x) ->
  Forall (fun v => 0 < v) V -> Forall (fun t => 0 < t) x ->
  lognormal_logpdf (gauss_diag_logpdf FCov false (length x) V mean (map ln x)) x =
  rsum (map lognormal_term (zip3 (bc (length x) mean) (map sqrt V) x)).
Proof.
  intros HV Hm Hpos Hx.
  rewrite lognormal_logpdf_doc by exact Hx.
  replace V with (map (gparam FCov) V) at 1 by (apply map_id).
  rewrite <- (map_length ln x) at 1. rewrite gauss_diag_vector_doc; rewrite ?map_length; try assumption.
  unfold normal_logpdf, normal_args. rewrite !map_length.
  rewrite (bc_same (length x) (map sqrt V)) by (rewrite map_length; exact HV).
  assert (Hlen : length (bc (length x) mean) = length x) by (apply bc_length; exact Hm).
  revert Hlen HV. generalize (bc (length x) mean) as M. clear. revert V.
  induction x as [|t x IH]; intros [|v V] [|m M] H1 H2; try discriminate.
  - cbn. lra.
  - cbn [length] in H1, H2. injection H1 as H1. injection H2 as H2. specialize (IH V M H1 H2).
    cbn [map zip3 rsum fold_right] in *. unfold rsum in *. unfold lognormal_term at 1. lra.
Qed.

(* ---------- magnitude: multiplying every length (mean, std, x) by c > 0 shifts the log-density by - n ln c;
   in particular the value is finite for every c > 0, however small or large ---------- *)
Lemma normal_term_scale c m s t : 0 < c -> 0 < s -> normal_term (c * m, c * s, c * t) = normal_term (m, s, t) - ln c.
Proof.
  intros Hc Hs. unfold normal_term. pose proof sqrt_2PI_pos.
  replace ((c * t - c * m) / (c * s)) with ((t - m) / s) by (field; lra).
  replace (c * s * sqrt (2 * PI)) with (c * (s * sqrt (2 * PI))) by ring.
  rewrite (ln_mult c) by (try apply Rmult_lt_0_compat; lra). lra.
Qed.

Theorem normal_logpdf_scale c mean std x : 0 < c -> Forall (fun s => 0 < s) std ->
  (length mean = 1%nat \/ length mean = length x) -> (length std = 1%nat \/ length std = length x) ->
  normal_logpdf (map (Rmult c) mean) (map (Rmult c) std) (map (Rmult c) x) = normal_logpdf mean std x - INR (length x) * ln c.
Proof.
  intros Hc Hs Hm Hsd. unfold normal_logpdf, normal_args. rewrite map_length, !bc_map, zip3_map3, map_map.
  pose proof (zip3_Forall2 (fun s => 0 < s) (bc (length x) mean) (bc (length x) std) x (bc_Forall _ _ _ Hs)) as H.
  pose proof (args3_length mean std x Hm Hsd) as Hlen.
  set (L := zip3 (bc (length x) mean) (bc (length x) std) x) in *.
  rewrite <- Hlen. clearbody L. clear Hlen.
  induction H as [|[[m s] t] L Hp _ IH]; cbn [map rsum fold_right length].
  - cbn. lra.
  - cbn [fst snd] in Hp. rewrite normal_term_scale by assumption. rewrite S_INR. unfold rsum in *. rewrite IH. lra.
Qed.

(* canonical Gaussian form: scaling all standard deviations by c adds 2 n ln c to logdet and leaves the quadratic form *)
Theorem gauss_canon_scale n logdet quad c :
  gauss_canon n (logdet + 2 * INR n * ln c) quad = gauss_canon n logdet quad - INR n * ln c.
Proof. unfold gauss_canon. lra. Qed.

(* ---------- supports: where the code returns -infinity (decisions over the exact float values, Q) ---------- *)
Local Open Scope Q_scope.

Lemma existsb_false_forall {A} (f : A -> bool) l : existsb f l = false <-> (forall a, In a l -> f a = false).
Proof.
  induction l as [|x l IH]; cbn; [tauto|]. rewrite orb_false_iff, IH. split.
  - intros [H1 H2] a [->|Ha]; auto.
  - intros H. split; [apply H; left; reflexivity | intros a Ha; apply H; right; exact Ha].
Qed.

Lemma Qlt_bool_false a b : Qlt_bool a b = false <-> b <= a.
Proof. unfold Qlt_bool. rewrite negb_false_iff. apply Qle_bool_iff. Qed.

(* Uniform: inside the box iff every coordinate lies between the (broadcast) bounds, boundary included *)
Theorem uniform_support low high x :
  uniform_outside low high x = false <->
  (forall p, In p (combine (qbc (length x) low) x) -> fst p <= snd p) /\
  (forall p, In p (combine (qbc (length x) high) x) -> snd p <= fst p).
Proof.
  unfold uniform_outside. cbv zeta. rewrite orb_false_iff, !existsb_false_forall.
  split; intros [H1 H2]; split; intros p Hp.
  - apply Qlt_bool_false. apply H1. exact Hp.
  - apply Qlt_bool_false. apply H2. exact Hp.
  - apply Qlt_bool_false. apply H1. exact Hp.
  - apply Qlt_bool_false. apply H2. exact Hp.
Qed.

(* Beta: finite iff all coordinates in the open unit interval and all shape parameters positive *)
Theorem beta_support alpha beta x :
  beta_outside alpha beta x = false <->
  (forall v, In v x -> 0 < v /\ v < 1) /\ (forall a, In a alpha -> 0 < a) /\ (forall b, In b beta -> 0 < b).
Proof.
  unfold beta_outside. rewrite !orb_false_iff, !existsb_false_forall.
  assert (E : forall a b, Qle_bool a b = false <-> b < a).
  { intros a b. split.
    - intros H. apply Qnot_le_lt. intros Hle. apply Qle_bool_iff in Hle. congruence.
    - intros H. destruct (Qle_bool a b) eqn:Eb; [|reflexivity]. apply Qle_bool_iff in Eb. exfalso. apply (Qlt_not_le _ _ H Eb). }
  split.
  - intros [[[H1 H2] H3] H4]. split; [|split].
    + intros v Hv. split; apply E; [apply H1 | apply H2]; exact Hv.
    + intros a Ha. apply E. apply H3. exact Ha.
    + intros b Hb. apply E. apply H4. exact Hb.
  - intros [H1 [H2 H3]]. split; [split; [split|]|].
    + intros v Hv. apply E. apply (H1 v Hv).
    + intros v Hv. apply E. apply (H1 v Hv).
    + intros a Ha. apply E. apply (H2 a Ha).
    + intros b Hb. apply E. apply (H3 b Hb).
Qed.

(* ---------- GMRF above MAX_DIM_INV: the logdet of the regularised precision P + delta I carries ln delta once per null direction;
   dividing the determinant by delta^k (fixes/C04_gmrf_large_logdet.diff) shifts the log-density by -(k/2) ln delta (about +9 per
   null direction for delta = 2^-26): the unrepaired value is too small by exactly that, whatever x ---------- *)
Local Open Scope R_scope.
Lemma ln_pow_nat d k : 0 < d -> ln (d ^ k) = INR k * ln d.
Proof.
  intros Hd. induction k as [|k IH]; [cbn; rewrite ln_1; lra|].
  rewrite <- tech_pow_Rmult, ln_mult by (try apply pow_lt; assumption). rewrite IH, S_INR. lra.
Qed.

Theorem gmrf_large_shift rank prec detarg delta k dd : 0 < detarg -> 0 < delta ->
  gmrf_logpdf rank prec (detarg / delta ^ k) dd = gmrf_logpdf rank prec detarg dd - / 2 * INR k * ln delta.
Proof.
  intros Hd Hdl. unfold gmrf_logpdf. unfold Rdiv at 1.
  rewrite (ln_mult detarg (/ delta ^ k)); [| exact Hd | apply Rinv_0_lt_compat; apply pow_lt; exact Hdl].
  rewrite ln_Rinv by (apply pow_lt; exact Hdl). rewrite ln_pow_nat by exact Hdl. lra.
Qed.
