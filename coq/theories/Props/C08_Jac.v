(* C08 (continued) -- volume preservation of the leapfrog integrator (mathcomp; kept apart from the list-based files). *)
From mathcomp Require Import all_ssreflect all_algebra.
From CVmc Require Import C08_Jac.
Set Implicit Arguments.
Unset Strict Implicit.
Unset Printing Implicit Defensive.
Local Open Scope ring_scope.

(* The three shears of which one leapfrog step is composed (C08_leapfrog_shear_partial) have the Jacobian matrices
   jac_kick h G1, jac_drift e, jac_kick h G2 (G1, G2 the Jacobian matrices of the gradient function at the old and the
   new point); their product -- by the chain rule the Jacobian of the step -- has determinant 1: every dimension n,
   every commutative ring, all G1, G2, h, e; and so has the product over a whole trajectory.
   What remains outside: the chain rule itself for a non-linear gradient (that the Jacobian of the composition is this
   product), which is why C08_leapfrog_shear_partial keeps its suffix. *)
Theorem C08_leapfrog_volume :
  forall (R : comRingType) (n : nat) (h e : R),
  (forall G1 G2 : 'M[R]_n, \det (jac_kick h G2 *m jac_drift n e *m jac_kick h G1) = 1) /\
  (forall Gs : seq ('M[R]_n * 'M[R]_n),
     \det (foldr (fun G12 J => (jac_kick h G12.2 *m jac_drift n e *m jac_kick h G12.1) *m J) 1%:M Gs) = 1).
Proof. move=> R n h e; split; [exact: det_jac_leapfrog | exact: det_jac_trajectory]. Qed.
Print Assumptions C08_leapfrog_volume.

(* For a linear gradient g(x) = G x -- every Gaussian target -- no chain rule is needed: the step IS multiplication by
   that matrix, so the leapfrog step of a Gaussian target preserves volume, in every dimension. *)
Theorem C08_leapfrog_volume_gaussian :
  forall (R : comRingType) (n : nat) (h e : R) (G : 'M[R]_n) (x r : 'cV[R]_n),
  let r1 := r + h *: (G *m x) in
  let x1 := x + e *: r1 in
  let r2 := r1 + h *: (G *m x1) in
  (jac_kick h G *m jac_drift n e *m jac_kick h G) *m col_mx x r = col_mx x1 r2
  /\ \det (jac_kick h G *m jac_drift n e *m jac_kick h G) = 1.
Proof. move=> R n h e G x r; exact: leapfrog_linear_matrix. Qed.
Print Assumptions C08_leapfrog_volume_gaussian.
