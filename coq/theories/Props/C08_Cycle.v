(* C08 -- The No-U-Turn sampler leaves its target invariant: the orbit kernel is doubly stochastic at every depth, the
   slice clause for the whole transition, and the lift from one unbounded orbit to CLOSED orbits (finite state spaces:
   trajectories that wrap around).  Property theorems only (exact + Print Assumptions). *)
From CV Require Import Base.Tac Base.Cmp Base.Ext Base.LinAlg Base.QcLin Model.C08_NUTS Model.C08_Kernel.
From CV Require Import Proofs.C08_Prog Proofs.C08_Tree Proofs.C08_Top Proofs.C08_Law Proofs.C08_Orbit Proofs.C08_Block Proofs.C08_Alive
                       Proofs.C08_Sim Proofs.C08_LeapD Proofs.C08_Cycle Proofs.C08_SliceTop Proofs.C08_Closed Proofs.C08_KernelLaw.
From Coq Require Import QArith Qcanon.
Local Open Scope Z_scope.

(* ---- every candidate selected by a transition lies in the slice (any state space) ------------------------------- *)
(* The start is in the slice (log u = H0 - Exp(1) <= H0).  Every outcome of positive probability of the COMPLETE
   transition -- any depth, any way of stopping, both samplers -- has its new state in the slice; in particular under any
   scripted stream of uniforms strictly inside (0,1); and the probability of any event confined to out-of-slice new states
   is 0.  (C08_selected_in_slice is the same for one BuildTree call; here the top-level acceptance min(1, n'/n) with
   n' = 0 is included.) *)
Theorem C08_transition_selected_in_slice :
  forall (S : Type) (leap : bool -> S -> S) (ham lgd : S -> ext) (uturn : S -> S -> bool) (alpha : S -> Q) (logu : ext)
         (guard : bool) (max_depth : nat) (s0 : S),
  in_slice S ham logu s0 = true ->
  all_pos (fun tp => in_slice S ham logu (p_cur tp) = true) (transition S leap ham lgd uturn alpha logu guard max_depth s0) /\
  (forall (us : list Q) log tp rest log', Forall (fun u => (0 < u /\ u < 1)%Q) us ->
     run (transition S leap ham lgd uturn alpha logu guard max_depth s0) us log = Some (tp, rest, log') ->
     in_slice S ham logu (p_cur tp) = true) /\
  (forall f : top S -> Q, (forall tp, in_slice S ham logu (p_cur tp) = true -> (f tp == 0)%Q) ->
     (dist (transition S leap ham lgd uturn alpha logu guard max_depth s0) f == 0)%Q).
Proof.
  intros S leap ham lgd uturn alpha logu guard md s0 H0. split; [|split].
  - exact (transition_cur_in_slice S leap ham lgd uturn alpha logu guard md s0 H0).
  - intros us log tp rest log' Hu Hr.
    exact (run_all_pos _ _ (transition_cur_in_slice S leap ham lgd uturn alpha logu guard md s0 H0) us log tp rest log' Hu Hr).
  - intros f Hf. exact (transition_out_of_slice_zero S leap ham lgd uturn alpha logu guard md s0 f H0 Hf).
Qed.
Print Assumptions C08_transition_selected_in_slice.

(* ---- the orbit kernel is doubly stochastic on the slice, EVERY depth ------------------------------------------- *)
(* P(i -> k) = probability that the complete transition started at orbit position i (stopping by a U-turn of a sub-tree
   or of the whole trajectory, by a divergence, by the depth bound all included: the state kept is the one selected before
   the doubling that stopped) ends at position k.  For EVERY max_depth, every U-turn predicate of the end points, every
   in/out/divergent labelling in which in-slice positions are not divergent (every finite slice variable), both samplers
   when the log-density is finite on the orbit:
     rows:    for every in-slice i,  sum over the in-slice k of P(i -> k) = 1   (and P(i -> k) = 0 for k outside the slice);
     columns: for every in-slice k,  sum over the in-slice i of P(i -> k) = 1.
   Columns = invariance of the uniform distribution on the in-slice orbit points (C08_orbit_stationary, re-exported here
   under the name the all-depth statement was announced with); the windows contain every position within reach. *)
Theorem C08_orbit_stationary_alldepth :
  forall (H L : Z -> ext) (U : Z -> Z -> bool) (A : Z -> Q) (logu : ext) (guard : bool),
  guard = false \/ (forall i, finite_logd Z L i = true) ->
  (forall i, sl H logu i = true -> nd H logu i = true) ->
  forall (max_depth : nat),
  let P := fun i k => dist (otransition H L U A logu guard max_depth i) (fun tp => if (p_cur tp =? k) then 1 else 0)%Q in
  let W := fun c => zr (c - pw (Datatypes.S max_depth)) (2 * 2 ^ Datatypes.S max_depth + 1) in
  (forall i, sl H logu i = true -> (qs (fun k => if sl H logu k then P i k else 0) (W i) == 1)%Q) /\
  (forall i k, sl H logu i = true -> sl H logu k = false -> (P i k == 0)%Q) /\
  (forall i k, ~ In k (W i) -> (P i k == 0)%Q) /\
  (forall k, sl H logu k = true -> (qs (fun i => if sl H logu i then P i k else 0) (W k) == 1)%Q).
Proof.
  intros H L U A logu guard Hf Hs md P W. split; [|split; [|split]].
  - intros i Hi. exact (orbit_rows H L U A logu guard md i Hi).
  - intros i k Hi Hk. apply (transition_out_of_slice_zero Z zleap H L U A logu guard md i); [exact Hi|].
    intros tp Hc. destruct (p_cur tp =? k) eqn:E; [|reflexivity]. apply Z.eqb_eq in E. unfold sl in Hk. congruence.
  - intros i k Hk. unfold P, otransition.
    transitivity (dist (transition Z zleap H L U A logu guard md i) (fun _ => 0%Q)); [|apply dist_const].
    apply (dist_ext_out _ _ _ _ (transition_reach H L U A logu guard md i)). intros tp Hr.
    destruct (p_cur tp =? k) eqn:E; [|reflexivity]. exfalso. apply Z.eqb_eq in E. apply Hk. apply zr_In. unfold pw in *. lia.
  - intros k Hk. exact (orbit_stationary H L U A logu guard Hf Hs md k Hk).
Qed.
Print Assumptions C08_orbit_stationary_alldepth.

(* ---- translations and relabelling ------------------------------------------------------------------------------ *)
(* the transition depends on the Hamiltonian / log-density / U-turn predicate / Metropolis probabilities only through their
   values (no funext needed anywhere), for every state space *)
Theorem C08_transition_congruence :
  forall (S : Type) (leap : bool -> S -> S) (ham ham' lgd lgd' : S -> ext) (uturn uturn' : S -> S -> bool) (alpha alpha' : S -> Q)
         (logu : ext),
  (forall s, ham' s = ham s) -> (forall s, lgd' s = lgd s) -> (forall a b, uturn' a b = uturn a b) -> (forall s, alpha' s = alpha s) ->
  forall guard max_depth s0,
  (forall us log, run (transition S leap ham' lgd' uturn' alpha' logu guard max_depth s0) us log
                  = run (transition S leap ham lgd uturn alpha logu guard max_depth s0) us log) /\
  (forall f, (dist (transition S leap ham' lgd' uturn' alpha' logu guard max_depth s0) f
              == dist (transition S leap ham lgd uturn alpha logu guard max_depth s0) f)%Q).
Proof.
  intros S leap ham ham' lgd lgd' uturn uturn' alpha alpha' logu Eh El Eu Ea guard md s0. split.
  - intros us log. apply peq_run. exact (transition_ext S leap ham ham' lgd lgd' uturn uturn' alpha alpha' logu Eh El Eu Ea guard md s0).
  - intros f. apply peq_dist. exact (transition_ext S leap ham ham' lgd lgd' uturn uturn' alpha alpha' logu Eh El Eu Ea guard md s0).
Qed.
Print Assumptions C08_transition_congruence.

(* ---- invariance on a CLOSED orbit: the lift to finite state spaces ------------------------------------------- *)
(* On a finite state space on which the two directions of the integrator undo each other every orbit closes up, and a
   trajectory of 2^j states may be longer than the orbit: states are visited, counted (n, n') and offered for selection
   several times, the U-turn test compares states that may coincide.  Hypotheses one can check: the directions undo
   each other on an invariant set containing s0, the orbit of s0 closes after N > 0 steps and not before, eqb decides
   equality, the non-finite guard does not interfere, in-slice states are not divergent.  Then for EVERY max_depth, every
   U-turn predicate, every Hamiltonian: the uniform distribution on the in-slice states of the closed orbit is invariant --
   for every in-slice state k of the orbit the sum over the in-slice states s of the orbit of P(s -> k) is 1.
   (phi = orb S leap s0 enumerates the orbit: phi 0 = s0, phi (i+1) = leap true (phi i); the N states phi a .. phi (a+N-1)
   are each state of the orbit exactly once.)
   What this does NOT yet say: the mixture over the slice variable and the momentum refreshment (the textbook step from
   "uniform on every slice is invariant" to "the target is invariant") and the passage from finite state spaces to R^2d. *)
Theorem C08_closed_orbit_stationary :
  forall (S : Type) (leap : bool -> S -> S) (Inv : S -> Prop),
  (forall v s, Inv s -> Inv (leap v s)) -> (forall v s, Inv s -> leap (negb v) (leap v s) = s) ->
  forall (s0 : S), Inv s0 ->
  forall (N : nat), (0 < N)%nat -> Nat.iter N (leap true) s0 = s0 ->
  (forall n, (0 < n < N)%nat -> Nat.iter n (leap true) s0 <> s0) ->
  forall (eqb : S -> S -> bool), (forall a b, eqb a b = true <-> a = b) ->
  forall (ham lgd : S -> ext) (uturn : S -> S -> bool) (alpha : S -> Q) (logu : ext) (guard : bool),
  let phi := orb S leap s0 in
  guard = false \/ (forall i, finite_logd S lgd (phi i) = true) ->
  (forall i, in_slice S ham logu (phi i) = true -> not_diverged S ham logu (phi i) = true) ->
  forall (max_depth : nat) (a k0 : Z), in_slice S ham logu (phi k0) = true ->
  (forall n : nat, phi (Z.of_nat n) = Nat.iter n (leap true) s0) /\
  (forall i j, phi i = phi j <-> (i - j) mod Z.of_nat N = 0) /\
  (qs (fun i => if in_slice S ham logu (phi i)
                then dist (transition S leap ham lgd uturn alpha logu guard max_depth (phi i))
                          (fun tp => if eqb (p_cur tp) (phi k0) then 1 else 0)
                else 0) (zr a N) == 1)%Q.
Proof.
  intros S leap Inv HI Hb s0 H0 N Npos Hc Hm eqb Heq ham lgd uturn alpha logu guard phi Hf Hs md a k0 Hk.
  subst phi. split; [|split].
  - intros n. eapply phi_nonneg; eassumption.
  - intros i j. split.
    + eapply phi_inj; eassumption.
    + intros E. apply Heq. erewrite phi_eqb; try eassumption. apply Z.eqb_eq, E.
  - eapply closed_orbit_stationary; eassumption.
Qed.
Print Assumptions C08_closed_orbit_stationary.

(* ... the same for a labelling of Z with period N (the form in which it is proved: the kernel folded onto the classes
   modulo N; any fundamental domain [a, a+N)) *)
Theorem C08_periodic_orbit_stationary :
  forall (H L : Z -> ext) (U : Z -> Z -> bool) (A : Z -> Q) (logu : ext) (guard : bool) (N : nat), (0 < N)%nat ->
  (forall i, H (i + Z.of_nat N) = H i) -> (forall i, L (i + Z.of_nat N) = L i) ->
  (forall a b, U (a + Z.of_nat N) (b + Z.of_nat N) = U a b) -> (forall i, A (i + Z.of_nat N) = A i) ->
  guard = false \/ (forall i, finite_logd Z L i = true) ->
  (forall i, sl H logu i = true -> nd H logu i = true) ->
  forall (max_depth : nat) (a k0 : Z), sl H logu k0 = true ->
  (qs (fun i => if sl H logu i
                then dist (otransition H L U A logu guard max_depth i)
                          (fun tp => if ((p_cur tp - k0) mod Z.of_nat N =? 0) then 1 else 0)
                else 0) (zr a N) == 1)%Q.
Proof.
  intros H L U A logu guard N Npos pH pL pU pA Hf Hs md a k0 Hk.
  exact (zcycle_stationary H L U A logu guard N Npos pH pL pU pA Hf Hs md a k0 Hk).
Qed.
Print Assumptions C08_periodic_orbit_stationary.

(* ... and the concrete phase-space model that the correspondence compares leaf by leaf with both implementations is an
   instance: for every well-formed d-dimensional target of the harness, every step size and start whose leapfrog orbit
   closes after N steps, every finite slice variable ("in the slice implies not divergent" is then a fact) *)
Theorem C08_concrete_closed_orbit_stationary :
  forall (t : target) (d : nat) (guard : bool) (heps : Qc) (x z : list Qc) (u : Q) (N : nat),
  wf_target t d -> length x = d -> length z = d ->
  let s0 := c_init t x z in
  let phi := orb cstate (c_leap t heps) s0 in
  (0 < N)%nat -> Nat.iter N (c_leap t heps true) s0 = s0 ->
  (forall n, (0 < n < N)%nat -> Nat.iter n (c_leap t heps true) s0 <> s0) ->
  guard = false \/ (forall i, finite_logd cstate (c_lgd t) (phi i) = true) ->
  forall (max_depth : nat) (a k0 : Z), in_slice cstate (c_ham t) (Fin u) (phi k0) = true ->
  (qs (fun i => if in_slice cstate (c_ham t) (Fin u) (phi i)
                then dist (transition cstate (c_leap t heps) (c_ham t) (c_lgd t) c_uturn_ok (fun _ => 0%Q) (Fin u) guard max_depth (phi i))
                          (fun tp => b2q (cs_eqb (p_cur tp) (phi k0)))
                else 0) (zr a N) == 1)%Q.
Proof.
  intros t d guard heps x z u N Hw Hx Hz s0 phi Npos Hc Hm Hf md a k0 Hk.
  exact (concrete_closed_orbit_stationary t d guard heps x z u N Hw Hx Hz Npos Hc Hm Hf md a k0 Hk).
Qed.
Print Assumptions C08_concrete_closed_orbit_stationary.

(* ... in the form the closed-orbit cells of the correspondence instantiate: `check_cycle t heps x z N = true` is evaluated by
   the kernel on the inputs of every such cell (the model's orbit through the start closes after exactly N steps), the
   target is a Gaussian / any well-formed target of dimension length x, the log-density is finite on the orbit *)
Theorem C08_concrete_closed_orbit_checked :
  forall (t : target) (guard : bool) (heps : Qc) (x z : list Q) (u : Q) (N : nat),
  wf_target t (length x) -> check_cycle t heps x z N = true ->
  let s0 := c_init t (qvec x) (qvec z) in
  let phi := orb cstate (c_leap t heps) s0 in
  guard = false \/ (forall i, finite_logd cstate (c_lgd t) (phi i) = true) ->
  forall (max_depth : nat) (a k0 : Z), in_slice cstate (c_ham t) (Fin u) (phi k0) = true ->
  (qs (fun i => if in_slice cstate (c_ham t) (Fin u) (phi i)
                then dist (transition cstate (c_leap t heps) (c_ham t) (c_lgd t) c_uturn_ok (fun _ => 0%Q) (Fin u) guard max_depth (phi i))
                          (fun tp => b2q (cs_eqb (p_cur tp) (phi k0)))
                else 0) (zr a N) == 1)%Q.
Proof.
  intros t guard heps x z u N Hw Hc s0 phi Hf md a k0 Hk.
  destruct (check_cycle_sound t heps x z N Hc) as (Npos & Hl & Hclose & Hmin).
  assert (Hx : length (qvec x) = length x) by (unfold qvec; apply map_length).
  exact (concrete_closed_orbit_stationary t (length x) guard heps (qvec x) (qvec z) u N Hw Hx (eq_trans (eq_sym Hl) Hx) Npos Hclose Hmin Hf md a k0 Hk).
Qed.
Print Assumptions C08_concrete_closed_orbit_checked.

(* ---- what the kernel-law cells compare with the real samplers is the orbit kernel ------------------------------ *)
(* kernel_prob (Model/C08_Kernel.v) is the quantity that check_kernel equates, rational for rational, with the enumerated
   law of the new point of both real samplers.  It is the sum, over the orbit positions i within reach whose point is pt, of
   the entry P(0 -> i) of the orbit kernel of C08_orbit_stationary_alldepth (the orbit labelled through the orbit map of the
   start): the kernel whose double stochasticity is proved is the kernel the implementations are compared with. *)
Theorem C08_kernel_law_is_orbit_kernel :
  forall (t : target) (d : nat) (guard : bool) (max_depth : nat) (heps : Qc) (x z : list Q) (e : Q) (pt : list Q),
  wf_target t d -> length x = d -> length z = d ->
  let s0 := c_init t (qvec x) (qvec z) in
  let logu := ext_sub (c_ham t s0) (Fin e) in
  let phi := orb cstate (c_leap t heps) s0 in
  (kernel_prob t guard max_depth heps x z e pt
   == qs (fun i => if ql_eqb (map this (ps_x (phi i))) pt
                   then dist (otransition (Hz cstate (c_ham t) phi) (Lz cstate (c_lgd t) phi) (Uz cstate c_uturn_ok phi)
                                          (Az cstate (fun _ => 0%Q) phi) logu guard max_depth 0)
                             (fun tp => if (p_cur tp =? i) then 1 else 0)
                   else 0)
         (zr (0 - pw (Datatypes.S max_depth)) (2 * 2 ^ Datatypes.S max_depth + 1)))%Q.
Proof.
  intros t d guard md heps x z e pt Hw Hx Hz s0 logu phi.
  exact (kernel_prob_orbit t d guard md heps x z e pt Hw Hx Hz).
Qed.
Print Assumptions C08_kernel_law_is_orbit_kernel.

(* ---- non-vacuity ------------------------------------------------------------------------------------------------ *)
(* N(0, 1/2) with step size 1 (heps = 1/2), started at x = 1 with momentum 1/2: the leapfrog map has order 4, the orbit is
   (1, 1/2) -> (1/2, -1) -> (-1, -1/2) -> (-1/2, 1) -> back, with Hamiltonians -9/8, -6/8, -9/8, -6/8; the slice variable
   log u = -1 cuts it (two of the four states are in the slice); all hypotheses of C08_concrete_closed_orbit_stationary
   hold, and for max_depth = 2 (trajectories of up to 8 states: twice around the orbit) the column sum at phi 1 is
   computed to be 1 *)
Example C08_closed_orbit_example :
  let t := TGauss [qc 2] in let heps := qc (1 # 2) in let x := [qc 1] in let z := [qc (1 # 2)] in
  let s0 := c_init t x z in let phi := orb cstate (c_leap t heps) s0 in
  wf_target t 1 /\ Nat.iter 4 (c_leap t heps true) s0 = s0 /\
  (forall n, (0 < n < 4)%nat -> Nat.iter n (c_leap t heps true) s0 <> s0) /\
  (forall i, finite_logd cstate (c_lgd t) (phi i) = true) /\
  map (fun i => in_slice cstate (c_ham t) (Fin (-1 # 1)) (phi i)) [0; 1; 2; 3] = [false; true; false; true] /\
  (qs (fun i => if in_slice cstate (c_ham t) (Fin (-1 # 1)) (phi i)
                then dist (transition cstate (c_leap t heps) (c_ham t) (c_lgd t) c_uturn_ok (fun _ => 0%Q) (Fin (-1 # 1)) true 2 (phi i))
                          (fun tp => b2q (cs_eqb (p_cur tp) (phi 1%Z)))
                else 0) (zr 0 4) == 1)%Q.
Proof.
  cbv zeta. split; [reflexivity | split; [|split; [|split; [|split]]]].
  - apply cs_eqb_spec. vm_compute. reflexivity.
  - intros n Hn E. apply cs_eqb_spec in E.
    assert (Hc : n = 1%nat \/ n = 2%nat \/ n = 3%nat) by lia.
    destruct Hc as [-> | [-> | ->]]; vm_compute in E; discriminate.
  - intros i. reflexivity.
  - vm_compute. reflexivity.
  - vm_compute. reflexivity.
Qed.

(* the hypotheses of C08_orbit_stationary_alldepth / C08_periodic_orbit_stationary / C08_transition_selected_in_slice are
   satisfiable: a labelling with period 3 (Hamiltonians 0, -1, -3 repeated), finite slice variable -2 (two of three
   positions in the slice, none divergent), a U-turn predicate depending on the end points modulo 3; the folded column sum
   at class 0 for max_depth 1 is computed to be 1 *)
Example C08_alldepth_example :
  let H := fun i : Z => if (i mod 3 =? 0) then Fin 0 else if (i mod 3 =? 1) then Fin (-1 # 1) else Fin (-3 # 1) in
  let U := fun a b : Z => negb ((a mod 3 =? 0) && (b mod 3 =? 2)) in
  (forall i, H (i + Z.of_nat 3) = H i) /\ (forall a b, U (a + Z.of_nat 3) (b + Z.of_nat 3) = U a b) /\
  (forall i, finite_logd Z H i = true) /\
  (forall i, sl H (Fin (-2 # 1)) i = true -> nd H (Fin (-2 # 1)) i = true) /\
  sl H (Fin (-2 # 1)) 0 = true /\ in_slice Z H (Fin (-2 # 1)) 0 = true /\
  (qs (fun i => if sl H (Fin (-2 # 1)) i
                then dist (otransition H H U (fun _ => 0%Q) (Fin (-2 # 1)) true 1 i)
                          (fun tp => if ((p_cur tp - 0) mod Z.of_nat 3 =? 0) then 1 else 0)
                else 0) (zr 0 3) == 1)%Q.
Proof.
  cbv zeta. split; [|split; [|split; [|split; [|split; [|split]]]]].
  - intros i. replace ((i + Z.of_nat 3) mod 3) with (i mod 3); [reflexivity|].
    change (Z.of_nat 3) with (1 * 3). rewrite Z.mod_add; lia.
  - intros a b. replace ((a + Z.of_nat 3) mod 3) with (a mod 3) by (change (Z.of_nat 3) with (1 * 3); rewrite Z.mod_add; lia).
    replace ((b + Z.of_nat 3) mod 3) with (b mod 3) by (change (Z.of_nat 3) with (1 * 3); rewrite Z.mod_add; lia). reflexivity.
  - intros i. unfold finite_logd. destruct (i mod 3 =? 0); [reflexivity|]. destruct (i mod 3 =? 1); reflexivity.
  - intros i. apply sl_nd_fin.
  - reflexivity.
  - reflexivity.
  - vm_compute. reflexivity.
Qed.
