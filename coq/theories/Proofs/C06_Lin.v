(* C06 -- list-level linear algebra for the stacked RTO operator, every size and every number of likelihoods,
   over any commutative ring: the adjoint identity of M, and the expansion of its normal equations into the
   user-level posterior (H, rhs). *)
From CV Require Import Base.Tac Base.LinAlg Model.C06_RTO.
From Coq Require Import Ring.

Section Lin.
Variable R : Type.
Variables (r0 r1 : R) (radd rmul rsub : R -> R -> R) (ropp : R -> R).
Hypothesis Rth : ring_theory r0 r1 radd rmul rsub ropp (@eq R).
Add Ring Rring2 : Rth.

Notation vec := (list R).
Notation mat := (list (list R)).
Notation Dot := (dot r0 radd rmul).
Notation Matvec := (matvec r0 radd rmul).
Notation Mattvec := (mattvec r0 radd rmul).
Notation Vadd := (vadd radd).
Notation Vsub := (vsub rsub).
Notation Vscale := (vscale rmul).
Notation Vzero := (vzero r0).
Notation "x + y" := (radd x y).
Notation "x * y" := (rmul x y).

Let adjI := adjoint_identity R r0 r1 radd rmul rsub ropp Rth.
Let dot_add_r := dot_vadd_r R r0 r1 radd rmul rsub ropp Rth.
Let dot_z_r := dot_vzero_r R r0 r1 radd rmul rsub ropp Rth.
Let add_z_r := vadd_vzero_r R r0 r1 radd rmul rsub ropp Rth.

(* ---------- small list facts ---------- *)
Lemma vadd_comm x y : Vadd x y = Vadd y x.
Proof. revert y; induction x as [|a x IH]; intros [|b y]; simpl; try reflexivity. rewrite IH. f_equal. ring. Qed.

Lemma vadd_assoc x y z : Vadd (Vadd x y) z = Vadd x (Vadd y z).
Proof.
  revert y z; induction x as [|a x IH]; intros [|b y] [|c z]; simpl; try reflexivity.
  rewrite IH. f_equal. ring.
Qed.

Lemma vadd_vzero_l x n : length x = n -> Vadd (Vzero n) x = x.
Proof. intros H. rewrite vadd_comm. apply add_z_r. exact H. Qed.

Lemma vadd_len x y n : length x = n -> length y = n -> length (Vadd x y) = n.
Proof. intros Hx Hy. rewrite vadd_length; lia. Qed.

Lemma dot_app u v y :
  Dot (u ++ v) y = Dot u (firstn (length u) y) + Dot v (skipn (length u) y).
Proof.
  revert y; induction u as [|a u IH]; intros y; simpl.
  - ring.
  - destruct y as [|b y]; simpl.
    + rewrite (dot_nil_r R r0 radd rmul). ring.
    + rewrite IH. ring.
Qed.

Lemma dot_vzero_r' n x : Dot x (Vzero n) = r0.
Proof. apply dot_z_r. Qed.

Lemma firstn_app_exact {A} (u v : list A) : firstn (length u) (u ++ v) = u.
Proof. rewrite firstn_app, Nat.sub_diag, firstn_all. simpl. apply app_nil_r. Qed.

Lemma skipn_app_exact {A} (u v : list A) : skipn (length u) (u ++ v) = v.
Proof. rewrite skipn_app, Nat.sub_diag, skipn_all. reflexivity. Qed.

Lemma skipn_skipn' {A} a b (l : list A) : skipn a (skipn b l) = skipn (b + a) l.
Proof. revert l; induction b as [|b IH]; intros l; simpl; [reflexivity|]. destruct l; [destruct a; reflexivity | apply IH]. Qed.

Lemma vadd_app u1 u2 v1 v2 : length u1 = length v1 ->
  Vadd (u1 ++ u2) (v1 ++ v2) = Vadd u1 v1 ++ Vadd u2 v2.
Proof.
  revert v1; induction u1 as [|a u IH]; intros [|b v] H; simpl in *; try lia; try reflexivity.
  f_equal. apply IH. lia.
Qed.

Lemma vscale_add c u v : Vscale c (Vadd u v) = Vadd (Vscale c u) (Vscale c v).
Proof.
  revert v; induction u as [|a u IH]; intros [|b v]; simpl; try reflexivity.
  f_equal; [ring | apply IH].
Qed.

Lemma vscale_radd a b u : Vscale (a + b) u = Vadd (Vscale a u) (Vscale b u).
Proof. induction u as [|c u IH]; simpl; [reflexivity|]. f_equal; [ring | apply IH]. Qed.

Lemma vadd_swap4 a b c d : Vadd (Vadd a b) (Vadd c d) = Vadd (Vadd a c) (Vadd b d).
Proof.
  rewrite !vadd_assoc. f_equal. rewrite <- !vadd_assoc. f_equal. apply vadd_comm.
Qed.

(* A^T (u + v) = A^T u + A^T v *)
Lemma mattvec_vadd n A u v : wf_mat n A -> length u = length v ->
  Mattvec n A (Vadd u v) = Vadd (Mattvec n A u) (Mattvec n A v).
Proof.
  intros H; revert u v; induction H as [|row A Hr HA IH]; intros u v Huv.
  - destruct u, v; simpl; rewrite ?add_z_r; try reflexivity; apply vzero_length.
  - destruct u as [|a u], v as [|b v]; simpl in *; try lia.
    + rewrite add_z_r; [reflexivity | apply vzero_length].
    + rewrite IH by lia. rewrite vscale_radd. apply vadd_swap4.
Qed.

Lemma matvec_app A B x : Matvec (A ++ B) x = Matvec A x ++ Matvec B x.
Proof. unfold matvec. apply map_app. Qed.

Lemma mattvec_app n A B u v : wf_mat n A -> wf_mat n B -> length u = length A ->
  Mattvec n (A ++ B) (u ++ v) = Vadd (Mattvec n A u) (Mattvec n B v).
Proof.
  intros HA HB; revert u; induction HA as [|row A Hr HA' IH]; intros u Hu.
  - destruct u; simpl in *; try lia. rewrite vadd_vzero_l; [reflexivity|]. apply mattvec_length. exact HB.
  - destruct u as [|a u]; simpl in *; try lia. rewrite IH by lia. symmetry. apply vadd_assoc.
Qed.

(* ---------- well-formedness of a configuration ---------- *)
(* a linear model between R^n and R^m with its adjoint (what C07 establishes for cuqi's LinearModel) *)
Record model_wf (n m : nat) (M : lmodel R) : Prop := {
  fwd_len : forall x, length x = n -> length (fwd M x) = m;
  adj_len : forall y, length y = m -> length (adj M y) = n;
  adj_id  : forall x y, length x = n -> length y = m -> Dot (fwd M x) y = Dot x (adj M y);
  adj_add : forall u v, length u = m -> length v = m -> adj M (Vadd u v) = Vadd (adj M u) (adj M v)
}.

Definition lik_wf (n : nat) (l : lik R) : Prop :=
  let m := length (l_data l) in
  wf_mat m (l_L l) /\ length (l_L l) = m /\ model_wf n m (l_model l).

Lemma matrix_model_wf n A : wf_mat n A -> model_wf n (length A) (matrix_model R r0 radd rmul n A).
Proof.
  intros H. split; simpl.
  - intros x _. apply matvec_length.
  - intros y _. apply mattvec_length. exact H.
  - intros x y Hx _. apply adjI; assumption.
  - intros u v Hu Hv. apply mattvec_vadd; [exact H | lia].
Qed.

Fixpoint rows (liks : list (lik R)) : nat :=
  match liks with [] => 0 | l :: r => length (l_data l) + rows r end.

(* the value of the flag-2 loop *)
Fixpoint adj_sum (n : nat) (liks : list (lik R)) (y : vec) : vec :=
  match liks with
  | [] => Vzero n
  | l :: r => let m := length (l_data l) in
              Vadd (adj (l_model l) (Mattvec m (l_L l) (firstn m y))) (adj_sum n r (skipn m y))
  end.

Lemma adj_term_len n l y : lik_wf n l ->
  length (adj (l_model l) (Mattvec (length (l_data l)) (l_L l) (firstn (length (l_data l)) y))) = n.
Proof. intros (HL & _ & HM). apply (adj_len _ _ _ HM). apply mattvec_length. exact HL. Qed.

Lemma adj_sum_len n liks y : Forall (lik_wf n) liks -> length (adj_sum n liks y) = n.
Proof.
  intros H; revert y; induction H as [|l r Hl Hr IH]; intros y; simpl.
  - apply vzero_length.
  - apply vadd_len; [apply adj_term_len; exact Hl | apply IH].
Qed.

Lemma M_adj_liks_spec n liks : Forall (lik_wf n) liks -> forall y acc, length acc = n ->
  M_adj_liks R r0 radd rmul liks y acc = (Vadd acc (adj_sum n liks y), skipn (rows liks) y).
Proof.
  intros H; induction H as [|l r Hl Hr IH]; intros y acc Hacc; simpl.
  - rewrite add_z_r by exact Hacc. reflexivity.
  - rewrite IH.
    + rewrite vadd_assoc. rewrite skipn_skipn'. reflexivity.
    + apply vadd_len; [exact Hacc | apply adj_term_len; exact Hl].
Qed.

Lemma M_adj_spec n liks pr y : Forall (lik_wf n) liks ->
  M_adj R r0 radd rmul n liks pr y = Vadd (adj_sum n liks y) (Mattvec n (p_L pr) (skipn (rows liks) y)).
Proof.
  intros H. unfold M_adj. rewrite (M_adj_liks_spec n liks H) by apply vzero_length.
  rewrite vadd_vzero_l by (apply adj_sum_len; exact H). reflexivity.
Qed.

(* ---------- T1: the stacked operator's flag-2 action is the exact transpose of its flag-1 action ---------- *)
Lemma fwd_part_adjoint n liks : Forall (lik_wf n) liks -> forall x tail y, length x = n ->
  Dot (concat (map (fun l => Matvec (l_L l) (fwd (l_model l) x)) liks) ++ tail) y
  = Dot x (adj_sum n liks y) + Dot tail (skipn (rows liks) y).
Proof.
  intros H; induction H as [|l r Hl Hr IH]; intros x tail y Hx; simpl.
  - rewrite dot_vzero_r'. ring.
  - rewrite <- app_assoc, dot_app, matvec_length.
    destruct Hl as (HL & HLl & HM). unfold LinAlg.vec, LinAlg.mat in *. rewrite HLl.
    rewrite IH by exact Hx.
    rewrite (adjI _ _ _ _ HL) by (apply (fwd_len _ _ _ HM); exact Hx).
    rewrite (adj_id _ _ _ HM) by (try exact Hx; apply mattvec_length; exact HL).
    rewrite dot_add_r.
    + rewrite skipn_skipn'. ring.
    + rewrite (adj_len _ _ _ HM) by (apply mattvec_length; exact HL). symmetry. apply adj_sum_len. exact Hr.
Qed.

Theorem M_adjoint n liks pr x y :
  Forall (lik_wf n) liks -> wf_mat n (p_L pr) -> length x = n ->
  Dot (M_fwd R r0 radd rmul liks pr x) y = Dot x (M_adj R r0 radd rmul n liks pr y).
Proof.
  intros H HP Hx. unfold M_fwd. rewrite (fwd_part_adjoint n liks H) by exact Hx.
  rewrite M_adj_spec by exact H.
  rewrite dot_add_r.
  - rewrite (adjI _ _ _ _ HP) by exact Hx. reflexivity.
  - rewrite adj_sum_len by exact H. symmetry. apply mattvec_length. exact HP.
Qed.

(* ---------- T2: M^T applied to a stacked vector ---------- *)
Lemma adj_sum_stacked n liks : Forall (lik_wf n) liks -> forall (g : lik R -> vec) tail,
  (forall l, In l liks -> length (g l) = length (l_data l)) ->
  adj_sum n liks (concat (map g liks) ++ tail)
  = vsum_list R r0 radd n (map (fun l => adj (l_model l) (Mattvec (length (l_data l)) (l_L l) (g l))) liks)
  /\ skipn (rows liks) (concat (map g liks) ++ tail) = tail.
Proof.
  intros H; induction H as [|l r Hl Hr IH]; intros g tail Hg; simpl.
  - split; reflexivity.
  - assert (E : length (g l) = length (l_data l)) by (apply Hg; left; reflexivity).
    destruct (IH g tail) as [I1 I2]; [intros l' Hl'; apply Hg; right; exact Hl'|].
    rewrite <- app_assoc. rewrite <- E.
    rewrite firstn_app_exact, skipn_app_exact, I1. split; [reflexivity|].
    rewrite <- skipn_skipn', skipn_app_exact. exact I2.
Qed.

(* M^T [g_1; ...; g_k; t] = sum_i adj_i (L_i^T g_i) + L2^T t *)
Lemma M_adj_stacked n liks pr (g : lik R -> vec) tail :
  Forall (lik_wf n) liks -> (forall l, In l liks -> length (g l) = length (l_data l)) ->
  M_adj R r0 radd rmul n liks pr (concat (map g liks) ++ tail)
  = Vadd (vsum_list R r0 radd n (map (fun l => adj (l_model l) (Mattvec (length (l_data l)) (l_L l) (g l))) liks))
         (Mattvec n (p_L pr) tail).
Proof.
  intros H Hg. rewrite M_adj_spec by exact H.
  destruct (adj_sum_stacked n liks H g tail Hg) as [E1 E2]. rewrite E1, E2. reflexivity.
Qed.

(* the code-level normal operator and right-hand side *)
Definition H_code (n : nat) (liks : list (lik R)) (pr : prior R) (x : vec) : vec :=
  Vadd (vsum_list R r0 radd n (map (fun l => adj (l_model l) (Mattvec (length (l_data l)) (l_L l)
                                             (Matvec (l_L l) (fwd (l_model l) x)))) liks))
       (Mattvec n (p_L pr) (Matvec (p_L pr) x)).
Definition rhs_code (n : nat) (liks : list (lik R)) (pr : prior R) : vec :=
  Vadd (vsum_list R r0 radd n (map (fun l => adj (l_model l) (Mattvec (length (l_data l)) (l_L l)
                                             (Matvec (l_L l) (l_data l)))) liks))
       (Mattvec n (p_L pr) (p_Lmu pr)).

Lemma MtM_code n liks pr x : Forall (lik_wf n) liks ->
  M_adj R r0 radd rmul n liks pr (M_fwd R r0 radd rmul liks pr x) = H_code n liks pr x.
Proof.
  intros H. unfold M_fwd, H_code.
  apply (M_adj_stacked n liks pr (fun l => Matvec (l_L l) (fwd (l_model l) x))); [exact H|].
  intros l Hl. rewrite matvec_length. rewrite Forall_forall in H. destruct (H l Hl) as (_ & E & _). exact E.
Qed.

Lemma Mtb_code n liks pr : Forall (lik_wf n) liks ->
  M_adj R r0 radd rmul n liks pr (b_tild R r0 radd rmul liks pr) = rhs_code n liks pr.
Proof.
  intros H. unfold b_tild, rhs_code.
  apply (M_adj_stacked n liks pr (fun l => Matvec (l_L l) (l_data l))); [exact H|].
  intros l Hl. rewrite matvec_length. rewrite Forall_forall in H. destruct (H l Hl) as (_ & E & _). exact E.
Qed.

(* M^T is additive on vectors of the stacked length *)
Lemma adj_sum_vadd n liks : Forall (lik_wf n) liks -> forall u v,
  length u = length v -> (rows liks <= length u)%nat ->
  adj_sum n liks (Vadd u v) = Vadd (adj_sum n liks u) (adj_sum n liks v).
Proof.
  intros H; induction H as [|l r Hl Hr IH]; intros u v Huv Hlen; simpl in *.
  - rewrite add_z_r; [reflexivity | apply vzero_length].
  - set (m := length (l_data l)) in *.
    assert (Hsplit : forall w : vec, w = firstn m w ++ skipn m w) by (intros; symmetry; apply firstn_skipn).
    assert (F : firstn m (Vadd u v) = Vadd (firstn m u) (firstn m v) /\ skipn m (Vadd u v) = Vadd (skipn m u) (skipn m v)).
    { rewrite (Hsplit u) at 1 3. rewrite (Hsplit v) at 1 3.
      assert (L1 : length (firstn m u) = m) by (apply firstn_length_le; lia).
      assert (L2 : length (firstn m v) = m) by (apply firstn_length_le; lia).
      rewrite vadd_app by lia.
      assert (L3 : length (Vadd (firstn m u) (firstn m v)) = m) by (apply vadd_len; assumption).
      split.
      - rewrite <- L3 at 1. apply firstn_app_exact.
      - rewrite <- L3 at 1. apply skipn_app_exact. }
    destruct F as [F1 F2]. rewrite F1, F2.
    destruct Hl as (HL & HLl & HM).
    assert (L1 : length (firstn m u) = m) by (apply firstn_length_le; lia).
    assert (L2 : length (firstn m v) = m) by (apply firstn_length_le; lia).
    rewrite mattvec_vadd by (try exact HL; lia).
    rewrite (adj_add _ _ _ HM) by (apply mattvec_length; exact HL).
    rewrite IH by (rewrite ?skipn_length; lia).
    apply vadd_swap4.
Qed.

Lemma M_adj_vadd n liks pr u v : Forall (lik_wf n) liks -> wf_mat n (p_L pr) ->
  length u = length v -> (rows liks <= length u)%nat ->
  M_adj R r0 radd rmul n liks pr (Vadd u v)
  = Vadd (M_adj R r0 radd rmul n liks pr u) (M_adj R r0 radd rmul n liks pr v).
Proof.
  intros H HP Huv Hlen. rewrite !M_adj_spec by exact H.
  rewrite adj_sum_vadd by assumption.
  assert (S : skipn (rows liks) (Vadd u v) = Vadd (skipn (rows liks) u) (skipn (rows liks) v)).
  { set (m := rows liks) in *.
    rewrite <- (firstn_skipn m u) at 1. rewrite <- (firstn_skipn m v) at 1.
    assert (L1 : length (firstn m u) = m) by (apply firstn_length_le; lia).
    assert (L2 : length (firstn m v) = m) by (apply firstn_length_le; lia).
    rewrite vadd_app by lia.
    assert (L3 : length (Vadd (firstn m u) (firstn m v)) = m) by (apply vadd_len; assumption).
    rewrite <- L3 at 1. apply skipn_app_exact. }
  rewrite S. rewrite mattvec_vadd by (try exact HP; rewrite !skipn_length; lia).
  apply vadd_swap4.
Qed.

Lemma b_tild_len liks pr : Forall (fun l => length (l_L l) = length (l_data l)) liks ->
  length (b_tild R r0 radd rmul liks pr) = (rows liks + length (p_Lmu pr))%nat.
Proof.
  intros H. unfold b_tild. rewrite app_length. f_equal.
  induction H as [|l r Hl Hr IH]; simpl; [reflexivity|].
  rewrite app_length, matvec_length, IH. unfold LinAlg.mat, LinAlg.vec in *. rewrite Hl. reflexivity.
Qed.

(* ---------- T3: with the laws of the square roots, code-level = user-level ---------- *)
(* S is a square root of the precision P:  S^T (S v) = P v *)
Definition sqrt_law (n : nat) (S P : mat) : Prop := forall v, length v = n -> Mattvec n S (Matvec S v) = Matvec P v.

(* a user-level likelihood u stands for the code-level likelihood l: same model and data, and the code's
   sqrtprec is a square root of the user's precision *)
Definition lik_repr (l : lik R) (u : ulik R) : Prop :=
  u_model u = l_model l /\ u_data u = l_data l /\ sqrt_law (length (l_data l)) (l_L l) (u_prec u).

Lemma lik_terms_user n liks uls x : Forall (lik_wf n) liks -> Forall2 lik_repr liks uls -> length x = n ->
  vsum_list R r0 radd n (map (fun l => adj (l_model l) (Mattvec (length (l_data l)) (l_L l)
                                         (Matvec (l_L l) (fwd (l_model l) x)))) liks)
  = vsum_list R r0 radd n (map (fun u => adj (u_model u) (Matvec (u_prec u) (fwd (u_model u) x))) uls) /\
  vsum_list R r0 radd n (map (fun l => adj (l_model l) (Mattvec (length (l_data l)) (l_L l)
                                         (Matvec (l_L l) (l_data l)))) liks)
  = vsum_list R r0 radd n (map (fun u => adj (u_model u) (Matvec (u_prec u) (u_data u))) uls).
Proof.
  intros H HR Hx. induction HR as [|l u liks' uls' (E1 & E2 & E3) HR' IH]; simpl; [split; reflexivity|].
  pose proof (Forall_inv H) as Hw. pose proof (Forall_inv_tail H) as Hws.
  destruct (IH Hws) as [I1 I2]. rewrite I1, I2, E1, E2.
  destruct Hw as (_ & _ & HM).
  rewrite E3 by (apply (fwd_len _ _ _ HM); exact Hx).
  rewrite E3 by reflexivity. split; reflexivity.
Qed.

(* the prior object stands for the independent Gaussian factors pfs = [(P_j, mu_j)] *)
Definition prior_repr (n : nat) (pr : prior R) (pfs : list (mat * vec)) : Prop :=
  (forall v, length v = n -> Mattvec n (p_L pr) (Matvec (p_L pr) v) = vsum_list R r0 radd n (map (fun pf => Matvec (fst pf) v) pfs)) /\
  Mattvec n (p_L pr) (p_Lmu pr) = vsum_list R r0 radd n (map (fun pf => Matvec (fst pf) (snd pf)) pfs).

Theorem code_is_user n liks pr uls pfs x :
  Forall (lik_wf n) liks -> Forall2 lik_repr liks uls -> prior_repr n pr pfs -> length x = n ->
  H_code n liks pr x = H_apply R r0 radd rmul n uls pfs x /\
  rhs_code n liks pr = rhs_apply R r0 radd rmul n uls pfs.
Proof.
  intros H HR [HP1 HP2] Hx. unfold H_code, rhs_code, H_apply, rhs_apply.
  destruct (lik_terms_user n liks uls x H HR Hx) as [E1 E2].
  rewrite E1, E2, HP1, HP2 by exact Hx. split; reflexivity.
Qed.

(* T2 + T3: the normal equations of the stacked system ARE the posterior's linear system, perturbed by M^T e *)
Theorem normal_eq_user n liks pr uls pfs e x :
  Forall (lik_wf n) liks -> wf_mat n (p_L pr) -> Forall2 lik_repr liks uls -> prior_repr n pr pfs ->
  length x = n -> length e = length (b_tild R r0 radd rmul liks pr) ->
  (normal_eq R r0 radd rmul n liks pr e x <->
   H_apply R r0 radd rmul n uls pfs x = Vadd (rhs_apply R r0 radd rmul n uls pfs) (M_adj R r0 radd rmul n liks pr e)).
Proof.
  intros H HP HR HPr Hx He. unfold normal_eq.
  rewrite MtM_code by exact H.
  rewrite M_adj_vadd; try assumption; try (symmetry; exact He).
  - rewrite Mtb_code by exact H.
    destruct (code_is_user n liks pr uls pfs x H HR HPr Hx) as [E1 E2]. rewrite E1, E2. reflexivity.
  - rewrite b_tild_len; [lia|]. eapply Forall_impl; [|exact H]. intros l (_ & E & _). exact E.
Qed.

(* ---------- samplers that outlive an in-place re-assignment ---------- *)
Lemma M_adj_liks_same_noise captured live : Forall2 (same_noise R) captured live -> forall y acc,
  M_adj_liks R r0 radd rmul live y acc = M_adj_liks R r0 radd rmul captured y acc.
Proof.
  intros H; induction H as [|c l cs ls (E1 & E2 & E3) H IH]; intros y acc; simpl; [reflexivity|].
  rewrite E1, E2, E3. apply IH.
Qed.

(* the repaired reading (flag 2 from the captured list): the stale sampler's operator pair is adjoint, whatever was re-assigned *)
Theorem stale_adjoint_captured n captured live pr x y :
  Forall (lik_wf n) captured -> wf_mat n (p_L pr) -> length x = n ->
  Dot (stale_M_fwd R r0 radd rmul captured pr x) y
  = Dot x (stale_M_adj R r0 radd rmul Flag2Captured n captured live pr y).
Proof. intros. unfold stale_M_fwd, stale_M_adj. simpl. apply M_adjoint; assumption. Qed.

(* the code as it stands (flag 2 reads the distribution again): adjoint as long as no NOISE parameter was re-assigned
   (prior, data values and anything else may have been) *)
Theorem stale_adjoint_live_guarded n captured live pr x y :
  Forall (lik_wf n) captured -> wf_mat n (p_L pr) -> length x = n -> Forall2 (same_noise R) captured live ->
  Dot (stale_M_fwd R r0 radd rmul captured pr x) y
  = Dot x (stale_M_adj R r0 radd rmul Flag2Live n captured live pr y).
Proof.
  intros H HP Hx HS. unfold stale_M_fwd, stale_M_adj. simpl.
  rewrite (M_adjoint n captured pr x y H HP Hx). unfold M_adj.
  rewrite (M_adj_liks_same_noise captured live HS). reflexivity.
Qed.

End Lin.
