(* C02 -- executable model of the Metropolis-type transitions of CUQIpy:
     cuqi.experimental.mcmc.{MH, CWMH, PCN, MALA, ULA}.step   and
     cuqi.sampler.{MH, CWMH, pCN, MALA, ULA}.single_update.
   One transition is a deterministic function  state -> draws -> state * acc  of the cached state
   (point, cached log-density, cached gradient), the proposal noise and log(u).  The target enters
   as the functions logd : vec -> ext and grad : vec -> vec.  Accept/reject logic lives on `ext`
   (Base/Ext.v): every comparison with NaN is false and Python's builtin min(0, NaN) is 0.
   No proofs here (Proofs/C02_MH.v). *)
From CV Require Import Base.Tac Base.Cmp Base.Ext.
From Coq Require Import QArith Qabs.

Definition vec := list Q.

Fixpoint vadd (u v : vec) : vec :=
  match u, v with a :: u', b :: v' => (a + b) :: vadd u' v' | _, _ => [] end.
Fixpoint vsub (u v : vec) : vec :=
  match u, v with a :: u', b :: v' => (a - b) :: vsub u' v' | _, _ => [] end.
Fixpoint vmul (u v : vec) : vec :=                       (* component-wise product *)
  match u, v with a :: u', b :: v' => (a * b) :: vmul u' v' | _, _ => [] end.
Definition vscale (c : Q) (v : vec) : vec := map (Qmult c) v.
Fixpoint dot (u v : vec) : Q :=
  match u, v with a :: u', b :: v' => a * b + dot u' v' | _, _ => 0 end.
Fixpoint upd (v : vec) (j : nat) (a : Q) : vec :=        (* v[j] = a *)
  match v, j with
  | [], _ => []
  | _ :: v', O => a :: v'
  | b :: v', S j' => b :: upd v' j' a
  end.

(* ---------------------------------------------------------------------------------------------
   The accept rule.   alpha = min(0, ratio);  accept iff  log u <= alpha  [and guard on star]    *)
Inductive guard :=
| GNone       (* no guard: legacy MH / CWMH / pCN, experimental PCN (unchanged tree)             *)
| GNan        (* `np.isnan(star) == False`: legacy MALA (unchanged tree)                          *)
| GNanInf.    (* `not isnan(star) and not isinf(star)`: experimental MH / CWMH / MALA / ULA       *)

Definition guard_ok (g : guard) (star : ext) : bool :=
  match g with
  | GNone => true
  | GNan => negb (is_nan star)
  | GNanInf => negb (is_nan star) && negb (is_inf star)
  end.

Definition accept (g : guard) (logu ratio star : ext) : bool :=
  ext_le logu (pymin (Fin 0) ratio) && guard_ok g star.

(* cached state: the point and the evaluations that must describe it *)
Record state := mkSt { sx : vec; sld : ext; sgr : vec }.

Section Kernels.
Variable logd : vec -> ext.          (* target.logd (for pCN: likelihood.logd)   *)
Variable grad : vec -> vec.          (* target.gradient                           *)

(* ---- random-walk MH:  x* = x + scale * xi ------------------------------------------------- *)
Definition mh_prop (s : Q) (x xi : vec) : vec := vadd x (vscale s xi).

Definition mh_step (g : guard) (s : Q) (st : state) (xi : vec) (logu : ext) : state * bool :=
  let xs := mh_prop s (sx st) xi in
  let ls := logd xs in
  if accept g logu (ext_sub ls (sld st)) ls then (mkSt xs ls (sgr st), true) else (st, false).

(* per-component scale (scale given as an array):  x* = x + scales .* xi *)
Definition mh_prop_v (scales x xi : vec) : vec := vadd x (vmul scales xi).
Definition mh_step_v (g : guard) (scales : vec) (st : state) (xi : vec) (logu : ext) : state * bool :=
  let xs := mh_prop_v scales (sx st) xi in
  let ls := logd xs in
  if accept g logu (ext_sub ls (sld st)) ls then (mkSt xs ls (sgr st), true) else (st, false).

(* ---- component-wise MH: all components proposed at once from N(x, diag(scale^2)), then
        accepted/rejected one coordinate after the other, each against the running point ------ *)
Definition cw_prop (scales x z : vec) : vec := vadd x (vmul scales z).

Fixpoint cw_loop (g : guard) (j : nat) (props : vec) (logus : list ext) (xt : vec) (lt : ext)
  : vec * ext * list bool :=
  match props, logus with
  | p :: props', lu :: logus' =>
      let xs := upd xt j p in
      let ls := logd xs in
      if accept g lu (ext_sub ls lt) ls
      then let '(x, l, a) := cw_loop g (S j) props' logus' xs ls in (x, l, true :: a)
      else let '(x, l, a) := cw_loop g (S j) props' logus' xt lt in (x, l, false :: a)
  | _, _ => (xt, lt, [])
  end.

Definition cwmh_step (g : guard) (scales : vec) (st : state) (z : vec) (logus : list ext)
  : state * list bool :=
  let '(x, l, a) := cw_loop g 0 (cw_prop scales (sx st) z) logus (sx st) (sld st) in
  (mkSt x l (sgr st), a).

(* ---- pCN.  `logd` is the LIKELIHOOD log-density, xi a draw from the Gaussian prior with mean m;
        a = sqrt(1 - s^2) is an input (its defining relation a^2 + s^2 = 1 is a hypothesis of the
        theorems and is checked per case by the harness).
        centered = false : the code of the unchanged tree   x* = a x + s xi
        centered = true  : the repaired proposal            x* = m + a (x - m) + s (xi - m)     *)
Definition pcn_prop (centered : bool) (a s : Q) (m x xi : vec) : vec :=
  if centered then vadd m (vadd (vscale a (vsub x m)) (vscale s (vsub xi m)))
  else vadd (vscale a x) (vscale s xi).

Definition pcn_step (centered : bool) (g : guard) (a s : Q) (m : vec) (st : state) (xi : vec) (logu : ext)
  : state * bool :=
  let xs := pcn_prop centered a s m (sx st) xi in
  let ls := logd xs in
  if accept g logu (ext_sub ls (sld st)) ls then (mkSt xs ls (sgr st), true) else (st, false).

(* ---- MALA:  x* = x + (s/2) grad(x) + xi,  xi ~ N(0, s I) ------------------------------------ *)
Definition log_prop (s : Q) (th_star th_k g_k : vec) : Q :=       (* _log_proposal / log_proposal *)
  let mu := vadd th_k (vscale (s / 2) g_k) in
  let mis := vsub th_star mu in
  - (1 # 2) * ((1 / s) * dot mis mis).

Definition mala_prop (s : Q) (x gx xi : vec) : vec := vadd (vadd x (vscale (s / 2) gx)) xi.

Definition mala_ratio (s : Q) (st : state) (xs : vec) (ls : ext) (gs : vec) : ext :=
  ext_add (ext_sub ls (sld st))
          (Fin (log_prop s (sx st) xs gs - log_prop s xs (sx st) (sgr st))).

Definition mala_step (g : guard) (s : Q) (st : state) (xi : vec) (logu : ext) : state * bool :=
  let xs := mala_prop s (sx st) (sgr st) xi in
  let ls := logd xs in
  let gs := grad xs in
  if accept g logu (mala_ratio s st xs ls gs) ls then (mkSt xs ls gs, true) else (st, false).

(* ---- ULA: no Metropolis correction.  experimental: accepted unless the value is NaN/inf;
        legacy: always accepted, NaN raises (None) --------------------------------------------- *)
Definition ula_step (legacy : bool) (s : Q) (st : state) (xi : vec) : option (state * bool) :=
  let xs := mala_prop s (sx st) (sgr st) xi in
  let ls := logd xs in
  let gs := grad xs in
  if legacy then (if is_nan ls then None else Some (mkSt xs ls gs, true))
  else if guard_ok GNanInf ls then Some (mkSt xs ls gs, true) else Some (st, false).

(* ---- a sampler = cached state + scale; operations of a history ---------------------------- *)
Inductive kernel := KMH (g : guard) | KCW (g : guard) | KPCN (centered : bool) (g : guard) (a : Q) (m : vec) | KMALA (g : guard).

Record sampler := mkS { s_st : state; s_scale : vec }.    (* scale: one entry (scalar) or per component *)

Definition scal (sc : vec) : Q := match sc with s :: _ => s | [] => 0 end.

Inductive op :=
| OStep (xi : vec) (logus : list ext)        (* one transition under the given draws            *)
| OTune (new_scale : vec)                    (* tune(): any new scale; nothing else is written   *)
| OReload (st : state) (sc : vec).           (* set_state / load_checkpoint                      *)

Definition lu1 (l : list ext) : ext := match l with u :: _ => u | [] => NaN end.

Definition kstep (k : kernel) (sc : vec) (st : state) (xi : vec) (logus : list ext) : state * list bool :=
  match k with
  | KMH g => let '(s', a) := mh_step g (scal sc) st xi (lu1 logus) in (s', [a])
  | KCW g => cwmh_step g sc st xi logus
  | KPCN c g a m => let '(s', b) := pcn_step c g a (scal sc) m st xi (lu1 logus) in (s', [b])
  | KMALA g => let '(s', a) := mala_step g (scal sc) st xi (lu1 logus) in (s', [a])
  end.

Definition apply_op (k : kernel) (S : sampler) (o : op) : sampler :=
  match o with
  | OStep xi logus => mkS (fst (kstep k (s_scale S) (s_st S) xi logus)) (s_scale S)
  | OTune sc => mkS (s_st S) sc
  | OReload st sc => mkS st sc
  end.

Definition run_ops (k : kernel) (S : sampler) (ops : list op) : sampler := fold_left (apply_op k) ops S.

(* the chain produced by n transitions: recorded points and acceptance flags, in order *)
Fixpoint chain (k : kernel) (sc : vec) (st : state) (draws : list (vec * list ext))
  : state * list (vec * list bool) :=
  match draws with
  | [] => (st, [])
  | (xi, lus) :: r =>
      let '(st', a) := kstep k sc st xi lus in
      let '(stf, rec) := chain k sc st' r in (stf, (sx st', a) :: rec)
  end.
End Kernels.

(* ---------------------------------------------------------------------------------------------
   Concrete target families used by the correspondence harness (the theorems are about arbitrary
   logd/grad; these only let the model RUN on the same targets the implementation is driven with) *)
Definition matvec (A : list vec) (x : vec) : vec := map (fun r => dot r x) A.
Fixpoint mattvec (n : nat) (A : list vec) (y : vec) : vec :=
  match A, y with
  | r :: A', b :: y' => vadd (vscale b r) (mattvec n A' y')
  | _, _ => repeat 0 n
  end.
Definition vsum (v : vec) : Q := fold_right Qplus 0 v.
Definition pow3 (a : Q) := a * a * a.
Definition pow4 (a : Q) := (a * a) * (a * a).

Inductive base :=
| BQuad (P : list vec) (m : vec) (c : Q)                 (* c - 1/2 (x-m)' P (x-m) ;  grad -P(x-m)        *)
| BQuart (b : vec)                                       (* -1/4 sum x_i^4 + b.x   ;  grad -x^3 + b       *)
| BLin (A : list vec) (b : vec) (lam : Q) (m0 : vec) (del c : Q).
                                                         (* c - lam/2 |Ax-b|^2 - del/2 |x-m0|^2           *)
Inductive hole := HNo | HGt (k : nat) (thr : Q) (v : ext).  (* x_k > thr  =>  logd = v (NaN / -inf / +inf) *)
Record target := mkT { tb : base; th : hole }.

Definition base_logd (b : base) (x : vec) : Q :=
  match b with
  | BQuad P m c => let d := vsub x m in c - (1 # 2) * dot d (matvec P d)
  | BQuart b => - (1 # 4) * vsum (map pow4 x) + dot b x
  | BLin A b lam m0 del c =>
      let r := vsub (matvec A x) b in let d := vsub x m0 in
      c - (lam / 2) * dot r r - (del / 2) * dot d d
  end.
Definition base_grad (b : base) (x : vec) : vec :=
  match b with
  | BQuad P m c => vscale (-1) (matvec P (vsub x m))
  | BQuart b => vadd (vscale (-1) (map pow3 x)) b
  | BLin A b lam m0 del c =>
      vsub (vscale (- lam) (mattvec (length x) A (vsub (matvec A x) b))) (vscale del (vsub x m0))
  end.
Definition in_hole (h : hole) (x : vec) : option ext :=
  match h with
  | HNo => None
  | HGt k thr v => if negb (Qle_bool (nth k x 0) thr) then Some v else None
  end.
Definition t_logd (T : target) (x : vec) : ext :=
  match in_hole (th T) x with Some v => v | None => Fin (base_logd (tb T) x) end.
Definition t_grad (T : target) (x : vec) : vec := base_grad (tb T) x.

(* ---------------------------------------------------------------------------------------------
   Comparison with what the implementation did (used by the generated case files)               *)
Definition ext_close (tol : Q) (a b : ext) : bool :=
  match a, b with
  | Fin x, Fin y => q_close tol x y
  | _, _ => ext_eqb a b
  end.
Definition st_close (tol : Q) (obs model : state) : bool :=
  ql_close tol (sx obs) (sx model) && ext_close tol (sld obs) (sld model) && ql_close tol (sgr obs) (sgr model).
Definition bl_eqb := list_eqb Bool.eqb.

(* which numpy.random entry points one transition consumes, in order *)
Inductive rk := Krandn | Krand | Knormal | Kuniform.
Definition rk_eqb (a b : rk) : bool :=
  match a, b with Krandn, Krandn | Krand, Krand | Knormal, Knormal | Kuniform, Kuniform => true | _, _ => false end.
Definition rkl_eqb := list_eqb rk_eqb.
Definition consumes (k : nat) (legacy : bool) (dim : nat) : list rk :=
  match k with
  | 0%nat => [Krandn; Krand]                       (* MH   *)
  | 1%nat => Knormal :: repeat Krand dim           (* CWMH *)
  | 2%nat => [Krandn; Krand]                       (* pCN  *)
  | 3%nat => if legacy then [Knormal; Kuniform] else [Knormal; Krand]   (* MALA *)
  | 5%nat => [Knormal; Krand]                      (* pCN with a cuqi Normal (independent components) prior *)
  | 6%nat => [Krand]                               (* MH, proposal drawn by scipy (Cauchy): only u comes from numpy.random.* *)
  | 7%nat => [Kuniform; Krand]                     (* MH with a Uniform proposal distribution *)
  | _ => [Knormal]                                 (* ULA  *)
  end.

(* obs_star: the point(s) at which the implementation evaluated the target during the transition *)
Definition check_mh (tol : Q) (T : target) (g : guard) (s : Q) (st : state) (xi : vec) (logu : ext)
  (obs_star : vec) (obs : state) (obs_acc : bool) (log : list rk) (legacy : bool) (ck : nat) : bool :=
  let '(st', a) := mh_step (t_logd T) g s st xi logu in
  Bool.eqb a obs_acc && st_close tol obs st' && ql_close tol obs_star (mh_prop s (sx st) xi)
  && rkl_eqb log (consumes ck legacy (length (sx st))).

Definition check_mh_v (tol : Q) (T : target) (g : guard) (scales : vec) (st : state) (xi : vec) (logu : ext)
  (obs_star : vec) (obs : state) (obs_acc : bool) (log : list rk) (legacy : bool) (ck : nat) : bool :=
  let '(st', a) := mh_step_v (t_logd T) g scales st xi logu in
  Bool.eqb a obs_acc && st_close tol obs st' && ql_close tol obs_star (mh_prop_v scales (sx st) xi)
  && Nat.eqb (length scales) (length (sx st)) && rkl_eqb log (consumes ck legacy (length (sx st))).

(* loc/std: the arguments the proposal distribution was sampled with *)
Definition check_cwmh (tol : Q) (T : target) (g : guard) (scales : vec) (st : state) (z : vec) (logus : list ext)
  (loc std : vec) (obs : state) (obs_acc : list bool) (log : list rk) (legacy : bool) : bool :=
  let '(st', a) := cwmh_step (t_logd T) g scales st z logus in
  bl_eqb a obs_acc && st_close tol obs st' && ql_close tol loc (sx st) && ql_close tol std scales
  && rkl_eqb log (consumes 1 legacy (length (sx st))).

Definition check_pcn (tol : Q) (T : target) (centered : bool) (g : guard) (a s : Q) (m : vec) (st : state)
  (xi : vec) (logu : ext) (obs_star : vec) (obs : state) (obs_acc : bool) (log : list rk) (legacy : bool) (ck : nat) : bool :=
  let '(st', b) := pcn_step (t_logd T) centered g a s m st xi logu in
  Bool.eqb b obs_acc && st_close tol obs st' && ql_close tol obs_star (pcn_prop centered a s m (sx st) xi)
  && q_close tol9 (a * a + s * s) 1 && Qle_bool 0 a
  && rkl_eqb log (consumes ck legacy (length (sx st))).

(* std: the standard deviation the noise was drawn with (must be sqrt(scale)) *)
Definition check_mala (tol : Q) (T : target) (g : guard) (s : Q) (st : state) (xi : vec) (logu : ext)
  (std : Q) (obs_star : vec) (obs : state) (obs_acc : bool) (log : list rk) (legacy : bool) : bool :=
  let '(st', a) := mala_step (t_logd T) (t_grad T) g s st xi logu in
  Bool.eqb a obs_acc && st_close tol obs st' && ql_close tol obs_star (mala_prop s (sx st) (sgr st) xi)
  && q_close tol9 (std * std) s && Qle_bool 0 std
  && rkl_eqb log (consumes 3 legacy (length (sx st))).

Definition check_ula (tol : Q) (T : target) (legacy : bool) (s : Q) (st : state) (xi : vec)
  (std : Q) (obs : option (state * bool)) (log : list rk) : bool :=
  match ula_step (t_logd T) (t_grad T) legacy s st xi, obs with
  | None, None => true
  | Some (st', a), Some (o, oa) => Bool.eqb a oa && st_close tol o st'
  | _, _ => false
  end && q_close tol9 (std * std) s && rkl_eqb log (consumes 4 legacy (length (sx st))).

(* multi-step chains through sample(): recorded points, acceptance flags, final cached state *)
Fixpoint rec_close (tol : Q) (obs model : list (vec * list bool)) : bool :=
  match obs, model with
  | [], [] => true
  | (x, a) :: o', (y, b) :: m' => ql_close tol x y && bl_eqb a b && rec_close tol o' m'
  | _, _ => false
  end.
Definition check_chain (tol : Q) (T : target) (k : kernel) (sc : vec) (st : state)
  (draws : list (vec * list ext)) (obs_final : state) (obs_rec : list (vec * list bool)) : bool :=
  let '(stf, rec) := chain (t_logd T) (t_grad T) k sc st draws in
  st_close tol obs_final stf && rec_close tol obs_rec rec.
(* legacy interface: sample() returns the points only *)
Definition check_chain_pts (tol : Q) (T : target) (k : kernel) (sc : vec) (st : state)
  (draws : list (vec * list ext)) (obs_final : state) (obs_pts : list vec) : bool :=
  let '(stf, rec) := chain (t_logd T) (t_grad T) k sc st draws in
  st_close tol obs_final stf && list_eqb (ql_close tol) obs_pts (map fst rec).
