(* C15 -- MAP/ML estimates are true maximisers; direct Gaussian sampling has exact moments.
   Property theorems only (model level, lists over Qc, every size); the matrix identities over an arbitrary field
   (push-through, Woodbury, uniqueness of the stationary point, covariance of the Cholesky draw) are in Props/C15_mc.v.

   Vocabulary (Model/C15_MAP.v, Proofs/C15_Top.v):
     map_direct fixed m n A b x0 ce cx   the closed-form branch of BayesianProblem.MAP as coded; ce, cx = what the
                                         .cov getters hand out (None = NotImplementedError); fixed = the code with
                                         fixes/C15_vector_cov.diff applied
     dense_of true k c                   the covariance matrix MEANT by a scalar / vector of variances / matrix
     cov_guard fixed ce cx               fixed = true, or neither covariance is a vector of length >= 2
     lg_wf, is_prec, pos_def             shapes; symmetric PSD left inverse of a covariance; positive definiteness
     post_grad / post_q                  gradient of the log-posterior / -2 log posterior + const, precision form *)
From CV Require Import Base.Tac Base.LinAlg Base.Cmp Base.QcLin Model.C15_MAP Proofs.C15_Lin Proofs.C15_MAP Proofs.C15_Top.
From Coq Require Import QArith Qcanon.
Local Open Scope Qc_scope.

(* The returned closed-form estimate is the maximiser of the posterior density: the forces balance
   (Ce z = b - A x and Cx A^T z = x - x0 for one z: the inverse-free form of "gradient = 0"), the gradient of the
   log-posterior vanishes for every precision pair, no point has larger posterior density, and the maximiser is unique
   when the prior precision is positive definite.  Guarded by the exact complement of the refuted class below. *)
Theorem C15_closed_form_is_posterior_mode :
  forall (fixed : bool) (m n : nat) (A : list (list Qc)) (b x0 : list Qc) (ce cx : covform) (x : list Qc),
  cov_guard fixed ce cx ->
  map_direct fixed m n A b x0 (Some ce) (Some cx) = Val x ->
  let Ce := dense_of true m ce in let Cx := dense_of true n cx in
  lg_wf m n A Ce Cx b ->
  length x = n /\
  (exists z, length z = m /\ qmatvec Ce z = qvsub b (qmatvec A x) /\ qmatvec Cx (qmattvec n A z) = qvsub x x0) /\
  forall Pe Px, is_prec m Ce Pe -> is_prec n Cx Px ->
    post_grad n A Pe Px b x0 x = qvzero n /\
    (forall y, length y = n -> post_q A Pe Px b x0 x <= post_q A Pe Px b x0 y) /\
    (pos_def n Px -> forall y, length y = n -> y <> x -> post_q A Pe Px b x0 x < post_q A Pe Px b x0 y).
Proof. exact closed_form_is_posterior_mode. Qed.
Print Assumptions C15_closed_form_is_posterior_mode.

(* finding BayesianProblem.MAP|direct:vector-noise-cov:row-broadcast -- the unrepaired code (fixed = false) with a
   vector of noise variances returns a point that is NOT the posterior mean; the repaired code returns the mean *)
Theorem C15_vector_noise_cov_refuted :
  exists m n A b x0 ce cx x y,
    is_plain_vector ce = true /\ is_plain_vector cx = false /\
    map_direct false m n A b x0 (Some ce) (Some cx) = Val x /\
    post_mean_exact m n A b x0 ce cx = Some y /\ x <> y /\
    map_direct true m n A b x0 (Some ce) (Some cx) = Val y.
Proof. exact vector_noise_cov_refuted. Qed.
Print Assumptions C15_vector_noise_cov_refuted.

(* finding BayesianProblem.MAP|direct:vector-prior-cov:dot-product -- the same for a vector of prior variances *)
Theorem C15_vector_prior_cov_refuted :
  exists m n A b x0 ce cx x y,
    is_plain_vector ce = false /\ is_plain_vector cx = true /\
    map_direct false m n A b x0 (Some ce) (Some cx) = Val x /\
    post_mean_exact m n A b x0 ce cx = Some y /\ x <> y /\
    map_direct true m n A b x0 (Some ce) (Some cx) = Val y.
Proof. exact vector_prior_cov_refuted. Qed.
Print Assumptions C15_vector_prior_cov_refuted.

(* what "posterior mean" means in the two witnesses: the solution of the normal equations H y = A^T Pe b + Px x0 *)
Theorem C15_posterior_mean_spec :
  forall (m n : nat) (A : list (list Qc)) (b x0 : list Qc) (ce cx : covform) (y : list Qc),
  post_mean_exact m n A b x0 ce cx = Some y ->
  exists Pe Px, qinv (dense_of true m ce) = Some Pe /\ qinv (dense_of true n cx) = Some Px /\
    qmatvec (post_prec n A Pe Px) y = post_rhs n A Pe Px b x0.
Proof. exact post_mean_exact_spec. Qed.
Print Assumptions C15_posterior_mean_spec.

(* ... spelled out as compositions (the assembled matrix A^T Pe A acts as A^T (Pe (A y)) for symmetric Pe):
   A^T Pe A y + Px y = A^T Pe b + Px x0 *)
Theorem C15_posterior_mean_normal_eq :
  forall (m n : nat) (A : list (list Qc)) (b x0 : list Qc) (ce cx : covform) (y : list Qc),
  post_mean_exact m n A b x0 ce cx = Some y ->
  exists Pe Px, qinv (dense_of true m ce) = Some Pe /\ qinv (dense_of true n cx) = Some Px /\
    (wf_mat n A -> length A = m -> wf_mat m Pe -> length Pe = m -> q_sym m Pe -> wf_mat n Px -> length Px = n ->
     length y = n ->
     qvadd (qmattvec n A (qmatvec Pe (qmatvec A y))) (qmatvec Px y) =
     qvadd (qmattvec n A (qmatvec Pe b)) (qmatvec Px x0)).
Proof. exact post_mean_exact_normal_eq. Qed.
Print Assumptions C15_posterior_mean_normal_eq.

(* The executable closed form IS the posterior mean of the executable specification -- proved on the model that runs,
   no transcription between the mathcomp statement and the list model to trust: with the checked inverses Pe, Px of the
   covariances meant by the user, the returned x solves  (A^T Pe A + Px) x = A^T Pe b + Px x0 ... *)
Theorem C15_closed_form_solves_normal_equations :
  forall (fixed : bool) (m n : nat) (A : list (list Qc)) (b x0 : list Qc) (ce cx : covform) (x : list Qc) (Pe Px : list (list Qc)),
  cov_guard fixed ce cx ->
  map_direct fixed m n A b x0 (Some ce) (Some cx) = Val x ->
  let Ce := dense_of true m ce in let Cx := dense_of true n cx in
  lg_wf m n A Ce Cx b ->
  qinv Ce = Some Pe -> qinv Cx = Some Px -> q_sym m Pe ->
  qmatvec (post_prec n A Pe Px) x = post_rhs n A Pe Px b x0.
Proof. exact closed_form_solves_normal_equations. Qed.
Print Assumptions C15_closed_form_solves_normal_equations.

(* ... these equations have one solution whenever the posterior precision has a (checked) inverse ... *)
Theorem C15_normal_equations_unique :
  forall (n : nat) (H C : list (list Qc)) (rhs u v : list Qc),
  qinv H = Some C -> length H = n -> wf_mat n H -> length u = n -> length v = n ->
  qmatvec H u = rhs -> qmatvec H v = rhs -> u = v.
Proof. exact normal_equations_unique. Qed.
Print Assumptions C15_normal_equations_unique.

(* ... hence MAP's closed form and the specification's posterior mean are the same vector *)
Theorem C15_closed_form_equals_posterior_mean :
  forall (fixed : bool) (m n : nat) (A : list (list Qc)) (b x0 : list Qc) (ce cx : covform) (x y : list Qc),
  cov_guard fixed ce cx ->
  map_direct fixed m n A b x0 (Some ce) (Some cx) = Val x ->
  post_mean_exact m n A b x0 ce cx = Some y ->
  let Ce := dense_of true m ce in let Cx := dense_of true n cx in
  lg_wf m n A Ce Cx b ->
  (forall Pe, qinv Ce = Some Pe -> q_sym m Pe) ->
  (forall Pe Px, qinv Ce = Some Pe -> qinv Cx = Some Px -> exists C, qinv (post_prec n A Pe Px) = Some C) ->
  length y = n -> x = y.
Proof. exact closed_form_equals_posterior_mean. Qed.
Print Assumptions C15_closed_form_equals_posterior_mean.

(* the hypotheses of the previous theorem are DECIDED by the model on every instance it runs (hyps_ok: shapes, checked
   inverses of both covariances, symmetry of the noise precision, checked inverse of the posterior precision); the harness
   evaluates hyps_ok on every closed-form case that returns a value, so on those cases x = y holds without assumptions *)
Theorem C15_hypotheses_decided :
  forall (fixed : bool) (m n : nat) (A : list (list Qc)) (b x0 : list Qc) (ce cx : covform) (x y : list Qc),
  hyps_ok m n A b ce cx = true ->
  cov_guard fixed ce cx ->
  map_direct fixed m n A b x0 (Some ce) (Some cx) = Val x ->
  post_mean_exact m n A b x0 ce cx = Some y ->
  length y = n -> x = y.
Proof. exact hyps_ok_sound. Qed.
Print Assumptions C15_hypotheses_decided.

(* positive semi-definiteness, the last hypothesis of the maximality clause, is also decided per instance: the model
   eliminates symmetrically, CHECKS P = U^T diag(1/u_kk) U exactly and u_kk > 0, and that certificate implies v^T P v >= 0 *)
Theorem C15_psd_certificate :
  forall (n : nat) (P : list (list Qc)), psd_cert n P = true -> forall v, length v = n -> 0 <= qdot v (qmatvec P v).
Proof. exact psd_cert_sound. Qed.
Print Assumptions C15_psd_certificate.

(* hence, on every closed-form case on which the harness's check_mode_hyps evaluates to true (all value cases of the
   identity-like geometries), with NO further assumption: the returned x has zero posterior gradient and no point has
   larger posterior density, for the checked inverses Pe, Px of the covariances meant by the user *)
Theorem C15_mode_decided :
  forall (fixed : bool) (m n : nat) (A : list (list Qc)) (b x0 : list Qc) (ce cx : covform) (x : list Qc),
  mode_hyps_ok m n A b ce cx = true ->
  cov_guard fixed ce cx ->
  map_direct fixed m n A b x0 (Some ce) (Some cx) = Val x ->
  exists Pe Px, qinv (dense_of true m ce) = Some Pe /\ qinv (dense_of true n cx) = Some Px /\
    post_grad n A Pe Px b x0 x = qvzero n /\
    forall y, length y = n -> post_q A Pe Px b x0 x <= post_q A Pe Px b x0 y.
Proof. exact mode_decided. Qed.
Print Assumptions C15_mode_decided.

(* symmetry of a precision in the sense used above is decidable by computation: P^T = P suffices *)
Theorem C15_symmetric_by_transpose :
  forall (k : nat) (P : list (list Qc)), wf_mat k P -> qtranspose k P = P -> q_sym k P.
Proof. exact q_sym_of_transpose. Qed.
Print Assumptions C15_symmetric_by_transpose.

(* non-vacuity of C15_closed_form_equals_posterior_mean (all hypotheses discharged on a concrete 2x3 problem) *)
Example C15_equals_example :
  exists x y,
    map_direct false 2 3 wA wb (qvec [1; 0; -1]%Q) (Some (CMatrix eCe)) (Some (CMatrix eCx)) = Val x /\
    post_mean_exact 2 3 wA wb (qvec [1; 0; -1]%Q) (CMatrix eCe) (CMatrix eCx) = Some y /\
    cov_guard false (CMatrix eCe) (CMatrix eCx) /\
    lg_wf 2 3 wA (dense_of true 2 (CMatrix eCe)) (dense_of true 3 (CMatrix eCx)) wb /\
    (forall Pe, qinv (dense_of true 2 (CMatrix eCe)) = Some Pe -> q_sym 2 Pe) /\
    (forall Pe Px, qinv (dense_of true 2 (CMatrix eCe)) = Some Pe -> qinv (dense_of true 3 (CMatrix eCx)) = Some Px ->
       exists C, qinv (post_prec 3 wA Pe Px) = Some C) /\
    length y = 3%nat /\ x = y.
Proof. exact equals_example. Qed.

(* a stored matrix whose column count is not the parameter dimension (matrix-form model with an expansion geometry:
   get_matrix() hands out the function-space matrix) is refused -- and a value is only returned for n columns.
   With n columns but a non-identity geometry the call returns the posterior mean of the problem for the STORED matrix:
   finding BayesianProblem.MAP|direct:matrix-model+nonidentity-geometry; the theorems above speak about that matrix *)
Theorem C15_stored_matrix_shape :
  forall (m n : nat) (A : list (list Qc)) (b x0 : list Qc) (Ce Cx : npcov),
  ((exists r, In r A /\ length r <> n) -> map_core m n A b x0 Ce Cx = EValue) /\
  (forall x, map_core m n A b x0 Ce Cx = Val x -> wf_mat n A /\ length x0 = n).
Proof. intros m n A b x0 Ce Cx. split; [exact (map_core_shape_refused m n A b x0 Ce Cx) | intros x; exact (map_core_value_shape m n A b x0 Ce Cx x)]. Qed.
Print Assumptions C15_stored_matrix_shape.

(* "If a requested estimate cannot be computed correctly the call fails": Gaussians created with prec / sqrtcov /
   sqrtprec (no compute_cov() since) make MAP and the direct sampler raise, whichever of the two it is; a value is
   only ever returned with both covariances at hand; a length-1 prior mean with n > 1 raises *)
Theorem C15_refusal :
  forall (fixed : bool) (m n : nat) (A : list (list Qc)) (b x0 : list Qc) (p : gparam) (c : covform) (other : option covform),
  p <> PCov ->
  map_direct fixed m n A b x0 (cov_getter p c None) other = ENotImpl /\
  map_direct fixed m n A b x0 other (cov_getter p c None) = ENotImpl /\
  sample_direct fixed m n A b x0 (cov_getter p c None) other = SErr ENotImpl /\
  sample_direct fixed m n A b x0 other (cov_getter p c None) = SErr ENotImpl.
Proof. exact refusal. Qed.
Print Assumptions C15_refusal.

Theorem C15_value_needs_cov :
  forall (fixed : bool) (m n : nat) (A : list (list Qc)) (b x0 : list Qc) (ce cx : option covform) (x : list Qc),
  map_direct fixed m n A b x0 ce cx = Val x -> exists ce' cx', ce = Some ce' /\ cx = Some cx'.
Proof. exact value_needs_cov. Qed.
Print Assumptions C15_value_needs_cov.

Theorem C15_scalar_mean_refused :
  forall (fixed : bool) (m n : nat) (A : list (list Qc)) (b x0 : list Qc) (ce cx : covform),
  length x0 <> n ->
  map_direct fixed m n A b x0 (Some ce) (Some cx) = EValue \/ map_direct fixed m n A b x0 (Some ce) (Some cx) = EAttr.
Proof. exact scalar_mean_refused. Qed.
Print Assumptions C15_scalar_mean_refused.

(* a scipy-sparse covariance with a single stored entry (np.size counts stored entries): `C.ravel()` does not exist --
   MAP and the direct sampler raise AttributeError, no value is returned *)
Theorem C15_sparse_single_refused :
  forall (fixed : bool) (m n : nat) (A : list (list Qc)) (b x0 : list Qc) (ce cx : covform),
  sparse_single ce = true \/ sparse_single cx = true ->
  map_direct fixed m n A b x0 (Some ce) (Some cx) = EAttr /\ sample_direct fixed m n A b x0 (Some ce) (Some cx) = SErr EAttr.
Proof. exact sparse_single_refused. Qed.
Print Assumptions C15_sparse_single_refused.

(* direct sampling x = mu + L z: the offset is the closed-form MAP (hence, by the first theorem, the posterior mode)
   and the covariance the harness checks L L^T against is a two-sided inverse of the posterior precision
   A^T Pe A + Px built from right inverses Pe, Px of the covariances the code holds *)
Theorem C15_cholesky_draw :
  forall (fixed : bool) (m n : nat) (A : list (list Qc)) (b x0 : list Qc) (ce cx : covform) (mu : list Qc) (C : list (list Qc)),
  sample_direct fixed m n A b x0 (Some ce) (Some cx) = SLaw mu C ->
  map_direct fixed m n A b x0 (Some ce) (Some cx) = Val mu /\
  exists CeM CxM Pe Px,
    expand_cov fixed m ce = NMat CeM /\ expand_cov fixed n cx = NMat CxM /\
    qmatmul (length CeM) CeM Pe = qident (length CeM) /\ qmatmul (length CxM) CxM Px = qident (length CxM) /\
    let H := post_prec n A Pe Px in
    qmatmul (length H) H C = qident (length H) /\ qmatmul (length H) C H = qident (length H).
Proof. exact cholesky_draw_law. Qed.
Print Assumptions C15_cholesky_draw.

(* the factor read off from the scripted draws and accepted by the check is lower triangular *)
Theorem C15_read_off_factor_lower :
  forall L : list (list Qc), is_lower L = true ->
  forall i j, (i < length L)%nat -> (i < j)%nat -> nth j (nth i L []) 0 = 0.
Proof. exact is_lower_spec. Qed.
Print Assumptions C15_read_off_factor_lower.

(* route selection: the closed form is used exactly for Gaussian prior, Gaussian noise, LinearModel and both
   dimensions within MAX_DIM_INV; sample_posterior takes the direct route under exactly the same condition *)
Theorem C15_route :
  forall (P : pinfo) (d : nat),
  (map_route P d = RDirect <->
   p_prior P = DGaussian /\ p_lik P = DGaussian /\ p_model P = MLinear /\ (p_n P <= d)%nat /\ (p_m P <= d)%nat) /\
  sample_route_direct P d = match map_route P d with RDirect => true | ROptimiser => false end.
Proof. intros P d. split; [exact (map_route_direct_iff P d) | exact (sample_route_eq_map_route P d)]. Qed.
Print Assumptions C15_route.

(* MAP(disp, x0) on the closed-form route does not read the caller's initial guess nor disp (the code rebinds x0 to the
   prior mean) -- every theorem above therefore holds for every x0 argument ... *)
Theorem C15_x0_argument_ignored :
  forall (fixed : bool) (m n : nat) (A : list (list Qc)) (b pm : list Qc) (x0arg : option (list Qc)) (disp : bool) (ce cx : option covform),
  map_entry fixed m n A b pm x0arg disp ce cx = map_entry fixed m n A b pm None true ce cx.
Proof. exact map_entry_ignores_x0. Qed.
Print Assumptions C15_x0_argument_ignored.

(* ... and it must not read it: the same formula expanded at a point other than the prior mean returns another vector *)
Theorem C15_expansion_point_matters :
  exists m n A b pm v Ce Cx x y,
    map_core m n A b pm (NMat Ce) (NMat Cx) = Val x /\ map_core m n A b v (NMat Ce) (NMat Cx) = Val y /\ v <> pm /\ x <> y.
Proof. exact expansion_point_matters. Qed.
Print Assumptions C15_expansion_point_matters.

(* ML has no closed-form route (ml_route = ROptimiser by definition; the harness compares the observed route and solver
   label with it, so a new direct branch is a disagreement).  What its result is compared with -- weighted least squares
   with the checked inverse Pe of the noise covariance meant by the user -- is a stationary point and a maximiser of the
   likelihood  -1/2 (b - A x)^T Pe (b - A x) *)
Theorem C15_ml_spec_is_maximiser :
  forall (m n : nat) (A : list (list Qc)) (b : list Qc) (ce : covform) (x : list Qc),
  ml_exact m n A b ce = Some x ->
  exists Pe, qinv (dense_of true m ce) = Some Pe /\
   (wf_mat n A -> length A = m -> length b = m -> length (dense_of true m ce) = m -> q_sym m Pe -> length x = n ->
    qmattvec n A (qmatvec Pe (qvsub b (qmatvec A x))) = qvzero n /\
    ((forall v, length v = m -> 0 <= qdot v (qmatvec Pe v)) ->
     forall y, length y = n -> lik_q A Pe b x <= lik_q A Pe b y)).
Proof. exact ml_exact_maximiser. Qed.
Print Assumptions C15_ml_spec_is_maximiser.

(* Gaussian.compute_cov() as modelled: the matrix cached in .cov is the argument itself for cov=, the code's R R^T for
   sqrtcov=R, and a two-sided inverse of the precision for prec=P (P) and sqrtprec=R (R^T R -- the precision the
   log-density |R (x - mean)|^2 uses, for EVERY shape of a user-supplied factor R: the whole matrix is read).
   The harness compares the implementation's .cov with this value (check_compute_cov) and MAP / the direct sampler after
   compute_cov() read this value in the model, not the observed one *)
Theorem C15_compute_cov_spec :
  forall (p : gparam) (dim : nat) (c : covform) (C : list (list Qc)),
  compute_cov_model p dim c = Some C ->
  let M := sq_of dim c in
  match p with
  | PCov => C = M
  | PPrec => qmatmul (length M) M C = qident (length M) /\ qmatmul (length M) C M = qident (length M)
  | PSqrtcov => C = qmatmul dim M (qtranspose dim M)
  | PSqrtprec => let P := qmatmul dim (qtranspose dim M) M in
                 qmatmul (length P) P C = qident (length P) /\ qmatmul (length P) C P = qident (length P)
  end.
Proof. exact compute_cov_spec. Qed.
Print Assumptions C15_compute_cov_spec.

(* the precision the log-density and its gradient use (R^T R of whatever factor the Gaussian stores or derives -- Cholesky
   branch, or the eigen-decomposition branch above MIN_DIM_SPARSE) as modelled, and the covariance compute_cov() caches,
   are inverse to each other for every parameterisation; the harness compares sqrtprec^T sqrtprec of the implementation with
   precision_model (check_precision) over generic, block-diagonal, permuted-block and arrow matrices in both storage regimes *)
Theorem C15_precision_times_cov :
  forall (p : gparam) (dim : nat) (c : covform) (P C : list (list Qc)),
  precision_model p dim c = Some P -> compute_cov_model p dim c = Some C ->
  (qmatmul (length P) P C = qident (length P) \/ qmatmul (length C) P C = qident (length C)).
Proof. exact precision_times_cov. Qed.
Print Assumptions C15_precision_times_cov.

(* life cycle of the refusal clause: for a Gaussian given by prec / sqrtcov / sqrtprec the next MAP / direct sampling is a
   value iff compute_cov() was called since the last re-assignment of the defining attribute -- after ANY history; reads,
   refused calls and successful estimates do not change that; a re-assignment forgets whatever came before *)
Theorem C15_refusal_life_cycle :
  forall (c : bool) (ops : list life_op),
  (life_run c (ops ++ [LMap]) = life_run c ops ++ [if life_state c ops then LValue else LRefused] /\
   life_run c (ops ++ [LSample]) = life_run c ops ++ [if life_state c ops then LValue else LRefused]) /\
  ((forall o, In o ops -> o = LMap \/ o = LSample \/ o = LRead) -> life_state c ops = c) /\
  (forall ops2, life_state c (ops ++ LReassign :: ops2) = life_state false ops2).
Proof.
  intros c ops. split; [exact (life_next_estimate c ops)|]. split; [exact (life_state_frame c ops)|].
  intros ops2. exact (life_state_reassign c ops ops2).
Qed.
Print Assumptions C15_refusal_life_cycle.

(* the whole cascade of sample_posterior (joint = target still a JointDistribution, s = hasattr(prior,
   "sqrtprecTimesMean"), q = hasattr(likelihood.distribution, "sqrtprec")): Gibbs iff joint; the direct route iff not joint
   and the closed-form condition; what each later choice implies about the posterior's structure *)
Theorem C15_sampler_cascade :
  forall (joint : bool) (P : pinfo) (s q : bool) (d : nat),
  let r := sample_route joint P s q d in
  (r = SGibbs <-> joint = true) /\
  (r = SMapCholesky <-> joint = false /\ map_route P d = RDirect) /\
  (r = SLinearRTO -> joint = false /\ p_model P = MLinear /\ s = true /\ q = true /\ map_route P d = ROptimiser) /\
  (r = SUGLA -> p_prior P = DLMRF /\ p_lik P = DGaussian) /\
  (r = SNUTS -> p_has_grad P = true /\ is_nuts_excluded (p_prior P) = false) /\
  (r = SpCN -> (p_prior P = DGaussian \/ p_prior P = DGMRF) /\ p_lik P = DGaussian) /\
  (r = SRegLinearRTO -> (p_prior P = DRegGaussian \/ p_prior P = DRegGMRF) /\ p_lik P = DGaussian /\ p_model P = MLinear).
Proof. exact cascade_spec. Qed.
Print Assumptions C15_sampler_cascade.

(* hand-over to the chosen sampler: the requested number of draws and the burn-in (Nb, or Ns/5 when not given) reach the
   sampler unchanged -- legacy classes through sample(Ns,Nb) / sample_adapt(Ns,Nb), experimental ones through
   warmup(Nb); sample(Ns); get_samples().burnthin(Nb), i.e. the warm-up is removed exactly once; and a gradient probe
   that raises only matters once the cascade is past its first four choices *)
Theorem C15_handover_protocol :
  forall (c : sampler_choice) (experimental : bool) (ns : nat) (nb : option nat) (h : handover),
  handover_model c experimental ns nb = Some h ->
  h_experimental_module h = experimental /\
  h_calls h = (if experimental then [RWarmup (burnin ns nb); RSampleN ns; RGetSamples; RBurnthin (burnin ns nb)]
               else match c with SNUTS | SpCN => [RSampleAdapt ns (burnin ns nb)] | _ => [RSample ns (burnin ns nb)] end).
Proof. intros c e ns nb h H. destruct c; cbn in H; try discriminate; injection H as <-; cbn; destruct e; split; reflexivity. Qed.
Print Assumptions C15_handover_protocol.

Theorem C15_probe_raises :
  forall (joint : bool) (P : pinfo) (s q : bool) (d : nat) (pr : bool),
  sample_route_x joint P s q d pr = SProbeRaises <->
  pr = true /\ (let r := sample_route joint P s q d in r <> SGibbs /\ r <> SMapCholesky /\ r <> SLinearRTO /\ r <> SUGLA).
Proof.
  intros joint P s q d pr. unfold sample_route_x. pose proof (cascade_inv joint P s q d) as I. cbv zeta in I.
  destruct (sample_route joint P s q d), pr; cbv zeta; split; try discriminate; try tauto;
    try (intros _; repeat split; discriminate); try (intros [_ (H1 & H2 & H3 & H4)]; congruence); try (intros [H _]; discriminate).
  all: try (exfalso; exact I).
Qed.
Print Assumptions C15_probe_raises.

(* _solve_max_point: L-BFGS-B exactly for a CMRF prior with a posterior gradient, else scipy's minimize; the start
   point is the given one or the ones vector; the gradient is handed over iff the density has one *)
Theorem C15_optimiser_setup :
  forall (P : pinfo) (g : bool) (x0 : option (list Qc)),
  (fst (fst (solve_max_point_setup P g x0)) = SLBFGSB <-> p_prior P = DCMRF /\ p_has_grad P = true) /\
  snd (fst (solve_max_point_setup P g x0)) = g /\
  snd (solve_max_point_setup P g x0) = match x0 with Some v => v | None => repeat 1 (p_n P) end.
Proof. intros P g x0. split; [exact (solver_choice P g x0) | split; reflexivity]. Qed.
Print Assumptions C15_optimiser_setup.

(* non-vacuity: a concrete 2x3 problem with full covariance matrices meets the hypotheses, and its closed-form
   estimate has zero posterior gradient *)
Example C15_example :
  exists x Pe Px, map_core 2 3 wA wb (qvec [1; 0; -1]%Q) (NMat eCe) (NMat eCx) = Val x /\
    qinv eCe = Some Pe /\ qinv eCx = Some Px /\
    post_grad 3 wA Pe Px wb (qvec [1; 0; -1]%Q) x = qvzero 3.
Proof. exact closed_example. Qed.
