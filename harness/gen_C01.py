"""C01 -- conditioning a joint distribution preserves the joint log-density.

Correspondence: cuqi JointDistribution / Distribution / Likelihood / Posterior / MultipleLikelihoodPosterior /
_StackedJointDistribution / EvaluatedDensity / BayesianProblem  vs  Model/C01_Cond.v.

Two instantiations of the factors (DESIGN 5/C01/K):
 (a) harness-defined Distribution subclasses (PolyDist) with integer-valued polynomial log-densities whose mutable
     variables are values, None (conditioning variable = attribute name) or 1-/2-argument callables -- EXACT;
 (b) real CUQIpy families (Gaussian with matrix/function/non-linear mean, GMRF, LMRF, CMRF, Gamma, Lognormal, Beta, ...):
     the model's factor functions are tables of values obtained by calling each ORIGINAL factor's logd at the full
     assignment, so what is compared is "conditioned object = sum of the untouched factors" (1e-9 relative).
Compared per case: kind of every intermediate object, its parameter names in order, the _constant folded into a reduced
single density, and value-or-error of several call forms (keyword, positional, mixed, malformed) on the final object.
The independent oracle states the property itself in plain Python integers: final.logd(rest) == sum of the factor
formulas at the complete assignment; malformed evaluations must raise.
"""
import itertools, math
from fractions import Fraction
import numpy as np
from common import *

IMPORTS = "From CV Require Import Base.Cmp Model.C01_Cond.\nFrom Coq Require Import QArith Floats."
RULE = ("random/structured model graphs (2-6 variables, 0-3 mutable variables per factor: value / None / 1-2-argument callable, shared "
        "hyper-parameters, several likelihoods per variable, pre-built likelihoods, cycles), every cell = graph shape x fixed/free "
        "partition x step style; per case several evaluation forms (keyword, positional, mixed, 4 malformed). distinct = distinct "
        "(graph, values, steps, evaluations); trivial = no variable fixed and keyword evaluation only")

VARNAMES = ["x", "y", "z", "s", "d", "w", "t", "u", "l", "v"]
UNKNOWN = 77                 # id of a name that is no variable of the model ("foo")
SIG_EXTRA_KW = "Distribution.logd|main-positional:other-keywords-ignored"
SIG_POST_KW = "Posterior._condition|own-parameter-by-keyword"
SIG_COLLIDE = "Distribution._condition|keyword-names-attribute-and-variable"
STATE = {"strict": True, "pnamed": False, "collide_ok": False}      # which repair state the implementation is in (probed per run)


def flags():
    return "%s %s" % (cbool(STATE["pnamed"]), cbool(STATE["strict"]))


def S(v):
    """position-weighted sum: distinguishes permuted entries"""
    v = np.asarray(v).ravel()
    t = sum((i + 1) * Fraction(*float(a).as_integer_ratio()) for i, a in enumerate(v))      # exact: values are dyadic
    return int(t) if t.denominator == 1 else t


# ------------------------------------------------------------------------------------------
# (a) integer-valued test distributions
# ------------------------------------------------------------------------------------------
def slot_value_py(slot, asg):
    """value of a mutable variable under a complete assignment (pure Python: the oracle's reading)"""
    k = slot["kind"]
    if k == "fixed":
        return S(slot["val"])
    if k == "unset":
        return S(asg[slot["var"]])
    return slot["b"] + sum(a * S(asg[j]) for a, j in zip(slot["a"], slot["args"]))


def factor_value_py(spec, asg):
    """the factor's log-density at a complete assignment {var id: vector} -- plain integers, no cuqi"""
    T = [slot_value_py(s, asg) for s in spec["slots"]]
    sx = S(asg[spec["name"]])
    return spec["c"] + sum(m * t for m, t in zip(spec["m"], T)) + spec["q"] * sum(T) * sx + spec["r"] * sx * sx


def cond_vars_py(slots):
    """Distribution.get_conditioning_variables re-stated: None attributes, then callable arguments by first appearance"""
    out = [s["var"] for s in slots if s["kind"] == "unset"]
    ind = []
    for s in slots:
        if s["kind"] == "fn":
            for a in s["args"]:
                if a not in ind:
                    ind.append(a)
    return out + ind


_PD = {}


def polydist_class(cuqi):
    if "cls" in _PD and _PD.get("mod") is cuqi:
        return _PD["cls"]
    from cuqi.distribution import Distribution
    from cuqi.geometry import _DefaultGeometry1D, Geometry

    class PolyDist(Distribution):
        """integer-valued polynomial log-density of its mutable variables and x"""

        def __init__(self, spec, names, noname=False):
            super().__init__(name=None if noname else names[spec["name"]], geometry=spec["dim"])
            self._spec = spec
            self._attrs = []
            for i, s in enumerate(spec["slots"]):
                if s["kind"] == "fixed":
                    attr, val = (names[s["attrvar"]] if s.get("attrvar") is not None else attr_name(i)), np.array(s["val"])
                elif s["kind"] == "unset":
                    attr, val = names[s["var"]], None
                else:
                    # a callable attribute may carry the name of one of its OWN arguments (scale = lambda scale: 1/scale):
                    # the keyword then names both the attribute and the callable's argument
                    attr = names[s["attrvar"]] if s.get("attrvar") is not None else attr_name(i)
                    argn = [names[j] for j in s["args"]]
                    src = "def _f(%s):\n    return _b + %s\n" % (
                        ", ".join(argn), " + ".join("_a[%d]*_S(%s)" % (k, n) for k, n in enumerate(argn)))
                    env = {"_a": tuple(s["a"]), "_b": s["b"], "_S": S}
                    exec(src, env)
                    val = env["_f"]
                    style = s.get("style", "def")
                    if s.get("ret") == "fview":
                        # the callable returns a NON-contiguous view [r, 0] of an F-ordered work array instead of the number r
                        env["_f0"] = env["_f"]
                        exec("import numpy as _np\ndef _f(%s):\n    _w = _np.asfortranarray(_np.zeros((2, 3)))\n    _w[0, 1] = float(_f0(%s))\n    return _w[0, 1:3]\n" % (
                            ", ".join(argn), ", ".join(argn)), env)
                        val = env["_f"]
                    if style == "lambda":
                        val = eval("lambda %s: _f(%s)" % (", ".join(argn), ", ".join(argn)), env)
                    elif style == "partial":           # the user's own functools.partial over a function with one more argument
                        exec("def _g(%s, _extra):\n    return _f(%s) + _extra\n" % (", ".join(argn), ", ".join(argn)), env)
                        import functools
                        val = functools.partial(env["_g"], _extra=0)
                    elif style == "object":            # an instance with __call__
                        exec("class _C:\n    def __call__(self, %s):\n        return _f(%s)\n" % (", ".join(argn), ", ".join(argn)), env)
                        val = env["_C"]()
                setattr(self, attr, val)
                self._attrs.append(attr)

        @property
        def geometry(self):
            return self._geometry

        @geometry.setter
        def geometry(self, v):
            self._geometry = v if isinstance(v, Geometry) else _DefaultGeometry1D(v)

        def logpdf(self, x):
            sp = self._spec
            T = []
            for a in self._attrs:
                v = getattr(self, a)
                T.append(v if np.ndim(v) == 0 else S(v))
            sx = S(x)
            return sp["c"] + sum(m * t for m, t in zip(sp["m"], T)) + sp["q"] * sum(T) * sx + sp["r"] * sx * sx

        def _sample(self, N=1, rng=None):
            raise NotImplementedError

    _PD["cls"], _PD["mod"] = PolyDist, cuqi
    return PolyDist


# ------------------------------------------------------------------------------------------
# graph generator: explicit cells, values inside cells from the rng
# ------------------------------------------------------------------------------------------
def rand_vec(rng, dim):
    if rng.random() < 0.08:
        return [0] * dim               # falsy-but-legitimate: a variable fixed to exactly zero
    if rng.random() < 0.3:
        v = [rng.randint(-18, 18) / 2 for _ in range(dim)]         # half-integers: a truncating dtype cast shows
    else:
        v = [rng.randint(-9, 9) for _ in range(dim)]
    if dim >= 2 and rng.random() < 0.2:
        v = [a if a != 0 else 3 for a in v]
        v[rng.randrange(dim)] = 0                                   # an exact zero INSIDE an otherwise non-zero vector (np.all vs np.any)
    return v


def mk_slot(rng, kind, parents):
    if kind == "fixed":
        return {"kind": "fixed", "val": [rng.randint(-5, 5)]}
    if kind == "unset":
        return {"kind": "unset", "var": parents[0]}
    return {"kind": "fn", "args": list(parents), "a": [rng.choice([-3, -2, -1, 1, 2, 3]) for _ in parents], "b": rng.randint(-4, 4),
            "style": rng.choice(["def", "lambda", "partial", "object"]), "ret": rng.choice(["scalar", "scalar", "fview"])}


def attrs_of(spec):
    """attribute names of the mutable variables as ids: a variable id where the attribute is named after a variable"""
    out = []
    for i, sl in enumerate(spec["slots"]):
        if sl["kind"] == "unset":
            out.append(sl["var"])
        elif sl.get("attrvar") is not None:
            out.append(sl["attrvar"])
        else:
            out.append(ATTR + i)
    return out


def mk_factor(rng, name, dim, slots):
    taken = set(sl["var"] for sl in slots if sl["kind"] == "unset") | set(sl["attrvar"] for sl in slots if sl.get("attrvar") is not None)
    for sl in slots:
        if sl["kind"] == "fn" and "attrvar" not in sl:
            cand = [a for a in sl["args"] if a not in taken]
            sl["attrvar"] = rng.choice(cand) if cand and rng.random() < 0.35 else None
            if sl["attrvar"] is not None:
                taken.add(sl["attrvar"])
    return {"name": name, "dim": dim, "slots": slots, "c": rng.randint(-9, 9) if rng.random() < 0.85 else rng.choice([-1, 1]) * 10 ** 12,
            "m": [rng.choice([-3, -2, -1, 1, 2, 3]) for _ in slots], "q": rng.choice([-2, -1, 1, 2]), "r": rng.choice([-2, -1, 1, 2])}


def graph(rng, shape):
    """returns (factors in joint order, n variables).  Variable ids are 0..n-1; names are drawn per case."""
    F = lambda name, slots: mk_factor(rng, name, rng.randint(1, 3), slots)
    fn = lambda *p: mk_slot(rng, "fn", list(p))
    fx = lambda: mk_slot(rng, "fixed", [])
    un = lambda p: mk_slot(rng, "unset", [p])
    if shape == "pair":                 # p(y|x) p(x)
        fs = [F(1, [fn(0), fx()]), F(0, [fx()])]
    elif shape == "chain":              # p(y|x) p(x|z) p(z)
        fs = [F(2, [fn(1), fx()]), F(1, [fx(), fn(0)]), F(0, [fx(), fx()])]
    elif shape == "hier":               # docstring graph: d, l, x|d, y|x,l
        fs = [F(0, [fx(), fx()]), F(1, [fx(), fx()]), F(2, [fx(), fn(0)]), F(3, [fn(2), fn(1)])]
    elif shape == "hier5":              # the 5-variable hierarchical joint of the design spike
        fs = [F(0, [fx()]), F(1, [fn(0)]), F(2, [fn(0), fn(1)]), F(3, [fn(2), fn(1)]), F(4, [fn(3, 2), fx()])]
    elif shape == "mlp2":               # two likelihoods on x
        fs = [F(1, [fn(0), fx()]), F(2, [fx(), fn(0)]), F(0, [fx()])]
    elif shape == "mlp3h":              # three likelihoods on x, shared hyper-parameter s
        fs = [F(2, [fn(0), fn(1)]), F(3, [fn(0, 1)]), F(4, [fn(0), fx()]), F(0, [fn(1)]), F(1, [fx()])]
    elif shape == "twoarg":             # 2-argument callables, shared arguments in different orders
        fs = [F(3, [fn(0, 1), fn(1, 2)]), F(0, [fx()]), F(1, [fn(0)]), F(2, [fn(1, 0), fx()])]
    elif shape == "unset":              # a None attribute named after another variable, mixed with callables
        fs = [F(2, [fn(1), un(0), fx()]), F(0, [fx()]), F(1, [un(0)])]
    elif shape == "unset2":             # None attribute AFTER a callable in attribute order (order of conditioning variables)
        fs = [F(3, [fn(2, 1), un(0)]), F(0, []), F(1, [fx()]), F(2, [fn(1)])]
    elif shape == "cycle":              # p(x|y) p(y|x): accepted by the code, the algebra is the same
        fs = [F(0, [fn(1)]), F(1, [fn(0), fx()]), F(2, [fn(0, 1)])]
    elif shape == "indep":              # no dependencies at all
        fs = [F(0, [fx()]), F(1, []), F(2, [fx(), fx()])]
    elif shape == "single":
        fs = [F(0, [fx()])]
    elif shape == "threearg":           # a 3-argument callable (staged over three steps) and multi-argument callables in EVERY slot
        fs = [F(0, [fx()]), F(1, [fn(0)]), F(2, []), F(3, [fn(2, 0, 1), fx(), fn(1, 2)]), F(4, [fn(3, 0), fn(0, 3, 2)])]
    elif shape == "multifirst":         # multi-argument callable FIRST, single-argument ones after it, shared arguments
        fs = [F(2, [fn(1, 0), fn(0), fx(), fn(1)]), F(0, [fx()]), F(1, [fn(0)]), F(3, [fn(0, 2), fn(2, 1, 0)])]
    elif shape in ("collide", "collide-value"):
        # an attribute NAMED like a variable (0) that enters the same distribution through ANOTHER attribute: the keyword names
        # both the attribute (a callable of variable 1 / a plain value) and the conditioning variable
        other = fn(1) if shape == "collide" else fx()
        other["attrvar"] = 0
        fs = [F(2, [fn(0), other, fx()]), F(0, [fx()]), F(1, [fn(0)] if rng.random() < 0.5 else [fx()]), F(3, [fn(2, 1)])]
    elif shape == "indeproot":          # p(d) p(x|d) p(b): an independent root next to a dependent pair
        fs = [F(0, [fx()]), F(1, [fn(0), fx()]), F(2, [fx()])]
    elif shape == "random":
        n = rng.randint(2, 6)
        fs = []
        for i in range(n):
            others = [j for j in range(n) if j != i and (j < i or rng.random() < 0.1)]
            slots = []
            for _ in range(rng.randint(0, 3)):
                r = rng.random()
                if others and r < 0.45:
                    slots.append(fn(rng.choice(others)))
                elif len(others) >= 2 and r < 0.7:
                    slots.append(fn(*rng.sample(others, 2)))
                elif others and r < 0.78 and not any(s["kind"] == "unset" for s in slots):
                    p = rng.choice(others)
                    if all(p not in s.get("args", []) for s in slots):
                        slots.append(un(p))
                else:
                    slots.append(fx())
            # a None attribute named p must not also be an argument of a callable of the same factor
            uns = [s["var"] for s in slots if s["kind"] == "unset"]
            slots = [s for s in slots if not (s["kind"] == "fn" and any(a in uns for a in s["args"]))]
            fs.append(F(i, slots))
        rng.shuffle(fs)
    else:
        raise ValueError(shape)
    return fs, 1 + max(f["name"] for f in fs)


SHAPES = ["pair", "chain", "hier", "hier5", "mlp2", "mlp3h", "twoarg", "unset", "unset2", "cycle", "indep", "indeproot", "threearg", "multifirst", "collide", "collide-value", "single", "random"]
PARTS = ["none", "leaves", "allbut1", "all", "roots", "random"]
STYLES = ["one-kw", "one-pos", "seq-kw", "grouped-mixed"]


def deps(spec):
    return set(cond_vars_py(spec["slots"]))


def choose_partition(rng, fs, n, part):
    """set of variable ids to fix"""
    parents = set().union(*[deps(f) for f in fs]) if fs else set()
    leaves = [v for v in range(n) if v not in parents]
    roots = [f["name"] for f in fs if not deps(f)]
    if part == "none":
        return []
    if part == "leaves":
        return leaves or [rng.randrange(n)]
    if part == "allbut1":
        keep = rng.choice([v for v in range(n) if v not in leaves] or list(range(n)))
        return [v for v in range(n) if v != keep]
    if part == "all":
        return list(range(n))
    if part == "roots":
        return roots or [rng.randrange(n)]
    k = rng.randint(1, n)
    return rng.sample(range(n), k)


class Book:
    """the oracle's own bookkeeping of a conditioning history (which variables are fixed; what kind of object the
    property expects), independent of cuqi: used to build positional calls and to avoid unsupported steps"""

    def __init__(self, fs, pre):
        self.fs, self.fixed = fs, set(pre)

    def params(self):
        return [f["name"] for f in self.fs if f["name"] not in self.fixed]

    def n_lik(self):
        return sum(1 for f in self.fs if f["name"] in self.fixed and (deps(f) - self.fixed))

    def kind(self):
        nd, nl = len(self.params()), self.n_lik()
        if nd > 1 or nd == 0:
            return "joint"
        return "mlp" if nl > 1 else ("posterior" if nl == 1 else "dist")


def make_steps(rng, book, fix, style):
    """list of calls; a call = {"args": [var ids whose values are passed positionally], "kw": [[key id, value-of id], ...]}"""
    fix = list(fix)
    rng.shuffle(fix)
    if style in ("one-kw", "one-pos"):
        groups = [fix]
    elif style == "seq-kw":
        groups = [[v] for v in fix]
    else:
        groups, rest = [], fix
        while rest:
            k = rng.randint(1, len(rest))
            groups.append(rest[:k]); rest = rest[k:]
        if rng.random() < 0.3:
            groups.insert(rng.randrange(len(groups) + 1), [])          # an empty conditioning call in between
    steps = []
    reduced = False                      # a conditioning call has been made: the object went through the reduction
    for g in groups:
        # a Posterior cannot be conditioned on its parameter (name inference from the stack): the history stops there
        if g and reduced and book.kind() == "posterior":
            break
        cur = book.params()
        use_pos = style == "one-pos" or (style == "grouped-mixed" and rng.random() < 0.5)
        args = []
        if use_pos and g:
            # positional arguments fix a prefix of the current parameter names
            m = 0
            while m < len(cur) and cur[m] in g:
                m += 1
            m = rng.randint(0, m) if style == "grouped-mixed" else m
            args = cur[:m]
        kwv = [v for v in g if v not in args]
        rng.shuffle(kwv)
        kwl = [[v, v] for v in kwv]
        if not reduced and cur and rng.random() < 0.15:
            # JointDistribution._condition silently ignores a keyword that is no parameter of any factor
            kwl.insert(rng.randint(0, len(kwl)), [UNKNOWN, cur[0]])
        steps.append({"args": args, "kw": kwl, "pre_params": list(cur)})
        book.fixed |= set(g)
        reduced = True
    return steps


def make_evals(rng, book):
    """evaluation calls on the final object: well-formed in three forms + the malformed stream"""
    cur = book.params()
    ev = []
    kwv = list(cur); rng.shuffle(kwv)
    ev.append({"form": "kw", "args": [], "kw": [[v, v] for v in kwv], "ok": True})
    ev.append({"form": "pos", "args": list(cur), "kw": [], "ok": True})
    if len(cur) >= 2 and book.kind() == "joint":
        m = rng.randint(1, len(cur) - 1)
        rest = cur[m:]; rng.shuffle(rest)
        ev.append({"form": "mixed", "args": cur[:m], "kw": [[v, v] for v in rest], "ok": True})
    if cur:
        drop = rng.choice(cur)
        ev.append({"form": "missing", "args": [], "kw": [[v, v] for v in kwv if v != drop], "ok": False})
        ev.append({"form": "double", "args": [cur[0]], "kw": [[v, v] for v in kwv], "ok": False})
        ev.append({"form": "toomany", "args": list(cur) + [cur[-1]], "kw": [], "ok": False})
    ev.append({"form": "unknown", "args": [], "kw": [[v, v] for v in kwv] + [[UNKNOWN, (cur or [0])[0]]], "ok": False})
    if not cur:
        ev.append({"form": "toomany", "args": [0], "kw": [], "ok": False})
    return ev


# ------------------------------------------------------------------------------------------
# driver of the real implementation
# ------------------------------------------------------------------------------------------
KINDS = {"JointDistribution": 0, "MultipleLikelihoodPosterior": 1, "Posterior": 2, "Distribution": 3, "Likelihood": 4,
         "EvaluatedDensity": 5, "_StackedJointDistribution": 6}


def kind_of(cuqi, o):
    from cuqi.distribution import JointDistribution, Posterior, Distribution, MultipleLikelihoodPosterior
    from cuqi.distribution._joint_distribution import _StackedJointDistribution
    from cuqi.likelihood import Likelihood
    from cuqi.density import EvaluatedDensity
    if isinstance(o, MultipleLikelihoodPosterior):
        return 1
    if isinstance(o, _StackedJointDistribution):
        return 6
    if isinstance(o, JointDistribution):
        return 0
    if isinstance(o, Posterior):
        return 2
    if isinstance(o, Likelihood):
        return 4
    if isinstance(o, EvaluatedDensity):
        return 5
    if isinstance(o, Distribution):
        return 3
    return 99


ALT = 60           # ids 60.. : alternative VALUES (never keys): a second value for some variable, vals[60], vals[61]
ATTR = 100         # ids 100+i : the attribute name "q<i>" of the i-th mutable variable (fixed value or callable) of a PolyDist
STACKKEY = 78      # the keyword `stacked_input` of _StackedJointDistribution.logd


ATTRNAMES = ["qz", "qb", "qy", "qa", "qx", "qc", "qw", "qd"]     # declaration order is NOT alphabetical order


def attr_name(i):
    return ATTRNAMES[i] if i < len(ATTRNAMES) else "qq%d" % i


def name_of(names, key):
    if key == UNKNOWN:
        return "foo"
    if key == STACKKEY:
        return "stacked_input"
    if key >= ATTR:
        return attr_name(key - ATTR)
    return names[key]


def stack_vec(vals, ids):
    return [a for v in ids for a in (vals[v] if isinstance(vals[v], (list, tuple)) else [vals[v]])]


class Vals(dict):
    """values of the variables of one case, plus ONE argument object per variable that is passed to every call of the case
    (aliasing: the same array object reaches many objects of the history) in a random dtype / memory layout / container"""
    STYLES = ("int", "float", "strided", "list", "fortran2d")

    def make_pool(self, rng, real=False, forced=None):
        self.pool, self.style = {}, {}
        for j, v in self.items():
            if isinstance(v, float):
                # integer-valued hyper-parameters / data are also handed over with INTEGER type (rate = 2, not 2.0)
                asint = real and float(v).is_integer() and rng.random() < 0.6
                self.pool[j] = int(v) if asint else v
                self.style[j] = "pyint" if asint else "scalar"
                continue
            if real and all(float(a).is_integer() for a in v) and rng.random() < 0.6:
                self.pool[j], self.style[j] = np.array([int(a) for a in v]), "int"
                continue
            styles = ("float", "strided") if real else (self.STYLES + (("pyscalar", "zerod") if len(v) == 1 else ()))
            st = forced[str(j)] if forced and str(j) in forced else rng.choice(styles)
            if st == "int":
                a = np.array(v)
            elif st == "float":
                a = np.array(v, dtype=float)
            elif st == "strided":
                a = np.array([x for y in v for x in (y, 99)], dtype=float)[::2]
            elif st == "list":
                a = list(v)
            elif st == "pyscalar":
                a = v[0]                      # a one-dimensional variable given as a plain Python number
            elif st == "zerod":
                a = np.array(v[0])            # ... or as a 0-d array
            else:
                a = np.asfortranarray(np.array([v, v], dtype=float).T)[:, 0]      # a column view of an F-ordered 2-d array
            self.pool[j], self.style[j] = a, st
        return self

    def changed(self):
        """names of variables whose argument object was modified by the calls (inputs must never be altered)"""
        out = []
        for j, a in getattr(self, "pool", {}).items():
            ref = self[j]
            same = (float(a) == ref) if isinstance(ref, float) else (list(np.asarray(a).ravel()) == list(np.asarray(ref).ravel()))
            if not same:
                out.append(j)
        return out


def arg_of(vals, j):
    pool = getattr(vals, "pool", None)
    return pool[j] if pool is not None and j in pool else toarg(vals[j])


def do_call(f, names, vals, call):
    if "stack" in call:
        ref = stack_vec(vals, call["stack"])
        buf = np.array(ref, dtype=float)
        r = f(stacked_input=buf) if call.get("stackkw") else f(buf)
        if list(buf) != [float(a) for a in ref]:
            raise RuntimeError("the stacked input vector was modified by logd")
        return r
    pk = call.get("poked", ())
    args = [arg_of(vals, j) for j in call["args"]]
    kw = {name_of(names, k): arg_of(vals, k if k in pk else j) for k, j in call["kw"]}
    return f(*args, **kw)


def toarg(v):
    """scalars of real families are passed as Python floats, vectors as arrays"""
    return v if isinstance(v, float) else np.array(v)


def num(v):
    """observed log-density as an exact rational (None if it is not a finite scalar)"""
    a = np.asarray(v)
    if a.size != 1:
        raise ValueError("logd returned a non-scalar of shape %s" % (a.shape,))
    x = a.ravel()[0]
    if isinstance(x, Fraction):
        return x
    return frac(x if isinstance(x, (int, np.integer)) else float(x))


def observe_stage(cuqi, o, names):
    k = kind_of(cuqi, o)
    ps = [names.index(p) if p in names else UNKNOWN for p in o.get_parameter_names()]
    c = None
    if k in (2, 3, 4, 5):
        c = num(o._constant)
    return [k, ps, c]


def drive(cuqi, start, names, vals, steps, evals, keep=None):
    """run the conditioning calls and the evaluations on the real objects; `keep` collects every object of the history"""
    obs, o = [], start
    if keep is not None:
        keep.append(start)
    for st in steps:
        try:
            o = do_call(o, names, vals, st)
            if o is None:
                raise TypeError("conditioning returned None")
            obs.append(observe_stage(cuqi, o, names))
            if keep is not None:
                keep.append(o)
        except Exception as e:
            obs.append(None)
            o = None
            break
    outs = []
    if o is not None:
        for ev in evals:
            try:
                outs.append(num(do_call(o.logd, names, vals, ev)))
            except Exception as e:
                outs.append(None)
    return o, obs, outs


def reevaluate_earlier(objs, steps, names, vals, total):
    """after the whole history: every EARLIER object (parent joint, intermediate objects) must still evaluate to the joint
    log-density at the complete assignment -- deriving a child must not change its parent (no shared mutable state)"""
    for i, st in enumerate(steps):
        if i >= len(objs) - 1:
            break
        ps = st.get("pre_params")
        if ps is None:
            continue
        try:
            out = num(objs[i].logd(**{names[v]: np.array(vals[v]) for v in ps}))
        except Exception as e:
            return "object %d of the history (parameters %s) raised %r when re-evaluated after its children were derived" % (i, [names[v] for v in ps], e)
        if out != total:
            return ("object %d of the history (parameters %s) re-evaluated after its children were derived gives %s, it gave / must give %s: "
                    "conditioning changed its parent" % (i, [names[v] for v in ps], float(out), total))
    return None


# ------------------------------------------------------------------------------------------
# Coq encoders
# ------------------------------------------------------------------------------------------
def cvar(i):
    return "%d%%nat" % i


def cvl(l):
    return clist([cvar(i) for i in l])


def cqval(v):
    return clist([cq(a) for a in (v if isinstance(v, (list, tuple)) else [v])])


def cslot(s):
    if s["kind"] == "fixed":
        return "SFixed"
    if s["kind"] == "unset":
        return "(SUnset %s)" % cvar(s["var"])
    return "(SFn %s)" % cvl(s["args"])




def cdist(spec, vals, value, alts=()):
    """mk_dist name dim slots 0 (table with the key of this case; alts = [(override {var: value id}, value)] further entries)"""
    ids = cond_vars_py(spec["slots"]) + [spec["name"]]
    entries = [([vals[j] for j in ids], value)] + [([vals[ov.get(j, j)] for j in ids], v) for ov, v in alts]
    return "(qmka %s %s %s %s 0 %s)" % (
        cvar(spec["name"]), cnat(spec["dim"]), clist([cslot(s) for s in spec["slots"]]), cvl(attrs_of(spec)),
        clist(["(%s, %s)" % (clist([cqval(k) for k in key]), cq(v)) for key, v in entries]))


def cdens(spec, vals, value, pre, alts=()):
    if pre:
        return "(qL %s %s)" % (cdist(spec, vals, value, alts), cqval(vals[spec["name"]]))
    return "(qD %s)" % cdist(spec, vals, value, alts)


def ccall(vals, call):
    if "stack" in call:
        if call.get("stackkw"):
            return "([], [(%s, %s)])" % (cvar(STACKKEY), cqval(stack_vec(vals, call["stack"])))
        return "(%s, [])" % clist([cqval(stack_vec(vals, call["stack"]))])
    return "(%s, %s)" % (clist([cqval(vals[j]) for j in call["args"]]),
                         clist(["(%s, %s)" % (cvar(k), cqval(vals[j])) for k, j in call["kw"]]))


def cstage(ob):
    if ob is None:
        return "None"
    k, ps, c = ob
    return "(Some (%s, %s, %s))" % (cnat(k), cvl(ps), copt(c, cq))


def cevals(vals, evals, outs):
    return clist(["(%s, %s)" % (ccall(vals, ev), copt(o, cq)) for ev, o in zip(evals, outs)])


# ------------------------------------------------------------------------------------------
# the implementation's state w.r.t. the proposed fix (both states are handled)
# ------------------------------------------------------------------------------------------
def witness_extra_kw(cuqi):
    """Distribution.logd(z, x, foo=..) / logd(z, x, x=..): returns a number although an unknown / doubly given variable
    is passed.  (still_fails, detail)"""
    PD = polydist_class(cuqi)
    spec = {"name": 0, "dim": 2, "slots": [{"kind": "fn", "args": [1], "a": [2], "b": 1}], "c": 3, "m": [1], "q": 1, "r": 1}
    d = PD(spec, ["x", "z"])
    z, x = np.array([1, 2]), np.array([3, -1])
    got = []
    for label, kw in (("unknown keyword foo", {"foo": z}), ("own name x given twice", {"x": x + 1})):
        try:
            got.append("%s -> %r" % (label, d.logd(z, x, **kw)))
        except Exception:
            pass
    return (len(got) > 0, "x ~ PolyDist(q0=lambda z: ...); x.logd(z, x, <kw>): " + "; ".join(got) if got else "refused")


def witness_posterior_kw(cuqi):
    """J = p(y|x) p(x); J(y=data) is a Posterior in x; J(y=data)(x=value) must be the joint log-density at (x, y)"""
    PD = polydist_class(cuqi)
    fx = {"name": 0, "dim": 2, "slots": [{"kind": "fixed", "val": [2]}], "c": 1, "m": [1], "q": 1, "r": 1}
    fy = {"name": 1, "dim": 2, "slots": [{"kind": "fn", "args": [0], "a": [2], "b": 1}], "c": 3, "m": [1], "q": 1, "r": 1}
    vals = {0: [1, 2], 1: [3, -1]}
    total = factor_value_py(fx, vals) + factor_value_py(fy, vals)
    J = cuqi.distribution.JointDistribution(PD(fy, ["x", "y"]), PD(fx, ["x", "y"]))
    post = J(y=np.array(vals[1]))
    try:
        r = post(x=np.array(vals[0]))
        v = num(r.logd())
        if v == total:
            return (False, "J(y=data)(x=value).logd() = %s = joint log-density" % v)
        return (True, "J(y=data)(x=value).logd() = %s, joint log-density is %s" % (v, total))
    except Exception as e:
        return (True, "J = p(y|x)p(x): J(y=data) is a Posterior in x, J(y=data)(x=value) raises %s(%s) although J(y=data, x=value).logd() = %s" % (
            type(e).__name__, str(e)[:80], total))


def witness_collision(cuqi):
    """y | c, s with an attribute NAMED c that holds a callable of s (and c entering through another attribute); c ~ p, s ~ p.
    Fixing c and s in two steps must give the joint log-density, as fixing them in one step does."""
    PD = polydist_class(cuqi)
    fy = {"name": 2, "dim": 1, "slots": [{"kind": "fn", "args": [0], "a": [2], "b": 1, "attrvar": None},
                                         {"kind": "fn", "args": [1], "a": [3], "b": -1, "attrvar": 0}], "c": 1, "m": [1, 2], "q": 1, "r": 1}
    fc = {"name": 0, "dim": 1, "slots": [], "c": 2, "m": [], "q": 1, "r": 1}
    fs_ = {"name": 1, "dim": 1, "slots": [], "c": 3, "m": [], "q": 1, "r": 1}
    names = ["c", "s", "y"]
    vals = {0: [2], 1: [5], 2: [1]}
    total = sum(factor_value_py(f, vals) for f in (fy, fc, fs_))
    J = cuqi.distribution.JointDistribution(PD(fy, names), PD(fc, names), PD(fs_, names))
    arr = lambda j: np.array(vals[j])
    try:
        one = num(J.logd(c=arr(0), s=arr(1), y=arr(2)))
        two = num(J(c=arr(0))(s=arr(1)).logd(arr(2)))
        rev = num(J(s=arr(1))(c=arr(0)).logd(arr(2)))
    except Exception as e:
        return (True, "raised %r" % e)
    if one == two == rev == total:
        return (False, "one step, two steps and the reverse order all give %s" % total)
    return (True, "y ~ D(a=lambda c: .., c=lambda s: ..): joint log-density %s; J.logd(c,s,y) = %s, J(c)(s).logd(y) = %s, J(s)(c).logd(y) = %s" % (total, one, two, rev))


def known_witnesses(ctx):
    import cuqi
    return {SIG_EXTRA_KW: witness_extra_kw(cuqi), SIG_POST_KW: witness_posterior_kw(cuqi), SIG_COLLIDE: witness_collision(cuqi)}


# ------------------------------------------------------------------------------------------
# cases
# ------------------------------------------------------------------------------------------
def build_case(ctx, cuqi, strict, shape, part, style, rng, variant="joint"):
    PD = polydist_class(cuqi)
    fs, n = graph(rng, shape)
    names = rng.sample(VARNAMES, n)
    dims = {f["name"]: f["dim"] for f in fs}
    vals = {v: rand_vec(rng, dims[v]) for v in range(n)}
    fvalue = {f["name"]: factor_value_py(f, vals) for f in fs}
    total = sum(fvalue.values())
    # some factors handed to JointDistribution already as likelihoods (conditional ones only)
    pre = []
    if variant == "prelik":
        parents = set().union(*[deps(f) for f in fs])
        cand = [f["name"] for f in fs if deps(f) and f["name"] not in parents]     # else the joint has no prior for it
        if cand:
            pre = rng.sample(cand, rng.randint(1, min(2, len(cand))))
    dists = {f["name"]: PD(f, names) for f in fs}
    facs = [dists[f["name"]](**{names[f["name"]]: np.array(vals[f["name"]])}) if f["name"] in pre else dists[f["name"]] for f in fs]
    book = Book(fs, pre)
    fix = [v for v in choose_partition(rng, fs, n, part) if v not in pre]
    steps = make_steps(rng, book, fix, style)
    evals = make_evals(rng, book)
    meta = {"family": "poly", "variant": variant, "shape": shape, "part": part, "style": style, "names": names,
            "factors": fs, "pre": pre, "values": {str(k): v for k, v in vals.items()}, "steps": steps, "evals": evals}
    start = cuqi.distribution.JointDistribution(*facs)
    if variant == "problem":
        # BayesianProblem(*densities, **data): the first step is the constructor's conditioning, later ones set_data
        from cuqi.problem import BayesianProblem
        kwsteps = [st for st in steps]
        if any(st["args"] for st in kwsteps) or not kwsteps:
            return None
        obs, o = [], None
        try:
            bp = BayesianProblem(*facs, **{name_of(names, k): np.array(vals[j]) for k, j in kwsteps[0]["kw"]})
            o = bp._target
            obs.append(observe_stage(cuqi, o, names))
            for st in kwsteps[1:]:
                bp.set_data(**{name_of(names, k): np.array(vals[j]) for k, j in st["kw"]})
                o = bp._target
                obs.append(observe_stage(cuqi, o, names))
        except Exception:
            obs.append(None); o = None
        outs = []
        if o is not None:
            for ev in evals:
                try:
                    outs.append(num(do_call(o.logd, names, vals, ev)))
                except Exception:
                    outs.append(None)
        # set_data refuses once the target is no longer a JointDistribution: cut the history there (both sides)
        if obs and obs[-1] is None:
            return None
        final = o
    else:
        objs = []
        vals = Vals(vals).make_pool(rng)
        meta["argstyle"] = {str(k): v for k, v in vals.style.items()}
        final, obs, outs = drive(cuqi, start, names, vals, steps, evals, keep=objs)
        shared = reevaluate_earlier(objs, steps, names, vals, total) if all(ob is not None for ob in obs) else None
        if not shared and vals.changed():
            shared = "the argument objects passed for %s were modified by the calls" % [names[j] for j in vals.changed()]
    # ---- independent oracle: the property itself ----
    fail, sig = None, ""
    if variant != "problem" and shared:
        fail, sig = shared, "shared-state|parent-changed-by-conditioning|%s" % shape
    elif any(ob is None for ob in obs):
        fail = "conditioning call %d raised on a well-formed history" % len(obs)
        sig = "condition-raised|%s" % shape
    else:
        fk = obs[-1][0] if obs else 0
        for ev, out in zip(evals, outs):
            if ev["ok"] and out != total:
                fail = "%s evaluation of the conditioned object (kind %d) gives %s, joint log-density at the complete assignment is %s" % (
                    ev["form"], fk, None if out is None else float(out), total)
                sig = "value|kind%d|%s" % (fk, ev["form"])
                break
            if not ev["ok"] and out is not None:
                fail = "malformed evaluation (%s) on kind %d returned %s instead of raising" % (ev["form"], fk, float(out))
                sig = SIG_EXTRA_KW if (fk == 3 and ev["form"] in ("double", "unknown") and ev["args"]) else "not-refused|kind%d|%s" % (fk, ev["form"])
                break
    expr = "check_run %s 0%%Q %s %s %s %s" % (
        flags(), clist([cdens(f, vals, fvalue[f["name"]], f["name"] in pre) for f in fs]),
        clist([ccall(vals, st) for st in steps[:len(obs)]]), clist([cstage(ob) for ob in obs]),
        cevals(vals, evals, outs) if final is not None else "[]")
    trivial = (not fix) and not steps
    return Case(expr=expr, meta=meta, cell="poly/%s/%s/%s/%s" % (variant, shape, part, style), trivial=trivial,
                kind="EXACT", impl_fail=fail, signature=sig), final, (fs, names, vals, total, steps, obs)


def stacked_case(ctx, cuqi, shape, part, rng):
    """the stacked-vector view of the joint reached after the steps"""
    PD = polydist_class(cuqi)
    fs, n = graph(rng, shape)
    names = rng.sample(VARNAMES, n)
    vals = {f["name"]: rand_vec(rng, f["dim"]) for f in fs}
    fvalue = {f["name"]: factor_value_py(f, vals) for f in fs}
    total = sum(fvalue.values())
    book = Book(fs, [])
    fix = choose_partition(rng, fs, n, part)
    # keep at least two free variables so that the object stays a joint
    free = [v for v in range(n) if v not in fix]
    while len(free) < 2 and fix:
        free.append(fix.pop())
    steps = make_steps(rng, book, fix, "seq-kw")
    if book.kind() != "joint":
        return None
    o = cuqi.distribution.JointDistribution(*[PD(f, names) for f in fs])
    raised = None
    for st in steps:
        try:
            o = do_call(o, names, vals, st)
        except Exception as e:
            raised = "conditioning step %s raised %r" % (st, e)
            break
    cur = book.params()
    form = rng.choice(["exact", "exact", "exact", "long", "short"])
    x = [a for v in cur for a in vals[v]]
    if form == "long":
        x = x + [rng.randint(-9, 9)]
    if form == "short" and x:
        x = x[:-1]
    # np.split semantics re-stated: cut at the cumulative dimensions, the last piece takes what is left.  A vector of
    # the wrong length is NOT refused by the code (the pieces just get other lengths); the model follows that.
    eff, pos = dict(vals), 0
    for i, v in enumerate(cur):
        dv = len(vals[v])
        eff[v] = x[pos:] if i == len(cur) - 1 else x[pos:pos + dv]
        pos += dv
    # factors fixed during the steps were evaluated with the values current then (free variables enter them only as
    # likelihood parameters, i.e. through eff); every factor is evaluated at: fixed variables -> vals, free -> eff
    fvalue = {f["name"]: factor_value_py(f, eff) for f in fs}
    total = sum(fvalue.values())
    try:
        out = None if raised else num(o._as_stacked().logd(np.array(x)))
    except Exception:
        out = None
    fail, sig = None, ""
    if raised:
        fail, sig = raised, "condition-raised|stacked"
    elif form == "exact" and out != total:
        fail = "stacked view gives %s, joint log-density is %s" % (None if out is None else float(out), total)
        sig = "value|stacked"
    meta = {"family": "poly", "variant": "stacked", "shape": shape, "part": part, "names": names, "factors": fs,
            "values": {str(k): v for k, v in vals.items()}, "steps": steps, "stacked": x, "form": form}
    vals = eff
    expr = "check_stacked %s 0%%Q %s %s %s %s" % (flags(), clist([cdens(f, vals, fvalue[f["name"]], False) for f in fs]),
                                              clist([ccall(vals, st) for st in steps]), cqval(x), copt(out, cq))
    return Case(expr=expr, meta=meta, cell="poly/stacked/%s/%s/%s" % (shape, part, form), kind="EXACT", impl_fail=fail, signature=sig)


def dens_level_case(ctx, cuqi, strict, rng, which):
    """direct calls on a single Distribution / Likelihood: conditioning by position / keyword, evaluation forms"""
    PD = polydist_class(cuqi)
    n = rng.randint(2, 4)
    others = list(range(1, n))
    slots = []
    for _ in range(rng.randint(1, 3)):
        r = rng.random()
        if r < 0.5:
            slots.append(mk_slot(rng, "fn", [rng.choice(others)]))
        elif r < 0.8 and len(others) >= 2:
            slots.append(mk_slot(rng, "fn", rng.sample(others, 2)))
        else:
            slots.append(mk_slot(rng, "fixed", []))
    if which == "unset" :
        p = rng.choice(others)
        slots = [s for s in slots if not (s["kind"] == "fn" and p in s["args"])]
        slots.insert(rng.randint(0, len(slots)), mk_slot(rng, "unset", [p]))
    spec = mk_factor(rng, 0, rng.randint(1, 3), slots)
    names = rng.sample(VARNAMES, n)
    vals = {0: rand_vec(rng, spec["dim"])}
    for v in others:
        vals[v] = rand_vec(rng, rng.randint(1, 3))
    cv = cond_vars_py(slots)
    value = factor_value_py(spec, vals)
    d = PD(spec, names)
    # conditioning steps on the distribution itself
    steps, bound, is_lik = [], [], False
    for _ in range(rng.randint(0, 2)):
        free = [v for v in cv if v not in bound]
        choice = rng.random()
        if not free and is_lik:
            break
        if choice < 0.4 and free:
            m = rng.randint(1, len(free))
            st = {"args": free[:m], "kw": []}
            bound += free[:m]
        elif choice < 0.8 and free:
            g = rng.sample(free, rng.randint(1, len(free)))
            st = {"args": [], "kw": [[v, v] for v in g]}
            bound += g
        elif not is_lik:
            st = {"args": [], "kw": [[0, 0]]}
            is_lik = True
        else:
            continue
        steps.append(st)
        if is_lik and not [v for v in cv if v not in bound]:
            break
    free = [v for v in cv if v not in bound]
    cur = free + ([] if is_lik else [0])
    evals = []
    kwv = list(cur); rng.shuffle(kwv)
    evals.append({"form": "kw", "args": [], "kw": [[v, v] for v in kwv], "ok": True})
    evals.append({"form": "pos", "args": list(cur), "kw": [], "ok": True})
    if len(cur) >= 2:
        m = rng.randint(1, len(cur) - 1)
        rest = cur[m:]; rng.shuffle(rest)
        evals.append({"form": "mixed", "args": cur[:m], "kw": [[v, v] for v in rest], "ok": not is_lik})
    if cur:
        drop = rng.choice(cur)
        evals.append({"form": "missing", "args": [], "kw": [[v, v] for v in kwv if v != drop], "ok": False})
        evals.append({"form": "missing-pos", "args": cur[:-1], "kw": [], "ok": False})
        evals.append({"form": "double", "args": list(cur), "kw": [[cur[-1], cur[-1]]], "ok": False})
        evals.append({"form": "double-first", "args": [cur[0]], "kw": [[v, v] for v in kwv], "ok": False})
        evals.append({"form": "toomany", "args": list(cur) + [cur[-1]], "kw": [], "ok": False})
        evals.append({"form": "unknown-pos", "args": list(cur), "kw": [[UNKNOWN, cur[0]]], "ok": False})
    evals.append({"form": "unknown", "args": [], "kw": [[v, v] for v in kwv] + [[UNKNOWN, 0]], "ok": False})
    final, obs, outs = drive(cuqi, d, names, vals, steps, evals)
    fail, sig = None, ""
    if any(ob is None for ob in obs):
        fail, sig = "conditioning a distribution on its own conditioning variables raised", "condition-raised|dens"
    else:
        fk = obs[-1][0] if obs else 3
        for ev, out in zip(evals, outs):
            if ev["ok"] and out != value:
                fail = "%s evaluation (kind %d) gives %s, log-density at the complete assignment is %s" % (ev["form"], fk, out, value)
                sig = "value|dens-kind%d|%s" % (fk, ev["form"])
                break
            if not ev["ok"] and out is not None:
                fail = "malformed evaluation (%s) on kind %d returned %s instead of raising" % (ev["form"], fk, float(out))
                is_cond_dist = fk == 3 and len(cur) >= 2
                sig = SIG_EXTRA_KW if (is_cond_dist and ev["form"] in ("double", "unknown-pos")) else "not-refused|dens-kind%d|%s" % (fk, ev["form"])
                break
    meta = {"family": "poly", "variant": "dens", "which": which, "names": names, "factors": [spec],
            "values": {str(k): v for k, v in vals.items()}, "steps": steps, "evals": evals}
    expr = "check_run_dens %s 0%%Q %s %s %s %s" % (flags(), cdens(spec, vals, value, False),
                                                  clist([ccall(vals, st) for st in steps[:len(obs)]]),
                                                  clist([cstage(ob) for ob in obs]),
                                                  cevals(vals, evals, outs) if final is not None else "[]")
    return Case(expr=expr, meta=meta, cell="poly/dens/%s/%s" % (which, "lik" if is_lik else "dist"), kind="EXACT",
                impl_fail=fail, signature=sig)


def slots_case(ctx, cuqi, rng):
    """get_conditioning_variables before/after conditioning, against cond_vars / bind_slot"""
    PD = polydist_class(cuqi)
    n = rng.randint(3, 6)
    others = list(range(1, n))
    slots = []
    for _ in range(rng.randint(1, 4)):
        r = rng.random()
        if r < 0.4:
            slots.append(mk_slot(rng, "fn", [rng.choice(others)]))
        elif r < 0.8:
            slots.append(mk_slot(rng, "fn", rng.sample(others, 2)))
        else:
            slots.append(mk_slot(rng, "fixed", []))
    used = set(a for s in slots for a in s.get("args", []))
    un = [v for v in others if v not in used]
    if un and rng.random() < 0.6:
        slots.insert(rng.randint(0, len(slots)), mk_slot(rng, "unset", [rng.choice(un)]))
    spec = mk_factor(rng, 0, 2, slots)
    names = rng.sample(VARNAMES, n)
    d = PD(spec, names)
    cv = cond_vars_py(slots)
    keys = rng.sample(cv, rng.randint(0, len(cv))) if cv else []
    exp_after = [v for v in cv if v not in keys]
    try:
        before = [names.index(p) for p in d.get_conditioning_variables()]
        d2 = d(**{names[k]: np.array(rand_vec(rng, 2)) for k in keys})
        after = [names.index(p) for p in d2.get_conditioning_variables()]
        fail = None if (before == cv and after == exp_after) else "conditioning variables %s -> %s, expected %s -> %s" % (before, after, cv, exp_after)
    except Exception as e:
        before, after = [UNKNOWN], [UNKNOWN]
        fail = "conditioning on %s raised %r" % ([names[k] for k in keys], e)
    expr = "check_slots %s %s %s %s" % (clist([cslot(s) for s in slots]), cvl(keys), cvl(before), cvl(after))
    return Case(expr=expr, meta={"family": "poly", "variant": "slots", "slots": slots, "keys": keys, "names": names},
                cell="poly/slots", kind="DECISION", impl_fail=fail, signature="conditioning-variables-order" if fail else "")



# ------------------------------------------------------------------------------------------
# branching histories: all objects kept alive, earlier objects re-evaluated after every step, several
# children from the same parent (both orders, identical conditioning repeated)
# ------------------------------------------------------------------------------------------
HSHAPES = ["indeproot", "indep", "pair", "chain", "hier", "hier5", "mlp2", "mlp3h", "twoarg", "threearg", "multifirst", "collide", "collide-value", "unset", "random"]
HKINDS = ["dist", "posterior", "mlp", "joint"]
HIST_VARIANTS = ("history", "problem-history", "dens-history", "user-posterior")


def subset_for_kind(rng, fs, n, kind):
    """a set of variables whose fixing sends the joint through the wanted reduction branch (None if the graph has none)"""
    import itertools as it
    cands = []
    for k in range(1, n + 1):
        for sub in it.combinations(range(n), k):
            b = Book(fs, [])
            b.fixed = set(sub)
            if len(b.params()) == 0:
                continue
            if b.kind() == kind:
                cands.append(list(sub))
    if not cands:
        return None
    if kind == "dist":
        # prefer the case where the remaining distribution received NO keyword (an independent factor): its object is
        # the one a careless _condition would share with the parent
        pref = [c for c in cands if not (deps([f for f in fs if f["name"] not in c][0]) & set(c))]
        if pref and rng.random() < 0.8:
            cands = pref
    return rng.choice(cands)


def full_call(rng, ps, positional=False):
    if positional:
        return {"args": list(ps), "kw": []}
    kwv = list(ps); rng.shuffle(kwv)
    return {"args": [], "kw": [[v, v] for v in kwv]}


class Prog:
    """a program over live objects (object 0 = start).  Ops:
         ("cond", src, call, tag)        obj(args, keywords)            tag: "" | "postkw" (Posterior on its own parameter by keyword)
         ("eval", src, call, expect)     obj.logd(...)                  expect: number, or None = must raise
         ("stack", src)                  obj._as_stacked()
         ("bpinit", src, kw)             BayesianProblem(*factors, **data)._target      (= conditioning the joint)
         ("setdata", src, kw, ok)        problem.set_data(**data)._target               (ok: False = must be refused)
         ("view", which, src, expect_ok) problem.likelihood / problem.prior
       and per object: params (ordered), flavour, expected value of a complete evaluation"""

    def __init__(self, rng, fs, fvalue, vals=None, valfn=None):
        self.rng, self.fs, self.fvalue, self.vals, self.alts = rng, fs, fvalue, vals, {}
        self.real = valfn is not None
        self.valfn = valfn or (lambda f, asg: factor_value_py(f, asg))
        self.poked = {}          # var -> value id currently written INTO the variable's argument object
        self.total = sum(fvalue.values())
        self.ops = []
        self.objs = [{"book": Book(fs, []), "flav": "joint", "expect": self.total, "reduced": False, "alive": True}]

    def total_with(self, ov):
        """the joint log-density when the variables in ov = {var: value id} take other values"""
        tot = 0
        for f in self.fs:
            rel = {k: j for k, j in ov.items() if k == f["name"] or k in deps(f)}
            tot = tot + (self.alt_value(f, rel) if rel else self.fvalue[f["name"]])
        return tot

    def new_alt(self, v):
        """a second value for variable v (same container type and integrality): returns its value id"""
        i = ALT + 2 + len([k for k in self.vals if isinstance(k, int) and k >= ALT + 2])
        base = self.vals[v]
        if self.real:        # stay inside the supports (Beta, Uniform, positive scales): scale by 17/16
            self.vals[i] = base * 1.0625 if isinstance(base, float) else [a * 1.0625 for a in base]
        else:
            self.vals[i] = [a + 1 for a in base]
        return i

    def eval_bad(self, i):
        """a malformed evaluation of object i in whatever life-cycle state it is in: must be refused"""
        o = self.objs[i]
        if not o["alive"]:
            return
        ps = self.params(i)
        r = self.rng
        if o["flav"] == "stacked":
            form = r.choice(["none", "two", "unknown"])
            call = {"none": {"args": [], "kw": []}, "two": {"args": [ps[0], ps[0]] if ps else [0, 0], "kw": []},
                    "unknown": {"args": [], "kw": [[UNKNOWN, ps[0] if ps else 0]]}}[form]
            if form == "none" and not ps:
                return
        else:
            forms = ["unknown", "toomany"] + (["missing", "double"] if ps else [])
            form = r.choice(forms)
            kwv = [[v, self.poked.get(v, v)] for v in ps]
            any_id = ps[0] if ps else 0
            call = {"unknown": {"args": [], "kw": kwv + [[UNKNOWN, any_id]]},
                    "toomany": {"args": list(ps) + [any_id], "kw": []},
                    "missing": {"args": [], "kw": kwv[1:]},
                    "double": {"args": ps[:1], "kw": kwv}}[form]
            if form == "missing" and len(ps) == 1 and o["flav"] == "E":
                return
        self.ops.append(("eval", i, call, "ERR"))

    def params(self, i):
        o = self.objs[i]
        if o["flav"] == "fac":
            free = [v for v in cond_vars_py(o["spec"]["slots"]) if v not in o["bound"]]
            return free + ([] if o["lik"] else [o["spec"]["name"]])
        return o["params"] if "params" in o else o["book"].params()

    # -- single factor objects of the joint (the very objects the joint holds), conditioned directly --
    def factor(self, k):
        f = self.fs[k]
        self.ops.append(("factor", 0, k))
        idx = self.new(flav="fac", spec=f, bound={}, lik=False, data=None, expect=self.fvalue[f["name"]], reduced=True, book=None)
        self.eval_all()
        return idx

    def fcond(self, src, sub, use=None):
        """condition a factor object on `sub` by keyword; use = {var: value id} passes another VALUE for a variable (ALT ids)"""
        o = self.objs[src]
        use = use or {}
        kwv = list(sub); self.rng.shuffle(kwv)
        self.ops.append(("cond", src, {"args": [], "kw": [[v, use.get(v, v)] for v in kwv]}, ""))
        f = o["spec"]
        bound = dict(o["bound"]); data = o["data"]; lik = o["lik"]
        for v in sub:
            if v == f["name"]:
                lik, data = True, use.get(v, v)
            else:
                bound[v] = use.get(v, v)
        ov = {v: j for v, j in bound.items() if j != v}
        if lik and data != f["name"]:
            ov[f["name"]] = data
        expect = self.alt_value(f, ov) if ov else self.fvalue[f["name"]]
        idx = self.new(flav="fac", spec=f, bound=bound, lik=lik, data=data, expect=expect, reduced=True, book=None, ov=ov)
        self.eval_all()
        return idx

    def alt_value(self, f, ov):
        v = self.valfn(f, {**self.vals, **{k: self.vals[j] for k, j in ov.items()}})
        self.alts.setdefault(f["name"], [])
        if (ov, v) not in self.alts[f["name"]]:
            self.alts[f["name"]].append((dict(ov), v))
        return v

    def mkpost(self, l, p_):
        """Posterior(likelihood, prior, name=prior.name) built by the user"""
        self.ops.append(("mkpost", l, p_))
        x = self.objs[p_]["spec"]["name"]
        idx = self.new(flav="upost", params=[x], expect=self.objs[l]["expect"] + self.objs[p_]["expect"], reduced=True, book=None)
        self.eval_all()
        return idx

    def setview(self, which, t, src):
        """problem.likelihood = obj / problem.prior = obj : the Posterior target object itself changes"""
        self.ops.append(("setlik" if which == 0 else "setprior", t, src))
        o = self.objs[t]
        o["expect"] = o["expect"] - o["parts"][which] + self.objs[src]["expect"]
        o["parts"][which] = self.objs[src]["expect"]
        self.eval_all()

    def kind(self, i):
        o = self.objs[i]
        if o["flav"] in ("lik", "prior", "E", "fac", "upost", "subjoint"):
            return o["flav"]
        k = o["book"].kind()
        if not o["reduced"]:
            return "joint"
        return k

    def eval_one(self, i):
        o = self.objs[i]
        if not o["alive"]:
            return
        ps = self.params(i)
        pk = {v: j for v, j in self.poked.items() if v in ps}
        if o["flav"] == "stacked":
            if pk:
                return
            call = {"args": [], "kw": [], "stack": list(ps), "stackkw": self.rng.random() < 0.35}
        elif pk:
            # the SAME argument objects as before, some overwritten in place by the caller: encoded with the new values
            kwv = list(ps); self.rng.shuffle(kwv)
            call = {"args": [], "kw": [[v, pk.get(v, v)] for v in kwv], "poked": sorted(pk)}
        else:
            call = full_call(self.rng, ps, positional=self.rng.random() < 0.3)
        exp = o["expect"]
        if pk and o["flav"] in ("joint", "stacked"):
            exp = self.total_with({**o.get("ov", {}), **pk})
        elif pk:
            return
        self.ops.append(("eval", i, call, exp))

    def eval_all(self):
        """after every op: the start object, the newest object and a random 60% of the others are re-evaluated"""
        n = len(self.objs)
        for i in range(n):
            if i in (0, n - 1) or self.poked or self.rng.random() < 0.6:
                self.eval_one(i)
            if self.rng.random() < 0.2:
                self.eval_bad(i)

    def poke(self, v, j):
        """the caller overwrites the argument object of variable v IN PLACE with the value vals[j] (j = v restores it)"""
        self.ops.append(("poke", v, j))
        if j == v:
            self.poked.pop(v, None)
        else:
            self.poked[v] = j

    def new(self, **o):
        o.setdefault("alive", True)
        self.objs.append(o)
        return len(self.objs) - 1

    def cond(self, src, sub, positional=False, use=None):
        o = self.objs[src]
        use = use or {}
        sub = [v for v in sub if v in self.params(src)]
        b = Book(self.fs, [])
        b.fixed = set(o["book"].fixed) | set(sub)
        kwv = list(sub); self.rng.shuffle(kwv)
        tag = ""
        alive = True
        if self.kind(src) == "posterior" and sub:
            if positional:
                call = {"args": list(sub), "kw": []}
            else:
                call = {"args": [], "kw": [[v, v] for v in kwv]}
                tag = "postkw"
                alive = STATE["pnamed"]
        elif positional and self.params(src)[:len(sub)] == sorted(sub, key=self.params(src).index) and o["flav"] != "E":
            call = {"args": self.params(src)[:len(sub)], "kw": []}
        else:
            call = {"args": [], "kw": [[v, use.get(v, v)] for v in kwv]}
        self.ops.append(("cond", src, call, tag))
        flav = "joint"
        if o["flav"] == "stacked" and (len(b.params()) != 1):
            flav = "stacked"          # copy(self) keeps the class unless the reduction builds another object
        ov = {**o.get("ov", {}), **{v: j for v, j in use.items() if v in sub}}
        idx = self.new(book=b, flav=flav, expect=self.total_with(ov) if ov else self.total, reduced=True, alive=alive, ov=ov)
        self.eval_all()
        return idx

    def pcond(self, src, positional):
        """condition a Posterior object (reduced or user-built) on its own parameter"""
        o = self.objs[src]
        x = self.params(src)
        if positional:
            call, tag, alive = {"args": list(x), "kw": []}, "", True
        else:
            call, tag, alive = {"args": [], "kw": [[x[0], x[0]]]}, "postkw", STATE["pnamed"]
        self.ops.append(("cond", src, call, tag))
        idx = self.new(flav="E", params=[], expect=o["expect"], reduced=True, book=None, alive=alive)
        self.eval_all()
        return idx

    def join(self, src):
        """JointDistribution(obj): a new joint assembled from a reduced single Distribution (which carries folded constants)"""
        o = self.objs[src]
        self.ops.append(("join", [src]))
        idx = self.new(book=o["book"], flav="joint", expect=o["expect"], reduced=False, ov=o.get("ov", {}))
        self.eval_all()
        return idx

    def join_factors(self, srcs, fixed_after):
        """JointDistribution(*factor objects) over a SUB-graph, then conditioned on `fixed_after`: a reduced Distribution that
        carries the constants of the sub-graph's fixed variables (built from the very factor objects the big joint holds)"""
        self.ops.append(("join", list(srcs)))
        specs = [self.objs[i]["spec"] for i in srcs]
        tot = sum(self.objs[i]["expect"] for i in srcs)
        j = self.new(flav="subjoint", params=[f["name"] for f in specs], expect=tot, reduced=True, book=None)
        self.eval_all()
        kwv = list(fixed_after); self.rng.shuffle(kwv)
        self.ops.append(("cond", j, {"args": [], "kw": [[v, v] for v in kwv]}, ""))
        rest = [f for f in specs if f["name"] not in fixed_after]
        d = self.new(flav="fac", spec=rest[0], bound={v: v for v in cond_vars_py(rest[0]["slots"])}, lik=False, data=None,
                     expect=tot, reduced=True, book=None)
        self.eval_all()
        return d

    def stack(self, src):
        o = self.objs[src]
        self.ops.append(("stack", src))
        idx = self.new(book=o["book"], flav="stacked", expect=o["expect"], reduced=False, ov=o.get("ov", {}))
        self.eval_all()
        return idx


def history_program(rng, fs, n, kind, order, fvalue, with_stack=True, vals=None, valfn=None):
    S = subset_for_kind(rng, fs, n, kind)
    if S is None:
        return None
    S2 = rng.sample(range(n), rng.randint(1, max(1, n - 1)))
    if sorted(S2) == sorted(S) and n > 1:
        S2 = [v for v in range(n) if v not in S][:1] or S2
    P = Prog(rng, fs, fvalue, vals, valfn)
    P.eval_all()
    if vals is not None:
        # two children of the same parent fixed to DIFFERENT values of one variable, both alive, the first evaluated after the
        # second was created (shallow copies must not share what the value went into)
        v = rng.choice(S)
        P.cond(0, S, use={v: P.new_alt(v)})
    seq = [S, S, S2] if order == 0 else [S2, S, S]
    kids = [P.cond(0, sub) for sub in seq]
    # grand-children: a Posterior on its own parameter (by keyword, and positionally); another child on part of its rest
    done_post = False
    for kdx in kids:
        ps = P.params(kdx)
        if not ps:
            continue
        if P.kind(kdx) == "posterior":
            if not done_post:
                P.cond(kdx, ps, positional=True)
                P.cond(kdx, ps, positional=False)
                done_post = True
            continue
        P.cond(kdx, rng.sample(ps, rng.randint(1, len(ps))), positional=rng.random() < 0.3)
        break
    # re-assembly: a reduced Distribution (with its folded constants) put into a NEW joint, which is reduced again
    for kdx in kids:
        if P.kind(kdx) == "dist" and P.params(kdx):
            j = P.join(kdx)
            P.cond(j, [])
            P.cond(j, P.params(j))
            break
    if not with_stack:
        P.cond(0, S)
        overwrite_in_place(P, rng, n)
        return P
    # the stacked view of the parent and of a child that is still a joint; conditioning the stacked objects
    s0 = P.stack(0)
    P.cond(s0, S if order == 0 else S2)
    for kdx in kids:
        if P.kind(kdx) == "joint" and len(P.params(kdx)) >= 2:
            sk = P.stack(kdx)
            ps = P.params(sk)
            P.cond(sk, rng.sample(ps, rng.randint(1, len(ps) - 1)), positional=rng.random() < 0.3)
            break
    # the parent once more, the identical conditioning a third time
    P.cond(0, S)
    overwrite_in_place(P, rng, n)
    return P


def overwrite_in_place(P, rng, n):
    """aliasing over time: the caller overwrites IN PLACE the argument object of a variable that was only ever passed to
    evaluations, evaluates again with the same object, restores it and evaluates once more"""
    if P.vals is None:
        return
    used = set()
    for op in P.ops:
        if op[0] in ("cond", "bpinit", "setdata"):
            kws = op[2]["kw"] if op[0] == "cond" else op[2]
            used |= set(k for k, _ in kws) | set(op[2]["args"] if op[0] == "cond" else [])
    free = [v for v in range(n) if v not in used]
    if not free:
        return
    v = rng.choice(free)
    P.poke(v, P.new_alt(v))
    P.eval_all()
    P.poke(v, v)
    P.eval_all()


def user_posterior_program(rng, fs, n, fvalue, vals):
    """the factor objects of the joint conditioned directly, a Posterior built by the user from them, and the joint itself
    conditioned afterwards (the factor objects are shared)"""
    pairs = [(fy, x) for fy in fs for x in deps(fy)]
    if not pairs:
        return None
    def root_hypers(x):
        hx = cond_vars_py([f for f in fs if f["name"] == x][0]["slots"])
        return bool(hx) and all(not deps(f) for f in fs if f["name"] in hx)
    pref = [p_ for p_ in pairs if root_hypers(p_[1])]
    fy, x = rng.choice(pref if (pref and rng.random() < 0.75) else pairs)
    fxs = [f for f in fs if f["name"] == x][0]
    P = Prog(rng, fs, fvalue, vals)
    P.eval_all()
    o = P.factor(fs.index(fy))
    hy = [v for v in cond_vars_py(fy["slots"]) if v != x]
    for v in hy:                                   # hyper-parameters of the data distribution one per call
        o = P.fcond(o, [v])
    ly = P.fcond(o, [fy["name"]])
    px = P.factor(fs.index(fxs))
    hx = cond_vars_py(fxs["slots"])
    if hx:
        px = P.fcond(px, hx)
    up = P.mkpost(ly, px)
    P.pcond(up, positional=True)
    P.pcond(up, positional=False)
    # a second user posterior whose PRIOR carries folded constants: the sub-joint of x and its (root) hyper-parameters,
    # conditioned on them, reduces to a Distribution in x with their log-densities in _constant
    roots = [f for f in fs if f["name"] in hx and not deps(f)]
    if hx and len(roots) == len(hx):
        srcs = [P.factor(fs.index(f)) for f in roots] + [P.factor(fs.index(fxs))]
        pxc = P.join_factors(srcs, hx)
        up2 = P.mkpost(ly, pxc)
        P.pcond(up2, positional=True)
    P.cond(0, [fy["name"]] + hy)
    return P


def problem_program(rng, fs, n, kind, fvalue, vals=None):
    """BayesianProblem(*factors, **data), set_data, and its likelihood / prior / posterior views of the same joint"""
    S = subset_for_kind(rng, fs, n, kind)
    if S is None:
        return None
    P = Prog(rng, fs, fvalue, vals)
    P.eval_all()
    S = list(S); rng.shuffle(S)
    cut = rng.randint(0, len(S))
    first, second = S[:cut], S[cut:]

    def target_op(op, src, sub, ok=True):
        b = Book(fs, [])
        b.fixed = set(P.objs[src]["book"].fixed) | set(sub)
        kw = [[v, v] for v in sub]
        P.ops.append((op, src, kw) if op == "bpinit" else (op, src, kw, ok))
        idx = P.new(book=b, flav="joint", expect=P.total, reduced=True, alive=ok)
        P.eval_all()
        return idx

    t = target_op("bpinit", 0, first)
    if second or rng.random() < 0.5:
        ok = P.kind(t) in ("joint", "mlp")          # set_data refuses once the target is no longer a JointDistribution
        t2 = target_op("setdata", t, second, ok)
        if ok:
            t = t2
    if P.kind(t) == "posterior":
        x = P.params(t)[0]
        b = P.objs[t]["book"]
        likf = [f for f in fs if f["name"] in b.fixed and (deps(f) - b.fixed)][0]
        for which, flav, val in ((0, "lik", fvalue[likf["name"]]), (1, "prior", fvalue[x])):
            P.ops.append(("view", which, t, True))
            P.new(book=b, flav=flav, expect=val, params=[x], reduced=True)
            P.eval_all()
        # the data can no longer be set
        target_op("setdata", t, [], False)
        # the setters write into the Posterior target in place: a new prior (one hyper-parameter at ANOTHER value) and a
        # new likelihood (OTHER data), both made from the factor objects the joint holds
        if vals is not None:
            P.objs[t]["parts"] = [fvalue[likf["name"]], fvalue[x]]
            fxs = [f for f in fs if f["name"] == x][0]
            px = P.factor(fs.index(fxs))
            hx = cond_vars_py(fxs["slots"])
            if hx:
                h = rng.choice(hx)
                vals[ALT] = rand_vec(rng, len(vals[h]))
                px = P.fcond(px, hx, use={h: ALT})
            P.setview(1, t, px)
            o = P.factor(fs.index(likf))
            hy = [v for v in cond_vars_py(likf["slots"]) if v != x]
            if hy:
                o = P.fcond(o, hy)
            vals[ALT + 1] = rand_vec(rng, len(vals[likf["name"]]))
            ly = P.fcond(o, [likf["name"]], use={likf["name"]: ALT + 1})
            P.setview(0, t, ly)
    else:
        P.ops.append(("view", rng.randint(0, 1), t, False))
        P.new(book=P.objs[t]["book"], flav="E", expect=None, params=[], reduced=True, alive=False)
    # the joint itself conditioned after the problem was built from the same factor objects
    P.cond(0, S)
    return P


def run_history(cuqi, start, names, vals, ops, facs=None):
    """execute a program on the real objects; returns per-op observation (stage obs for creating ops, value for eval)"""
    objs, res, bps = [start], [], {}
    for op in ops:
        kind = op[0]
        if kind == "poke":
            a = vals.pool[op[1]]
            if isinstance(a, (int, float, Fraction)) and not isinstance(a, np.ndarray):
                vals.pool[op[1]] = vals[op[2]] if isinstance(vals[op[2]], float) else vals[op[2]][0]      # immutable: nothing to alias
            elif np.ndim(a) == 0:
                a[...] = vals[op[2]][0]
            else:
                a[:] = vals[op[2]]
            res.append("poke")
            continue
        if kind == "eval":
            try:
                res.append(num(do_call(objs[op[1]].logd, names, vals, op[2])))
            except Exception:
                res.append(None)
            continue
        try:
            if kind == "cond":
                o = do_call(objs[op[1]], names, vals, op[2])
            elif kind == "stack":
                o = objs[op[1]]._as_stacked()
            elif kind == "join":
                o = cuqi.distribution.JointDistribution(*[objs[i] for i in op[1]])
            elif kind == "factor":
                o = facs[op[2]]
            elif kind == "mkpost":
                o = cuqi.distribution.Posterior(objs[op[1]], objs[op[2]], name=objs[op[2]].name)
            elif kind in ("setlik", "setprior"):
                bp = bps[op[1]]
                if kind == "setlik":
                    bp.likelihood = objs[op[2]]
                else:
                    bp.prior = objs[op[2]]
                res.append(observe_stage(cuqi, bp._target, names))
                continue
            elif kind == "bpinit":
                from cuqi.problem import BayesianProblem
                bp = BayesianProblem(*facs, **{name_of(names, k): arg_of(vals, j) for k, j in op[2]})
                o = bp._target
                bps[len(objs)] = bp
            elif kind == "setdata":
                bp = bps[op[1]]
                bp.set_data(**{name_of(names, k): arg_of(vals, j) for k, j in op[2]})
                o = bp._target
                bps[len(objs)] = bp
            elif kind == "view":
                bp = bps[op[2]]
                o = bp.likelihood if op[1] == 0 else bp.prior
                if op[1] == 0 and bp.posterior is not bp._target:
                    raise RuntimeError("posterior view is not the target")
            if o is None:
                raise TypeError("returned None")
            res.append(observe_stage(cuqi, o, names))
        except Exception:
            o = None
            res.append(None)
        if kind in ("setlik", "setprior"):
            continue                      # refused: nothing changes, no new object
        objs.append(o)
    return res


def history_oracle(ops, res, total, rel=0):
    """the property on a program: every evaluation of every live object = its expected value (the joint log-density at
    the complete assignment; for the likelihood/prior views their factor), creating calls raise only where stated"""
    newest = 0
    for op, r in zip(ops, res):
        kind = op[0]
        if kind == "poke":
            continue
        if kind == "eval":
            exp = op[3]
            if exp is None:
                continue
            if exp == "ERR":
                if r is not None:
                    return ("malformed evaluation %s of object %d (after %d later object(s)) returned %s instead of raising" % (
                        {k: v for k, v in op[2].items() if k in ("args", "kw")}, op[1], newest - op[1], float(r)), "not-refused|history")
                continue
            if r is None or abs(r - exp) > rel * (1 + abs(exp)):
                older = op[1] < newest
                what = ("earlier object %d re-evaluated after %d later object(s) were derived" % (op[1], newest - op[1])) if older else "newest object %d" % op[1]
                return ("%s gives %s, expected %s" % (what, None if r is None else float(r), exp),
                        "shared-state|earlier-object-changed" if older else "value|history-child")
            continue
        if kind in ("setlik", "setprior"):
            if r is None:
                return "likelihood/prior setter of a problem with a Posterior target raised", "condition-raised|setter"
            continue
        newest += 1
        if kind == "cond" and r is None:
            if op[3] == "attr":
                continue
            if op[3] == "postkw":
                if not STATE["pnamed"]:
                    return ("object %d is a Posterior; conditioning it on its own parameter by keyword raised" % op[1], SIG_POST_KW)
                return ("object %d is a Posterior; conditioning it on its own parameter by keyword raised" % op[1], "condition-raised|posterior-keyword")
            return "conditioning object %d raised on a well-formed call" % op[1], "condition-raised|history"
        if kind == "cond" and op[3] == "attr" and r is not None:
            return ("conditioning object %d on the attribute name of a mutable variable that is not a conditioning variable was accepted" % op[1],
                    "not-refused|attribute-keyword")
        if kind in ("stack", "bpinit", "join", "factor", "mkpost") and r is None:
            return "%s on object %d raised" % (kind, op[1]), "condition-raised|" + kind
        if kind == "setdata":
            if op[3] and r is None:
                return "set_data on a joint target raised", "condition-raised|set_data"
            if not op[3] and r is not None:
                return "set_data on a target that is no longer a joint did not raise", "not-refused|set_data"
        if kind == "view" and op[3] and r is None:
            return "likelihood/prior view of a Posterior target raised", "condition-raised|view"
    return None, ""


def chop(vals, op, r, pre="q", cst=None):
    cst = cst or cstage
    kind = op[0]
    if kind == "poke":
        return None
    if kind == "eval":
        return "(%sEval %s %s %s)" % (pre, cnat(op[1]), ccall(vals, op[2]), copt(r, cq) if pre == "q" else r)
    if kind in ("cond", "bpinit"):
        call = op[2] if kind == "cond" else {"args": [], "kw": op[2]}
        return "(%sCond %s %s %s)" % (pre, cnat(op[1]), ccall(vals, call), cst(r))
    if kind == "stack":
        return "(%sStack %s %s)" % (pre, cnat(op[1]), cst(r))
    if kind == "join":
        return "(%sJoin %s %s)" % (pre, clist([cnat(i) for i in op[1]]), cst(r))
    if kind == "factor":
        return "(%sFactor %s %s %s)" % (pre, cnat(op[1]), cnat(op[2]), cst(r))
    if kind == "mkpost":
        return "(%sMkPost %s %s %s)" % (pre, cnat(op[1]), cnat(op[2]), cst(r))
    if kind in ("setlik", "setprior"):
        return "(%s%s %s %s %s)" % (pre, "SetLik" if kind == "setlik" else "SetPrior", cnat(op[1]), cnat(op[2]), cst(r))
    if kind == "setdata":
        return "(%sSetData %s %s %s)" % (pre, cnat(op[1]), clist(["(%s, %s)" % (cvar(k), cqval(vals[j])) for k, j in op[2]]), cst(r))
    if kind == "view":
        return "(%sView %s %s %s)" % (pre, cnat(op[1]), cnat(op[2]), cst(r))
    raise ValueError(kind)


def history_case(ctx, cuqi, strict, shape, kind, order, rng, variant="history"):
    PD = polydist_class(cuqi)
    fs, n = graph(rng, shape)
    names = rng.sample(VARNAMES, n)
    vals = {f["name"]: rand_vec(rng, f["dim"]) for f in fs}
    fvalue = {f["name"]: factor_value_py(f, vals) for f in fs}
    if variant == "history":
        P = history_program(rng, fs, n, kind, order, fvalue, vals=vals)
    elif variant == "user-posterior":
        P = user_posterior_program(rng, fs, n, fvalue, vals)
    else:
        P = problem_program(rng, fs, n, kind, fvalue, vals)
    if P is None:
        return None
    ops, total = P.ops, P.total
    facs = [PD(f, names) for f in fs]
    start = cuqi.distribution.JointDistribution(*facs)
    vals = Vals(vals).make_pool(rng)
    res = run_history(cuqi, start, names, vals, ops, facs)
    fail, sig = history_oracle(ops, res, total)
    if not fail and vals.changed():
        fail, sig = "the argument objects passed for %s were modified by the calls" % [names[j] for j in vals.changed() if j < len(names)], "input-mutated|history"
    meta = {"family": "poly", "variant": variant, "shape": shape, "branch": kind, "order": order, "names": names, "factors": fs,
            "values": {str(k): v for k, v in vals.items()}, "argstyle": {str(k): v for k, v in vals.style.items()},
            "ops": [list(op) for op in ops[:len(res)]]}
    expr = "check_history %s 0%%Q %s %s" % (flags(), clist([cdens(f, vals, fvalue[f["name"]], False, alts=P.alts.get(f["name"], ())) for f in fs]),
                                           clist([x for x in (chop(vals, op, r) for op, r in zip(ops, res)) if x is not None]))
    return Case(expr=expr, meta=meta, cell="poly/%s/%s/%s/order%d" % (variant, shape, kind, order), kind="EXACT", impl_fail=fail, signature=sig)


def dens_history_case(ctx, cuqi, rng, nargs):
    """branching histories on ONE Distribution object: several children of the same distribution / likelihood, conditioning
    variables fixed in separate steps (a callable with `nargs` arguments staged over `nargs` calls), every earlier object
    re-evaluated after every step"""
    PD = polydist_class(cuqi)
    n = nargs + 2
    others = list(range(1, n))
    big = rng.sample(others, nargs)
    slots = [mk_slot(rng, "fn", big)]
    for _ in range(rng.randint(0, 2)):
        k = rng.randint(1, min(3, len(others)))
        slots.insert(rng.randint(0, len(slots)), mk_slot(rng, "fn", rng.sample(others, k)) if rng.random() < 0.8 else mk_slot(rng, "fixed", []))
    spec = mk_factor(rng, 0, rng.randint(1, 3), slots)
    names = rng.sample(VARNAMES, n)
    vals = {0: rand_vec(rng, spec["dim"])}
    for v in others:
        vals[v] = rand_vec(rng, rng.randint(1, 3))
    cv = cond_vars_py(slots)
    value = factor_value_py(spec, vals)
    objs = [{"bound": [], "lik": False}]
    ops = []

    def params(i):
        o = objs[i]
        if o.get("dead"):
            return None
        return [v for v in cv if v not in o["bound"]] + ([] if o["lik"] else [0])

    def eval_all():
        for i in range(len(objs)):
            if params(i) is not None:
                ops.append(("eval", i, full_call(rng, params(i), positional=rng.random() < 0.4), value))

    def refused(src, key, val):
        """a keyword naming a mutable variable (attribute) that is not a conditioning variable must be refused"""
        ops.append(("cond", src, {"args": [], "kw": [[key, val]]}, "attr"))
        objs.append({"dead": True})
        eval_all()

    def cond(src, sub, positional=False):
        o = objs[src]
        free = [v for v in cv if v not in o["bound"]]
        if positional:
            sub = free[:max(1, min(len(sub), len(free)))] if free else []
            call = {"args": list(sub), "kw": []}
        else:
            kwv = list(sub); rng.shuffle(kwv)
            call = {"args": [], "kw": [[v, v] for v in kwv]}
        ops.append(("cond", src, call, ""))
        objs.append({"bound": o["bound"] + [v for v in sub if v != 0], "lik": o["lik"] or (0 in sub)})
        eval_all()
        return len(objs) - 1

    eval_all()
    staged = list(big); rng.shuffle(staged)
    cur = 0
    for v in staged:                       # the arguments of the multi-argument callable one per call
        cur = cond(cur, [v], positional=False)
    plain = [i for i, sl in enumerate(slots) if sl.get("attrvar") is None]
    if plain:
        refused(cur, ATTR + rng.choice(plain), staged[0])          # the attribute name of a callable / fixed mutable variable
        refused(0, ATTR + plain[0], staged[0])
    own = [sl["attrvar"] for sl in slots if sl.get("attrvar") is not None and sl["attrvar"] in objs[cur]["bound"]]
    if own:
        refused(cur, own[0], own[0])                                # an attribute named after its own (already fixed) argument
    a = cond(0, [staged[0]])               # a second child of the ORIGINAL distribution: same variable again
    b = cond(0, [0])                       # the original as a likelihood
    cond(b, [staged[-1]])                  # and the likelihood conditioned
    cond(a, [0] + [v for v in cv if v != staged[0]][:1])
    cond(0, cv[:1], positional=True)
    d = PD(spec, names)
    vals = Vals(vals).make_pool(rng)
    res = run_history(cuqi, d, names, vals, ops)
    fail, sig = history_oracle(ops, res, value)
    if not fail and vals.changed():
        fail, sig = "argument objects were modified by the calls", "input-mutated|dens-history"
    meta = {"family": "poly", "variant": "dens-history", "names": names, "factors": [spec],
            "values": {str(k): v for k, v in vals.items()}, "ops": [list(op) for op in ops[:len(res)]]}
    expr = "check_history_dens %s 0%%Q %s %s" % (flags(), cdens(spec, vals, value, False),
                                                clist([chop(vals, op, r) for op, r in zip(ops, res)]))
    return Case(expr=expr, meta=meta, cell="poly/dens-history/%darg" % nargs, kind="EXACT", impl_fail=fail, signature=sig)


def default_paths_case(ctx, cuqi, shape, rng, which):
    """oracle-level cells for two paths of the anchored code the model does not describe:
       'inferred-names'  the shipped DEFAULT name=None: names inferred from the Python variables holding the distributions;
       'posterior-factor' a Posterior (a Distribution SUBCLASS) used as a factor of a new joint with independent factors"""
    PD = polydist_class(cuqi)
    fs, n = graph(rng, shape)
    names = rng.sample(VARNAMES, n)
    vals = {f["name"]: rand_vec(rng, f["dim"]) for f in fs}
    total = sum(factor_value_py(f, vals) for f in fs)
    kw = lambda ids: {names[v]: np.array(vals[v]) for v in ids}
    fail, got = None, []
    try:
        if which == "inferred-names":
            src = "def _build(PD, fs, names, JD):\n" + "".join("    %s = PD(fs[%d], names, noname=True)\n" % (names[f["name"]], i) for i, f in enumerate(fs))
            src += "    return JD(%s)\n" % ", ".join(names[f["name"]] for f in fs)
            env = {}
            exec(src, env)
            J = env["_build"](PD, fs, names, cuqi.distribution.JointDistribution)
            if J.get_parameter_names() != [names[f["name"]] for f in fs]:
                fail = "inferred parameter names %s, the variables are %s" % (J.get_parameter_names(), [names[f["name"]] for f in fs])
            order = list(range(n)); rng.shuffle(order)
            o, fixed = J, []
            got.append(("joint", num(J.logd(**kw(range(n))))))
            for v in order[:-1]:
                from cuqi.distribution import Posterior
                o = o(**kw([v])); fixed.append(v)
                got.append(("after fixing %s" % [names[a] for a in fixed], num(o.logd(**kw([a for a in range(n) if a not in fixed])))))
            got.append(("parent re-evaluated", num(J.logd(**kw(range(n))))))
        else:
            pairs = [(fy, x) for fy in fs for x in deps(fy) if deps(fy) == {x} and not deps([f for f in fs if f["name"] == x][0])]
            if not pairs:
                return None
            fy, x = rng.choice(pairs)
            fx = [f for f in fs if f["name"] == x][0]
            facs = {f["name"]: PD(f, names) for f in fs}
            post = cuqi.distribution.JointDistribution(facs[fy["name"]], facs[x])(**kw([fy["name"]]))
            others = [f for f in fs if f is not fy and f is not fx and not (deps(f) & {fy["name"]})]
            others = [f for f in others if not (deps(f) - {x} - set(g["name"] for g in others))]
            sub = [fy, fx] + others
            tot = sum(factor_value_py(f, vals) for f in sub)
            J2 = cuqi.distribution.JointDistribution(post, *[facs[f["name"]] for f in others])
            free = [x] + [f["name"] for f in others]
            if sorted(J2.get_parameter_names()) != sorted(names[v] for v in free):
                fail = "parameters of the joint with a Posterior factor: %s" % J2.get_parameter_names()
            got.append(("joint with a Posterior factor", num(J2.logd(**kw(free)))))
            o, fixed = J2, []
            order = list(free); rng.shuffle(order)
            for v in order[:-1]:
                o = o(**kw([v])); fixed.append(v)
                got.append(("after fixing %s" % [names[a] for a in fixed], num(o.logd(**kw([a for a in free if a not in fixed])))))
            got.append(("the Posterior itself afterwards", num(post.logd(**kw([x]))) + sum(factor_value_py(f, vals) for f in others)))
            got.append(("parent re-evaluated", num(J2.logd(**kw(free)))))
            total = tot
        for what, v in got:
            if not fail and v != total:
                fail = "%s gives %s, expected %s" % (what, float(v), total)
    except Exception as e:
        fail = "raised %r" % e
    return Case(expr="true", meta={"family": "poly", "variant": which, "shape": shape, "names": names, "factors": fs,
                                   "values": {str(a): b for a, b in vals.items()}},
                cell="poly/%s/%s" % (which, shape), kind="DECISION", impl_fail=fail, signature=which if fail else "")


def reassign_case(ctx, cuqi, shape, rng):
    """object reuse after attribute re-assignment (oracle-level cell, no model): the user assigns a new VALUE to a mutable
    attribute of a factor after a child was derived.  The joint holds that factor object, so it and every child derived
    LATER follow the new value; the child derived BEFORE keeps the value it was conditioned with; re-assigning back restores."""
    PD = polydist_class(cuqi)
    fs, n = graph(rng, shape)
    cand = [(k, i) for k, f in enumerate(fs) for i, sl in enumerate(f["slots"]) if sl["kind"] == "fixed"]
    if not cand:
        return None
    k, i = rng.choice(cand)
    names = rng.sample(VARNAMES, n)
    vals = {f["name"]: rand_vec(rng, f["dim"]) for f in fs}
    old_total = sum(factor_value_py(f, vals) for f in fs)
    import copy as _copy
    fs2 = _copy.deepcopy(fs)
    fs2[k]["slots"][i]["val"] = [fs[k]["slots"][i]["val"][0] + rng.choice([-3, -2, 2, 3])]
    new_total = sum(factor_value_py(f, vals) for f in fs2)
    facs = [PD(f, names) for f in fs]
    J = cuqi.distribution.JointDistribution(*facs)
    S = rng.sample(range(n), rng.randint(1, n))
    kw = lambda ids: {names[v]: np.array(vals[v]) for v in ids}
    rest = [v for v in range(n) if v not in S]
    fail = None
    try:
        got = []
        A = J(**kw(S))
        got.append(("child derived before", num(A.logd(**kw(rest))), old_total))
        an = names[fs[k]["slots"][i]["attrvar"]] if fs[k]["slots"][i].get("attrvar") is not None else attr_name(i)
        setattr(facs[k], an, np.array(fs2[k]["slots"][i]["val"]))
        facs[k]._spec = fs2[k]
        got.append(("child derived before, after the re-assignment", num(A.logd(**kw(rest))), old_total))
        got.append(("the joint after the re-assignment", num(J.logd(**kw(range(n)))), new_total))
        B = J(**kw(S))
        got.append(("child derived after the re-assignment", num(B.logd(**kw(rest))), new_total))
        setattr(facs[k], an, np.array(fs[k]["slots"][i]["val"]))
        got.append(("the joint after assigning the old value back", num(J.logd(**kw(range(n)))), old_total))
        got.append(("child derived in between", num(B.logd(**kw(rest))), new_total))
        for what, v, exp in got:
            if v != exp:
                fail = "%s gives %s, expected %s" % (what, float(v), exp)
                break
    except Exception as e:
        fail = "raised %r" % e
    return Case(expr="true", meta={"family": "poly", "variant": "reassign", "shape": shape, "names": names, "factors": fs, "factor": k, "slot": i,
                                   "new": fs2[k]["slots"][i]["val"], "values": {str(a): b for a, b in vals.items()}, "fixed": S},
                cell="poly/reassign/%s" % shape, kind="DECISION", impl_fail=fail, signature="attribute-reassignment" if fail else "")


def guarded(fn, gv, *a, **k):
    """a crash of the driver on a generated input is itself a failing input (the code raised where the builder expects none)"""
    try:
        return fn(*a, **k)
    except Exception as e:
        import traceback
        tb = traceback.format_exc()
        c = Case(expr="false", meta={"family": "poly", "variant": "crash:" + gv, "error": tb[-1500:],
                                     "builder": getattr(fn, "__name__", "?"), "cell_arguments": [x for x in a if isinstance(x, (str, int, bool))]}, cell="crash/" + gv,
                 kind="DECISION", impl_fail="driver raised on a well-formed input: %r" % e, signature="driver-raised|" + gv)
        return (c, None, ([], [], {}, 0, [], [])) if gv in ("joint", "prelik", "problem") else c


def run(ctx):
    import cuqi
    rng = ctx.rng
    cases = []
    still, detail = witness_extra_kw(cuqi)
    strict = not still
    pstill, pdetail = witness_posterior_kw(cuqi)
    STATE["strict"], STATE["pnamed"] = strict, not pstill
    STATE["collide_ok"] = not witness_collision(cuqi)[0]
    ctx.note("implementation state: a keyword naming both an attribute and a conditioning variable is %s" % (
        "passed to the callables only" if STATE["collide_ok"] else "ALSO assigned to the attribute (finding)"))
    ctx.note("implementation state: a Posterior %s conditioning on its own parameter by keyword" % ("refuses" if pstill else "accepts"))
    ctx.note("implementation state: Distribution.logd %s keywords next to a positional main parameter" % ("ignores other" if still else "refuses other"))
    reps = ctx.n(2, 8)
    kinds_seen = {}
    for shape in SHAPES:
        for part in PARTS:
            for style in STYLES:
                if shape == "single" and part not in ("none", "all"):
                    continue
                for _ in range(reps if shape != "random" else 2 * reps):
                    r = guarded(build_case, "joint", ctx, cuqi, strict, shape, part, style, rng)
                    if r is None:
                        continue
                    c, final, info = r
                    cases.append(c)
                    for ob in info[5]:
                        if ob is not None:
                            kinds_seen[ob[0]] = kinds_seen.get(ob[0], 0) + 1
    for variant in ("prelik", "problem"):
        for shape in ["pair", "chain", "hier", "mlp2", "mlp3h", "twoarg", "random"]:
            for part in PARTS:
                for _ in range(reps):
                    r = guarded(build_case, variant, ctx, cuqi, strict, shape, part, "seq-kw" if variant == "problem" else rng.choice(STYLES), rng, variant=variant)
                    if r is not None:
                        cases.append(r[0])
    for shape in ["pair", "chain", "hier", "hier5", "mlp3h", "twoarg", "unset2", "indep", "random"]:
        for part in ["none", "leaves", "roots", "random"]:
            for _ in range(reps):
                c = guarded(stacked_case, "stacked", ctx, cuqi, shape, part, rng)
                if c is not None:
                    cases.append(c)
    hist_cells = {}
    for shape in HSHAPES:
        for kind in HKINDS:
            for order in (0, 1):
                for _ in range(ctx.n(1, 4)):
                    c = guarded(history_case, "history", ctx, cuqi, strict, shape, kind, order, rng)
                    if c is not None:
                        cases.append(c)
                        hist_cells[kind] = hist_cells.get(kind, 0) + 1
            for _ in range(ctx.n(1, 4)):
                c = guarded(history_case, "problem-history", ctx, cuqi, strict, shape, kind, 0, rng, variant="problem-history")
                if c is not None:
                    cases.append(c)
        for _ in range(ctx.n(2, 8)):
            c = guarded(history_case, "user-posterior", ctx, cuqi, strict, shape, "any", 0, rng, variant="user-posterior")
            if c is not None:
                cases.append(c)
    ctx.note("branching histories per reduction branch: %s" % hist_cells)
    for shape in HSHAPES:
        for _ in range(ctx.n(2, 8)):
            c = guarded(reassign_case, "reassign", ctx, cuqi, shape, rng)
            if c is not None:
                cases.append(c)
        for which in ("inferred-names", "posterior-factor"):
            for _ in range(ctx.n(1, 4)):
                c = guarded(default_paths_case, which, ctx, cuqi, shape, rng, which)
                if c is not None:
                    cases.append(c)
    for nargs in (1, 2, 3, 4):
        for _ in range(ctx.n(6, 40)):
            cases.append(guarded(dens_history_case, "dens-history", ctx, cuqi, rng, nargs))
    for which in ("fn", "unset"):
        for _ in range(ctx.n(60, 400)):
            cases.append(guarded(dens_level_case, "dens", ctx, cuqi, strict, rng, which))
    for _ in range(ctx.n(60, 400)):
        cases.append(guarded(slots_case, "slots", ctx, cuqi, rng))
    rf = guarded(real_family_cases, "real", ctx, cuqi, strict)
    cases += rf if isinstance(rf, list) else [rf]
    try:
        bare = try_reach_bare_likelihood(cuqi)
    except Exception as e:
        bare = "not run: %r" % e
    ctx.note("kinds of intermediate objects reached: %s; bare-Likelihood branch reached by public API: %s" % (
        {k: v for k, v in sorted(kinds_seen.items())}, bare))
    if not STATE["collide_ok"]:
        # the class of the open finding: cells whose graph has an attribute named like a variable entering through another attribute
        # (while it is open the code's behaviour inside the class is not modelled -- the attribute is destroyed, parameters vanish --
        # so these cells are judged by the independent oracle only; with the repair they run through the model like all others)
        for c in cases:
            if "/collide" in c.cell or "cross-name-collision" in c.cell:
                c.expr = "true"
                if c.impl_fail:
                    c.signature = SIG_COLLIDE
    return Result(cases=cases, rule=RULE,
                  extra={"kinds_reached": kinds_seen, "bare_likelihood_branch_reached": bare, "strict_main_parameter": strict},
                  assumptions=["factor log-densities enter the model as tables of the values of the untouched factors (integer formulas evaluated "
                               "in plain Python for PolyDist, the original factor's own logd for real families)",
                               "name inference from the Python stack (conditioning a fresh Posterior on its parameter) is outside the model",
                               "attribute names of non-None mutable variables are never used as keywords (model precondition)"])


def try_reach_bare_likelihood(cuqi):
    """C01_bare_likelihood_unreachable is a proof-forced invariant: also try to reach that branch on the real code"""
    PD = polydist_class(cuqi)
    rng = __import__("random").Random(5)
    from cuqi.likelihood import Likelihood
    reached = 0
    for _ in range(40):
        fs, n = graph(rng, "random")
        names = VARNAMES[:n]
        vals = {f["name"]: rand_vec(rng, f["dim"]) for f in fs}
        J = cuqi.distribution.JointDistribution(*[PD(f, names) for f in fs])
        for k in range(0, n + 1):
            for sub in itertools.combinations(range(n), k):
                try:
                    o = J(**{names[v]: np.array(vals[v]) for v in sub})
                except Exception:
                    continue
                if isinstance(o, Likelihood):
                    reached += 1
    return reached


# ------------------------------------------------------------------------------------------
# (b) real families
# ------------------------------------------------------------------------------------------
def real_models(cuqi, rng):
    """list of (label, {name: distribution}, order, values) -- hierarchical models from CUQIpy's own families"""
    import cuqi.distribution as cd
    out = []
    n, m = 4, 3
    A = np.array([[rng.randint(-2, 2) for _ in range(n)] for _ in range(m)], dtype=float)
    Amod = cuqi.model.LinearModel(A)
    nl = cuqi.model.Model(lambda x: np.array([x[0] ** 2 + x[1], x[2] * x[3], x[0] - x[3]]), range_geometry=m, domain_geometry=n)
    rv = lambda k, lo=-2.0, hi=2.0: np.array([round(rng.uniform(lo, hi), 3) for _ in range(k)])
    pos = lambda: round(rng.uniform(0.5, 3.0), 3)
    # 1. docstring model: Gaussian likelihood with matrix model, Gaussian prior with hyper-parameter, Gamma hyper-priors
    d = cd.Gamma(1, 1e-1 * 10, name="d")
    l = cd.Gamma(2, 1.5, name="l")
    x = cd.Gaussian(np.zeros(n), lambda d: 1 / d, name="x")
    y = cd.Gaussian(lambda x: A @ x, lambda l: 1 / l, name="y", geometry=m)
    out.append(("gauss-matrix-gamma", [d, l, x, y], {"d": pos(), "l": pos(), "x": rv(n), "y": rv(m)},
                {"d": lambda v: cd.Gamma(1, 1e-1 * 10), "l": lambda v: cd.Gamma(2, 1.5),
                 "x": lambda v: cd.Gaussian(np.zeros(n), 1 / v["d"]), "y": lambda v: cd.Gaussian(A @ v["x"], 1 / v["l"])}))
    # 2. LinearModel object as mean, GMRF prior with precision hyper-parameter, LMRF second prior
    s = cd.Gamma(2, 1, name="s")
    x2 = cd.GMRF(np.zeros(n), lambda s: s, name="x")
    y2 = cd.Gaussian(Amod, 0.25, name="y")
    iv = lambda k: np.array([float(rng.randint(-3, 3)) for _ in range(k)])
    integer_valued = rng.random() < 0.5
    out.append(("gauss-linearmodel-gmrf", [y2, x2, s], {"s": float(rng.randint(1, 4)), "x": iv(n), "y": iv(m)} if integer_valued else {"s": pos(), "x": rv(n), "y": rv(m)},
                {"s": lambda v: cd.Gamma(2, 1), "x": lambda v: cd.GMRF(np.zeros(n), v["s"]),
                 "y": lambda v: cd.Gaussian(np.asarray(Amod(v["x"])), 0.25)}))
    # 3. non-linear model, LMRF prior with scale hyper-parameter, two likelihoods
    w = cd.Gamma(3, 2, name="w")
    x3 = cd.LMRF(0, lambda w: 1 / w, geometry=n, name="x")
    y3 = cd.Gaussian(nl, 0.5, name="y")
    z3 = cd.Gaussian(lambda x: A @ x + 1, lambda w: 2 / w, name="z", geometry=m)
    out.append(("gauss-nonlinear-lmrf-2lik", [x3, y3, w, z3], {"w": pos(), "x": rv(n), "y": rv(m), "z": rv(m)},
                {"w": lambda v: cd.Gamma(3, 2), "x": lambda v: cd.LMRF(0, 1 / v["w"], geometry=n),
                 "y": lambda v: cd.Gaussian(np.asarray(nl(v["x"])), 0.5), "z": lambda v: cd.Gaussian(A @ v["x"] + 1, 2 / v["w"])}))
    # 4. CMRF prior, Lognormal / Beta / InverseGamma hyper structure through 2-argument callables
    a = cd.Beta(2, 3, name="a")
    b = cd.InverseGamma(3, 0, 2, name="b")
    x4 = cd.CMRF(0, lambda a, b: a + b, geometry=n, name="x")
    y4 = cd.Gaussian(lambda x, b: A @ x * b, lambda a: 0.1 + a, name="y", geometry=m)
    t = cd.Lognormal(lambda b: np.array([b, -b]), np.array([0.5, 0.75]), name="t")
    out.append(("cmrf-beta-invgamma-lognormal", [y4, t, x4, a, b],
                {"a": round(rng.uniform(0.1, 0.9), 3), "b": pos(), "x": rv(n), "y": rv(m), "t": rv(2, 0.2, 3.0)},
                {"a": lambda v: cd.Beta(2, 3), "b": lambda v: cd.InverseGamma(3, 0, 2),
                 "x": lambda v: cd.CMRF(0, v["a"] + v["b"], geometry=n), "y": lambda v: cd.Gaussian(A @ v["x"] * v["b"], 0.1 + v["a"]),
                 "t": lambda v: cd.Lognormal(np.array([v["b"], -v["b"]]), np.array([0.5, 0.75]))}))
    # 5. Laplace / Cauchy / Uniform / Normal scalars
    u = cd.Uniform(0, 4, name="u")
    c = cd.Cauchy(lambda u: u, 1, name="c")
    p = cd.Laplace(lambda c: c, lambda u: 1 / (0.5 + u), name="p", geometry=1)
    q = cd.Normal(lambda p, c: p - c, 1, name="q")
    out.append(("scalar-laplace-cauchy-uniform", [q, p, c, u], {"u": round(rng.uniform(0.5, 3.5), 3), "c": rv(1)[0], "p": rv(1)[0], "q": rv(1)[0]},
                {"u": lambda v: cd.Uniform(0, 4), "c": lambda v: cd.Cauchy(v["u"], 1), "p": lambda v: cd.Laplace(v["c"], 1 / (0.5 + v["u"])),
                 "q": lambda v: cd.Normal(v["p"] - v["c"], 1)}))
    # 6. hyper-parameters named exactly like the attribute they enter through a NON-identity callable
    scale = cd.Gamma(2, 1, name="scale")
    cov = cd.Gamma(3, 2, name="cov")
    x6 = cd.Laplace(0, lambda scale: 1 / scale, geometry=n, name="x")
    y6 = cd.Gaussian(lambda x: A @ x, lambda cov: 1 / cov, name="y", geometry=m)
    prec = cd.Gamma(2, 2, name="prec")
    g6 = cd.GMRF(np.zeros(n), lambda prec, scale: prec * scale, name="g")
    out.append(("same-name-hyperparameters", [y6, x6, g6, scale, cov, prec],
                {"scale": pos(), "cov": pos(), "prec": pos(), "x": rv(n), "y": rv(m), "g": rv(n)},
                {"scale": lambda v: cd.Gamma(2, 1), "cov": lambda v: cd.Gamma(3, 2), "prec": lambda v: cd.Gamma(2, 2),
                 "x": lambda v: cd.Laplace(0, 1 / v["scale"], geometry=n), "y": lambda v: cd.Gaussian(A @ v["x"], 1 / v["cov"]),
                 "g": lambda v: cd.GMRF(np.zeros(n), v["prec"] * v["scale"])}))
    # 7. cross collision: the variable cov enters through the mean, the ATTRIBUTE cov is a callable of another variable
    cov7 = cd.Gamma(3, 2, name="cov")
    s7 = cd.Gamma(2, 1, name="s")
    y7 = cd.Gaussian(lambda cov: cov * np.ones(m), lambda s: 1 / s, name="y", geometry=m)
    out.append(("cross-name-collision", [y7, cov7, s7], {"cov": pos(), "s": pos(), "y": rv(m)},
                {"cov": lambda v: cd.Gamma(3, 2), "s": lambda v: cd.Gamma(2, 1), "y": lambda v: cd.Gaussian(v["cov"] * np.ones(m), 1 / v["s"])}))
    return out


def cfloat(x):
    x = float(x)
    if math.isnan(x) or math.isinf(x):
        raise ValueError("non-finite log-density")
    return "(%s)%%float" % x.hex()


def cstage_f(ob):
    if ob is None:
        return "None"
    k, ps, c = ob
    return "(Some (%s, %s, %s))" % (cnat(k), cvl(ps), "None" if c is None else "(Some %s)" % cfloat(c))


def real_family_cases(ctx, cuqi, strict):
    """real CUQIpy families: the model's factor functions are tables of the values of the UNTOUCHED factors (their own logd at
    the complete assignment); log-densities are binary64 floats added with IEEE addition in the model's order, and every
    value / folded _constant is compared with the implementation BIT FOR BIT (the independent oracle uses 1e-9 relative)"""
    rng = ctx.rng
    cases = []
    glue_diff = []
    for rep in range(ctx.n(1, 4)):
        for label, dists, values, concrete in real_models(cuqi, rng):
            names = [d_.name for d_ in dists]
            n = len(names)
            idx = {nm: i for i, nm in enumerate(names)}
            vals = {idx[k]: (float(v) if np.ndim(v) == 0 else [float(a) for a in np.asarray(v, dtype=float)]) for k, v in values.items()}
            asg = {k: toarg(vals[idx[k]]) for k in names}
            fs, fvalue = [], {}
            for d_ in dists:
                cv = list(d_.get_conditioning_variables())
                fs.append({"name": idx[d_.name], "dim": int(d_.dim), "slots": [{"kind": "fn", "args": [idx[k] for k in cv]}] if cv else [{"kind": "fixed"}],
                           "attrs": [idx[a] if a in idx else ATTR + k for k, a in enumerate(d_.get_mutable_variables())]})
                # INDEPENDENT of the conditioning glue: a fresh unconditional distribution with the hyper-parameter values
                # plugged in by the harness, evaluated with logpdf (no callables, no _condition, no logd)
                fvalue[idx[d_.name]] = float(np.asarray(concrete[d_.name](asg).logpdf(asg[d_.name])).ravel()[0])
                own = float(np.asarray(d_.logd(**{k: asg[k] for k in cv + [d_.name]})).ravel()[0])
                if own != fvalue[idx[d_.name]]:
                    glue_diff.append((label, d_.name, own, fvalue[idx[d_.name]]))
            # the stacked view hands every variable to the user's callables as a 1-d array: hierarchies whose callables are
            # written for scalars only cannot be evaluated through it at all (not judged), the others get the stacked ops
            try:
                cuqi.distribution.JointDistribution(*dists)._as_stacked().logd(np.array(stack_vec(vals, list(range(n)))))
                stack_ok = True
            except Exception:
                stack_ok = False
            def valfn(f, a, names=names, concrete=concrete):
                """value of factor f at an assignment {id: value}: a fresh unconditional distribution, logpdf only"""
                av = {names[k]: toarg(v) for k, v in a.items() if isinstance(k, int) and k < len(names)}
                return float(np.asarray(concrete[names[f["name"]]](av).logpdf(av[names[f["name"]]])).ravel()[0])
            for kind in HKINDS:
                for order in ((0, 1, 2) if ctx.thorough else ((rep + len(label)) % 2, 2)):
                    # order 2: the BayesianProblem program (constructor, set_data, views) on the real factors
                    P = history_program(rng, fs, n, kind, order, fvalue, with_stack=stack_ok, vals=vals, valfn=valfn) if order < 2 else problem_program(rng, fs, n, kind, fvalue)
                    if P is None:
                        continue
                    start = cuqi.distribution.JointDistribution(*dists)
                    pvals = Vals(vals).make_pool(rng, real=True)
                    res = run_history(cuqi, start, names, pvals, P.ops, dists)
                    fail, sig = history_oracle(P.ops, res, P.total, rel=1e-9)
                    if not fail and pvals.changed():
                        fail, sig = "argument arrays were modified by the calls", "input-mutated"
                    if sig and sig != SIG_POST_KW:
                        sig = sig + "|real|" + label

                    def cfac(f):
                        ids = cond_vars_py(f["slots"]) + [f["name"]]
                        entries = [([vals[j] for j in ids], fvalue[f["name"]])] + [([vals[ov.get(j, j)] for j in ids], v_) for ov, v_ in P.alts.get(f["name"], ())]
                        return "(fD (fmka %s %s %s %s %s))" % (cvar(f["name"]), cnat(f["dim"]), clist([cslot(sl) for sl in f["slots"]]), cvl(f["attrs"]),
                                                               clist(["(%s, %s)" % (clist([cqval(k) for k in key]), cfloat(v_)) for key, v_ in entries]))

                    def fop(op, r):
                        if op[0] == "poke":
                            return None
                        if op[0] == "eval":
                            return chop(vals, op, None if r is None else "(Some %s)" % cfloat(r), pre="f") if r is not None else \
                                "(fEval %s %s None)" % (cnat(op[1]), ccall(vals, op[2]))
                        return chop(vals, op, r, pre="f", cst=cstage_f)
                    expr = "check_history_f %s %s %s" % (flags(), clist([cfac(f) for f in fs]), clist([x for x in (fop(op, r) for op, r in zip(P.ops, res)) if x is not None]))
                    meta = {"family": "real", "label": label, "branch": kind, "order": order,
                            "values": {k: np.asarray(v).tolist() for k, v in values.items()}, "ops": [list(op) for op in P.ops[:len(res)]]}
                    cases.append(Case(expr=expr, meta=meta, cell="real/%s/%s/order%d" % (label, kind, order), kind="EXACT", impl_fail=fail, signature=sig))
    for label, nm, own, ref in glue_diff:
        cases.append(Case(expr="false", meta={"family": "real", "label": label, "factor": nm, "own_logd": own, "reference": ref}, cell="real/%s/factor-value" % label,
                          kind="EXACT", impl_fail="factor %s of %s: its own conditional logd at the complete assignment gives %r, the unconditional distribution with the "
                          "values plugged in gives %r" % (nm, label, own, ref), signature="factor-logd|real|%s" % label))
    return cases


def do_call_real(f, names, asg, call):
    args = [asg[names[j]] for j in call["args"]]
    kw = {names[k]: asg[names[j]] for k, j in call["kw"]}
    return f(*args, **kw)


# ------------------------------------------------------------------------------------------
# protocol hooks
# ------------------------------------------------------------------------------------------
def classify(meta, detail):
    v = meta.get("variant", meta.get("family", "C01"))
    return "C01|%s|%s" % (meta.get("family", "?"), v)


def _rebuild(ctx, m):
    import cuqi
    PD = polydist_class(cuqi)
    names = m["names"]
    fs = m["factors"]
    vals = {int(k): v for k, v in m["values"].items()}
    if m.get("argstyle"):
        vals = Vals(vals).make_pool(__import__("random").Random(0), forced=m["argstyle"])
    pre = m.get("pre", [])
    dists = {f["name"]: PD(f, names) for f in fs}
    facs = [dists[f["name"]](**{names[f["name"]]: np.array(vals[f["name"]])}) if f["name"] in pre else dists[f["name"]] for f in fs]
    return cuqi, names, fs, vals, facs


def oracle(ctx, meta):
    """re-check the property itself on the implementation for one stored case (poly family)"""
    m = meta.get("meta", meta)
    if m.get("family") == "poly" and m.get("variant") in HIST_VARIANTS:
        cuqi, names, fs, vals, facs = _rebuild(ctx, m)
        total = sum(factor_value_py(f, vals) for f in fs)
        ops = [tuple(op) for op in m["ops"]]
        start = facs[0] if m["variant"] == "dens-history" else cuqi.distribution.JointDistribution(*facs)
        res = run_history(cuqi, start, names, vals, ops, facs)
        return history_oracle(ops, res, total)[0]
    if m.get("family") != "poly" or m.get("variant") not in ("joint", "prelik", "dens", "stacked"):
        return None
    cuqi, names, fs, vals, facs = _rebuild(ctx, m)
    total = sum(factor_value_py(f, vals) for f in fs)
    start = facs[0] if m["variant"] == "dens" else cuqi.distribution.JointDistribution(*facs)
    if m["variant"] == "stacked":
        o = start
        for st in m["steps"]:
            o = do_call(o, names, vals, st)
        if m["form"] != "exact":
            return None
        try:
            out = num(o._as_stacked().logd(np.array(m["stacked"])))
        except Exception as e:
            return "stacked evaluation raised %r" % e
        return None if out == total else "stacked view gives %s, joint log-density is %s" % (out, total)
    final, obs, outs = drive(cuqi, start, names, vals, m["steps"], m["evals"])
    if any(ob is None for ob in obs):
        return "conditioning call %d raised on a well-formed history" % len(obs)
    for ev, out in zip(m["evals"], outs):
        if ev["ok"] and out != total:
            return "%s evaluation gives %s, joint log-density at the complete assignment is %s" % (ev["form"], out, total)
        if not ev["ok"] and out is not None:
            return "malformed evaluation (%s) returned %s instead of raising" % (ev["form"], out)
    return None


def replay(ctx, meta):
    m = meta.get("meta", meta)
    print(json.dumps({k: v for k, v in meta.items() if k != "meta"}, indent=1)[:3000])
    if m.get("witness"):
        import cuqi
        print("witness:", witness_extra_kw(cuqi))
        return 0
    if m.get("family") == "poly" and m.get("variant") in HIST_VARIANTS:
        cuqi, names, fs, vals, facs = _rebuild(ctx, m)
        print("variables:", {names[k]: v for k, v in vals.items()})
        for f in fs:
            print("  factor %s | %s : value at the complete assignment %d" % (names[f["name"]], [names[j] for j in cond_vars_py(f["slots"])], factor_value_py(f, vals)))
        print("joint log-density at the complete assignment (plain Python):", sum(factor_value_py(f, vals) for f in fs))
        ops = [tuple(op) for op in m["ops"]]
        start = facs[0] if m["variant"] == "dens-history" else cuqi.distribution.JointDistribution(*facs)
        res = run_history(cuqi, start, names, vals, ops, facs)
        nobj = 0
        for op, r in zip(ops, res):
            if op[0] == "poke":
                print("  the caller overwrites the argument object of %s in place with %s" % (names[op[1]], vals[op[2]]))
                continue
            if op[0] == "eval":
                c = op[2]
                shown = ("stacked vector of %s" % [names[j] for j in c["stack"]]) if "stack" in c else [names[j] for j in c["args"]] + ["%s=" % name_of(names, k) for k, _ in c["kw"]]
                print("  object %d .logd(%s) -> implementation %s ; property expects %s%s" % (
                    op[1], shown, "RAISED" if r is None else r, "not judged" if op[3] is None else ("an ERROR" if op[3] == "ERR" else op[3]),
                    "" if (op[3] is None or (op[3] == "ERR" and r is None) or r == op[3]) else "   <-- DIFFERS"))
                continue
            nobj += 0 if op[0] in ("setlik", "setprior") else 1
            desc = {"cond": lambda: "object %d conditioned positional=%s keywords=%s" % (op[1], [names[j] for j in op[2]["args"]], [name_of(names, k) for k, _ in op[2]["kw"]]),
                    "stack": lambda: "object %d ._as_stacked()" % op[1],
                    "join": lambda: "JointDistribution(object %s)" % op[1],
                    "factor": lambda: "factor object number %d of the joint" % op[2],
                    "mkpost": lambda: "Posterior(object %d, object %d, name=prior.name)" % (op[1], op[2]),
                    "setlik": lambda: "problem of object %d .likelihood = object %d  (target changed in place)" % (op[1], op[2]),
                    "setprior": lambda: "problem of object %d .prior = object %d  (target changed in place)" % (op[1], op[2]),
                    "bpinit": lambda: "BayesianProblem(*factors, %s)._target" % [name_of(names, k) for k, _ in op[2]],
                    "setdata": lambda: "problem of object %d .set_data(%s)._target" % (op[1], [name_of(names, k) for k, _ in op[2]]),
                    "view": lambda: "problem of object %d .%s" % (op[2], "likelihood" if op[1] == 0 else "prior")}[op[0]]()
            print("  object %d := %s -> %s" % (nobj, desc, "RAISED" if r is None else "kind %d parameters %s _constant %s" % (r[0], [name_of(names, p_) for p_ in r[1]], r[2])))
        return 0
    if m.get("family") != "poly" or m.get("variant") not in ("joint", "prelik", "dens"):
        print(json.dumps(m, indent=1)[:4000])
        return 0
    cuqi, names, fs, vals, facs = _rebuild(ctx, m)
    print("variables:", {names[k]: v for k, v in vals.items()})
    for f in fs:
        print("  factor %s | %s : value at the complete assignment %d" % (names[f["name"]], [names[j] for j in cond_vars_py(f["slots"])], factor_value_py(f, vals)))
    total = sum(factor_value_py(f, vals) for f in fs)
    print("joint log-density at the complete assignment (plain Python):", total)
    start = facs[0] if m["variant"] == "dens" else cuqi.distribution.JointDistribution(*facs)
    final, obs, outs = drive(cuqi, start, names, vals, m["steps"], m["evals"])
    for st, ob in zip(m["steps"], obs):
        print("  step positional=%s keywords=%s -> %s" % ([names[j] for j in st["args"]], [name_of(names, k) for k, _ in st["kw"]],
                                                         "RAISED" if ob is None else "kind %d parameters %s _constant %s" % (ob[0], [name_of(names, p) for p in ob[1]], ob[2])))
    for ev, out in zip(m["evals"], outs):
        print("  logd[%s] positional=%s keywords=%s -> implementation %s ; property expects %s" % (
            ev["form"], [names[j] for j in ev["args"]], [name_of(names, k) for k, _ in ev["kw"]],
            "RAISED" if out is None else out, total if ev["ok"] else "an error"))
    return 0
