(* C06 -- the unadjusted Laplace sampler: its stacked operator, its normal equations, and when they are those
   of the documented local Gaussian approximation at the current state. *)
From CV Require Import Base.Tac Base.LinAlg Base.Cmp Base.QcLin Model.C06_RTO Proofs.C06_Lin.
From Coq Require Import Ring QArith Qcanon.

Section U.
Variable R : Type.
Variables (r0 r1 : R) (radd rmul rsub : R -> R -> R) (ropp : R -> R).
Hypothesis Rth : ring_theory r0 r1 radd rmul rsub ropp (@eq R).
Add Ring Rring3 : Rth.

Notation vec := (list R).
Notation mat := (list (list R)).
Notation Dot := (dot r0 radd rmul).
Notation Matvec := (matvec r0 radd rmul).
Notation Mattvec := (mattvec r0 radd rmul).
Notation Vadd := (vadd radd).
Notation Vsub := (vsub rsub).
Notation Vscale := (vscale rmul).
Notation Vzero := (vzero r0).
Notation "x + y" := (radd x y).
Notation "x * y" := (rmul x y).

Let adjI := adjoint_identity R r0 r1 radd rmul rsub ropp Rth.
Let dot_add_r := dot_vadd_r R r0 r1 radd rmul rsub ropp Rth.
Let dot_sc_l := dot_vscale_l R r0 r1 radd rmul rsub ropp Rth.
Let dot_sc_r := dot_vscale_r R r0 r1 radd rmul rsub ropp Rth.
Let dotapp := dot_app R r0 r1 radd rmul rsub ropp Rth.
Let add_z_r := vadd_vzero_r R r0 r1 radd rmul rsub ropp Rth.
Let vaddlen := vadd_len R r0 r1 radd rmul rsub ropp Rth.
Let mtv_add := mattvec_vadd R r0 r1 radd rmul rsub ropp Rth.
Let Model_wf := model_wf R r0 radd rmul.

Lemma firstn_app_len {A} m (u w : list A) : length u = m -> firstn m (u ++ w) = u.
Proof. intros <-. apply firstn_app_exact. Qed.
Lemma skipn_app_len {A} m (u w : list A) : length u = m -> skipn m (u ++ w) = w.
Proof. intros <-. apply skipn_app_exact. Qed.

Lemma vscale_vscale a b v : Vscale a (Vscale b v) = Vscale (a * b) v.
Proof. induction v as [|c v IH]; simpl; [reflexivity|]. f_equal; [ring | apply IH]. Qed.

Lemma vscale_vzero' a k : Vscale a (Vzero k) = Vzero k.
Proof. apply (vscale_vzero R r0 r1 radd rmul rsub ropp Rth). Qed.

Lemma mattvec_vscale n A c y : wf_mat n A ->
  Mattvec n A (Vscale c y) = Vscale c (Mattvec n A y).
Proof.
  intros H; revert y; induction H as [|row A Hr HA IH]; intros y.
  - destruct y; simpl; symmetry; apply vscale_vzero'.
  - destruct y as [|b y]; simpl; [symmetry; apply vscale_vzero'|].
    rewrite IH. rewrite (vscale_add R r0 r1 radd rmul rsub ropp Rth). rewrite !vscale_vscale. reflexivity.
Qed.

Lemma scale_rows_wf n sw D : wf_mat n D -> wf_mat n (scale_rows R rmul sw D).
Proof.
  intros H; revert sw; induction H as [|row D Hr HD IH]; intros [|s sw]; simpl; constructor.
  - rewrite vscale_length. exact Hr.
  - apply IH.
Qed.

Lemma scale_rows_len sw (D : mat) : length sw = length D -> length (scale_rows R rmul sw D) = length D.
Proof. revert D; induction sw as [|s sw IH]; intros [|row D] H; simpl in *; try lia. f_equal. apply IH. lia. Qed.

(* if D x = 0 then (W^1/2 D) x = 0 *)
Lemma scale_rows_kills sw (D : mat) x : length sw = length D -> Matvec D x = Vzero (length D) ->
  Matvec (scale_rows R rmul sw D) x = Vzero (length D).
Proof.
  revert D; induction sw as [|s sw IH]; intros [|row D] H E; simpl in *; try lia; try reflexivity.
  injection E as E1 E2. f_equal.
  - rewrite dot_sc_l, E1. ring.
  - apply IH; [lia | exact E2].
Qed.

(* ---------- well-formed UGLA configuration ---------- *)
Record ugla_wf (c : ugla_cfg R) (sw : vec) : Prop := {
  uw_model : Model_wf (g_n c) (length (g_data c)) (g_model c);
  uw_L1 : wf_mat (length (g_data c)) (g_L1 c);
  uw_L1len : length (g_L1 c) = length (g_data c);
  uw_D : wf_mat (g_n c) (g_D c);
  uw_sw : length sw = length (g_D c)
}.

(* U1: flag 2 is the exact transpose of flag 1 *)
Theorem ugla_adjoint c sw x y : ugla_wf c sw -> length x = g_n c ->
  Dot (ugla_M_fwd R r0 radd rmul c sw x) y = Dot x (ugla_M_adj R r0 radd rmul c sw y).
Proof.
  intros [HM HL HLl HD Hsw] Hx. unfold ugla_M_fwd, ugla_M_adj.
  rewrite dotapp, matvec_length. unfold LinAlg.mat, LinAlg.vec in *. rewrite HLl.
  rewrite (adjI _ _ _ _ HL) by (apply (fwd_len _ _ _ _ _ _ _ HM); exact Hx).
  rewrite (adj_id _ _ _ _ _ _ _ HM) by (try exact Hx; apply mattvec_length; exact HL).
  rewrite dot_sc_l.
  rewrite (adjI _ _ _ _ (scale_rows_wf _ sw _ HD)) by exact Hx.
  rewrite dot_add_r.
  - rewrite dot_sc_r. reflexivity.
  - rewrite (adj_len _ _ _ _ _ _ _ HM) by (apply mattvec_length; exact HL).
    rewrite vscale_length. symmetry. apply mattvec_length. apply scale_rows_wf. exact HD.
Qed.

(* U2: the normal operator and right-hand side of the code's stacked system *)
Lemma ugla_MtM c sw x : ugla_wf c sw ->
  ugla_M_adj R r0 radd rmul c sw (ugla_M_fwd R r0 radd rmul c sw x)
  = Vadd (adj (g_model c) (Mattvec (length (g_data c)) (g_L1 c) (Matvec (g_L1 c) (fwd (g_model c) x))))
         (Vscale (g_rs c * g_rs c) (DtWD R r0 radd rmul c sw x)).
Proof.
  intros [HM HL HLl HD Hsw]. unfold ugla_M_adj, ugla_M_fwd, DtWD.
  rewrite firstn_app_len, skipn_app_len by (rewrite matvec_length; exact HLl).
  rewrite mattvec_vscale by (apply scale_rows_wf; exact HD).
  rewrite vscale_vscale. reflexivity.
Qed.

Definition ugla_k (v : ugla_variant) (c : ugla_cfg R) : R :=
  match v with UglaCode => g_rs c | UglaDoc => g_rs c * g_rs c end.

Lemma ugla_Mtb v c sw : ugla_wf c sw ->
  ugla_M_adj R r0 radd rmul c sw (ugla_b_tild R r0 radd rmul v c sw)
  = Vadd (adj (g_model c) (Mattvec (length (g_data c)) (g_L1 c) (Matvec (g_L1 c) (g_data c))))
         (Vscale (ugla_k v c) (DtWD R r0 radd rmul c sw (bcast (g_n c) (g_loc c)))).
Proof.
  intros [HM HL HLl HD Hsw]. unfold ugla_M_adj, ugla_b_tild, ugla_L2mu, DtWD.
  rewrite firstn_app_len, skipn_app_len by (rewrite matvec_length; exact HLl).
  destruct v; simpl; [reflexivity|].
  rewrite mattvec_vscale by (apply scale_rows_wf; exact HD).
  rewrite vscale_vscale. reflexivity.
Qed.

Lemma ugla_M_adj_vadd c sw u v : ugla_wf c sw -> length u = length v -> (length (g_data c) <= length u)%nat ->
  ugla_M_adj R r0 radd rmul c sw (Vadd u v)
  = Vadd (ugla_M_adj R r0 radd rmul c sw u) (ugla_M_adj R r0 radd rmul c sw v).
Proof.
  intros [HM HL HLl HD Hsw] Huv Hlen. unfold ugla_M_adj.
  set (m := length (g_data c)) in *.
  assert (L1 : length (firstn m u) = m) by (apply firstn_length_le; lia).
  assert (L2 : length (firstn m v) = m) by (apply firstn_length_le; lia).
  assert (L3 : length (Vadd (firstn m u) (firstn m v)) = m) by (apply vaddlen; assumption).
  assert (F : firstn m (Vadd u v) = Vadd (firstn m u) (firstn m v) /\ skipn m (Vadd u v) = Vadd (skipn m u) (skipn m v)).
  { rewrite <- (firstn_skipn m u) at 1 3. rewrite <- (firstn_skipn m v) at 1 3.
    rewrite (vadd_app R r0 r1 radd rmul rsub ropp Rth) by lia.
    split; rewrite <- L3 at 1; [apply firstn_app_exact | apply skipn_app_exact]. }
  destruct F as [F1 F2]. rewrite F1, F2.
  rewrite mtv_add by (try exact HL; lia).
  rewrite (adj_add _ _ _ _ _ _ _ HM) by (apply mattvec_length; exact HL).
  rewrite mtv_add by (try (apply scale_rows_wf; exact HD); rewrite !skipn_length; lia).
  rewrite (vscale_add R r0 r1 radd rmul rsub ropp Rth).
  apply (vadd_swap4 R r0 r1 radd rmul rsub ropp Rth).
Qed.

(* U3: with Lam the noise precision (L1 a square root of it), the code's normal equations read
      (A^T Lam A + rs^2 D^T W D) x = A^T Lam b + k D^T W D loc + M^T e,   k = rs (code) | rs^2 (documented) *)
Theorem ugla_normal_eq_expand v c sw Lam e x :
  ugla_wf c sw -> sqrt_law R r0 radd rmul (length (g_data c)) (g_L1 c) Lam ->
  length x = g_n c -> length e = length (ugla_b_tild R r0 radd rmul v c sw) ->
  (ugla_normal_eq R r0 radd rmul v c sw e x <->
   Vadd (adj (g_model c) (Matvec Lam (fwd (g_model c) x))) (Vscale (g_rs c * g_rs c) (DtWD R r0 radd rmul c sw x))
   = Vadd (Vadd (adj (g_model c) (Matvec Lam (g_data c)))
                (Vscale (ugla_k v c) (DtWD R r0 radd rmul c sw (bcast (g_n c) (g_loc c)))))
          (ugla_M_adj R r0 radd rmul c sw e)).
Proof.
  intros W HLam Hx He. unfold ugla_normal_eq.
  rewrite ugla_MtM by exact W.
  rewrite ugla_M_adj_vadd; try exact W; try (symmetry; exact He).
  - rewrite ugla_Mtb by exact W.
    destruct W as [HM HL HLl HD Hsw].
    rewrite HLam by (apply (fwd_len _ _ _ _ _ _ _ HM); exact Hx).
    rewrite HLam by reflexivity. reflexivity.
  - unfold ugla_b_tild. rewrite app_length, matvec_length. destruct W as [HM HL HLl HD Hsw].
    unfold LinAlg.mat, LinAlg.vec in *. rewrite HLl. lia.
Qed.

(* the documented variant IS the documented local Gaussian: unguarded *)
Theorem ugla_doc_is_local_gaussian c sw Lam e x :
  ugla_wf c sw -> sqrt_law R r0 radd rmul (length (g_data c)) (g_L1 c) Lam ->
  length x = g_n c -> length e = length (ugla_b_tild R r0 radd rmul UglaDoc c sw) ->
  (ugla_normal_eq R r0 radd rmul UglaDoc c sw e x <->
   ugla_H_doc R r0 radd rmul c Lam sw x = Vadd (ugla_rhs_doc R r0 radd rmul c Lam sw) (ugla_M_adj R r0 radd rmul c sw e)).
Proof. intros W HLam Hx He. apply (ugla_normal_eq_expand UglaDoc); assumption. Qed.

(* the code as it stands, under the guard D loc = 0 (covers location 0 and constant locations with periodic /
   neumann boundary conditions): same weights, same right-hand side, hence the documented local Gaussian *)
Lemma vsub_vzero (x : vec) k : length x = k -> Vsub x (Vzero k) = x.
Proof.
  revert k; induction x as [|a x IH]; intros [|k] H; simpl in *; try lia; try reflexivity.
  rewrite IH by lia. f_equal. ring.
Qed.

Theorem ugla_guard_same c sw xk :
  ugla_wf c sw -> length xk = g_n c -> length (bcast (g_n c) (g_loc c)) = g_n c ->
  Matvec (g_D c) (bcast (g_n c) (g_loc c)) = Vzero (length (g_D c)) ->
  Matvec (g_D c) (ugla_weight_arg R rsub UglaCode (g_n c) (g_loc c) xk)
    = Matvec (g_D c) (ugla_weight_arg R rsub UglaDoc (g_n c) (g_loc c) xk) /\
  ugla_b_tild R r0 radd rmul UglaCode c sw = ugla_b_tild R r0 radd rmul UglaDoc c sw.
Proof.
  intros [HM HL HLl HD Hsw] Hxk Hloc G. split.
  - unfold ugla_weight_arg.
    rewrite (matvec_vsub R r0 r1 radd rmul rsub ropp Rth _ _ _ _ HD Hxk Hloc), G.
    rewrite vsub_vzero; [reflexivity | apply matvec_length].
  - unfold ugla_b_tild, ugla_L2mu, ugla_L2. f_equal.
    rewrite scale_rows_kills by assumption. symmetry. apply vscale_vzero'.
Qed.

Theorem ugla_code_local_gaussian_guarded c sw Lam e x :
  ugla_wf c sw -> sqrt_law R r0 radd rmul (length (g_data c)) (g_L1 c) Lam ->
  length x = g_n c -> length e = length (ugla_b_tild R r0 radd rmul UglaCode c sw) ->
  length (bcast (g_n c) (g_loc c)) = g_n c ->
  Matvec (g_D c) (bcast (g_n c) (g_loc c)) = Vzero (length (g_D c)) ->
  (ugla_normal_eq R r0 radd rmul UglaCode c sw e x <->
   ugla_H_doc R r0 radd rmul c Lam sw x = Vadd (ugla_rhs_doc R r0 radd rmul c Lam sw) (ugla_M_adj R r0 radd rmul c sw e)).
Proof.
  intros W HLam Hx He Hloc G.
  assert (E : ugla_b_tild R r0 radd rmul UglaCode c sw = ugla_b_tild R r0 radd rmul UglaDoc c sw).
  { destruct W as [HM HL HLl HD Hsw]. unfold ugla_b_tild, ugla_L2mu, ugla_L2. f_equal.
    rewrite scale_rows_kills by assumption. symmetry. apply vscale_vzero'. }
  unfold ugla_normal_eq. rewrite E. apply ugla_doc_is_local_gaussian; try assumption. rewrite <- E. exact He.
Qed.
End U.

(* ---------- outside the guard the code does NOT draw from the documented local Gaussian: witnesses over Qc ---------- *)
Local Open Scope Qc_scope.

Definition wit_model := q_matrix_model 2 [[1; 0]; [0; 1]].
(* neumann difference operator on 2 nodes, location [0; 2] (D loc = 2 <> 0) *)
Definition wit_scale : ugla_cfg Qc :=          (* scale = 4: rs = 1/2 *)
  mkUgla 2%nat wit_model [[1; 0]; [0; 1]] [0; 0] [[- (1); 1]] [0; qcz 2] (qc (1 # 2)).
Definition wit_weights : ugla_cfg Qc :=        (* scale = 1 *)
  mkUgla 2%nat wit_model [[1; 0]; [0; 1]] [0; 0] [[- (1); 1]] [0; - qcz 4] 1.

Lemma qcl_eq_dec_true (a b : list Qc) : qcl_eqb a b = true <-> a = b.
Proof. apply list_eqb_spec. apply qc_eqb_eq. Qed.
Ltac qcl_neq := let E := fresh in intros E; apply qcl_eq_dec_true in E; vm_compute in E; discriminate E.
Ltac qcl_eq := apply qcl_eq_dec_true; vm_compute; reflexivity.
Ltac qc_law := repeat (constructor; [apply Qc_is_canon; vm_compute; reflexivity|]); constructor.

Definition q_weight_law := weight_law Qc 0 1 Qcplus Qcmult.
Definition q_ugla_normal_eq := ugla_normal_eq Qc 0 Qcplus Qcmult.

(* (b) the right-hand side: x_k = [0; 1], beta = 15: (D x_k)^2 = (D (x_k - loc))^2 = 1, so the weights agree
   (sw = 1/2 is the certificate for both) and only the missing 1/sqrt(scale) shows *)
Lemma ugla_refuted_scale_holds :
  let c := wit_scale in let sw := [qc (1 # 2)] in let xk := [0; 1] in let beta := qcz 15 in
  let x := [qc (-2 # 9); qc (2 # 9)] in
  qmatvec (g_D c) (bcast 2 (g_loc c)) <> qvzero 1 /\
  q_weight_law (g_D c) (q_ugla_weight_arg UglaCode 2 (g_loc c) xk) beta sw /\
  q_weight_law (g_D c) (q_ugla_weight_arg UglaDoc 2 (g_loc c) xk) beta sw /\
  q_ugla_normal_eq UglaCode c sw [0; 0; 0] x /\
  q_ugla_H_doc c [[1; 0]; [0; 1]] sw x <> q_ugla_rhs_doc c [[1; 0]; [0; 1]] sw.
Proof.
  cbv zeta. split; [|split; [|split; [|split]]].
  - qcl_neq.
  - unfold q_weight_law, weight_law. qc_law.
  - unfold q_weight_law, weight_law. qc_law.
  - unfold q_ugla_normal_eq, ugla_normal_eq. qcl_eq.
  - qcl_neq.
Qed.

(* (a) the weights: scale = 1, x_k = [0; -1/8], beta = 63/64: code weights from D x_k = -1/8 (sw = 1),
   documented weights from D (x_k - loc) = 31/8 (sw = 1/2) *)
Lemma ugla_refuted_weights_holds :
  let c := wit_weights in let sw := [1] in let swd := [qc (1 # 2)] in
  let xk := [0; qc (-1 # 8)] in let beta := qc (63 # 64) in
  let x := [qc (4 # 3); qc (-4 # 3)] in
  qmatvec (g_D c) (bcast 2 (g_loc c)) <> qvzero 1 /\
  q_weight_law (g_D c) (q_ugla_weight_arg UglaCode 2 (g_loc c) xk) beta sw /\
  q_weight_law (g_D c) (q_ugla_weight_arg UglaDoc 2 (g_loc c) xk) beta swd /\
  q_ugla_normal_eq UglaCode c sw [0; 0; 0] x /\
  q_ugla_H_doc c [[1; 0]; [0; 1]] swd x <> q_ugla_rhs_doc c [[1; 0]; [0; 1]] swd.
Proof.
  cbv zeta. split; [|split; [|split; [|split]]].
  - qcl_neq.
  - unfold q_weight_law, weight_law. qc_law.
  - unfold q_weight_law, weight_law. qc_law.
  - unfold q_ugla_normal_eq, ugla_normal_eq. qcl_eq.
  - qcl_neq.
Qed.
