(* C08 (continued) -- volume preservation of one leapfrog step in dimension 1 as a statement of real analysis
   (Coquelicot): for EVERY differentiable gradient function g (derivative g'), every h, e: the four partial derivatives
   of (x, r) |-> (x1, r2),  x1 = x + e (r + h g x),  r2 = (r + h g x) + h g x1,  exist and the Jacobian determinant
   d x1/dx * d r2/dr - d x1/dr * d r2/dx  is 1.  (Any dimension: Props/C08_Jac.v, modulo the chain rule.) *)
From Coq Require Import Reals.
From Coquelicot Require Import Coquelicot.
From CV Require Import Proofs.C08_Jac1.
Local Open Scope R_scope.

Theorem C08_leapfrog_jacobian_1d :
  forall (g g' : R -> R), (forall x, is_derive g x (g' x)) ->
  forall (h e x r : R),
  let a11 := 1 + e * (h * g' x) in
  let a12 := e in
  let a21 := h * g' x + h * (g' (x1 g h e x r) * (1 + e * (h * g' x))) in
  let a22 := 1 + h * (g' (x1 g h e x r) * e) in
  is_derive (fun x => x1 g h e x r) x a11 /\ is_derive (fun r => x1 g h e x r) r a12 /\
  is_derive (fun x => r2 g h e x r) x a21 /\ is_derive (fun r => r2 g h e x r) r a22 /\
  a11 * a22 - a12 * a21 = 1.
Proof.
  intros g g' Hg h e x r a11 a12 a21 a22. split; [|split; [|split; [|split]]].
  - exact (d_x1_dx g g' Hg h e x r).
  - exact (d_x1_dr g h e x r).
  - exact (d_r2_dx g g' Hg h e x r).
  - exact (d_r2_dr g g' Hg h e x r).
  - exact (leapfrog_jacobian_1d g g' h e x r).
Qed.
Print Assumptions C08_leapfrog_jacobian_1d.
