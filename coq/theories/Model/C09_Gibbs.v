(* C09 -- executable model of cuqi.experimental.mcmc.HybridGibbs and of the legacy cuqi.sampler.Gibbs.
   No proofs here.

   Part 1 (generic wiring): the joint target is an arbitrary function of the full assignment of the
   blocks; "condition on all the others" is partial application; block samplers are abstract state
   machines (current point + whatever they cache) driven by a scripted random stream.
   Part 2 (concrete instance used by the correspondence): rational vectors, a quadratic family of
   joint targets given by factor lists, and the sampler kinds the harness drives
   (recording sampler, experimental MH with its cached current_target_logd, Direct, the NUTS branch).
   Part 3: finite-state sweep kernels over Qc (for the invariance theorem). *)
From CV Require Import Base.Tac Base.Cmp.
From Coq Require Import QArith Qround Qabs Qcanon.
Local Open Scope Q_scope.

(* dict[name] = v  for a dict keyed by the position of the name in par_names *)
Fixpoint upd {A} (l : list A) (i : nat) (v : A) : list A :=
  match l, i with
  | [], _ => []
  | _ :: r, O => v :: r
  | x :: r, S i' => x :: upd r i' v
  end.

Fixpoint mapi_from {A B} (f : nat -> A -> B) (i : nat) (l : list A) : list B :=
  match l with [] => [] | x :: r => f i x :: mapi_from f (S i) r end.
Fixpoint all2 {A B} (f : A -> B -> bool) (x : list A) (y : list B) : bool :=
  match x, y with
  | [], [] => true
  | a :: x', b :: y' => f a b && all2 f x' y'
  | _, _ => false
  end.
Definition mapi {A B} (f : nat -> A -> B) (l : list A) : list B := mapi_from f 0 l.

(* ------------------------------------------------------------------------------------------ *)
(* Part 1: generic wiring                                                                      *)
(* ------------------------------------------------------------------------------------------ *)
(* the joint conditioned on all the others' CURRENT values, as a function of block i's value: what
   JointDistribution.__call__ on the others must return (the C01 one-step law).  The entry of block i itself
   is overwritten: it is not used. *)
Definition cond {V L : Type} (joint : list V -> L) (cur : list V) (i : nat) : V -> L := fun v => joint (upd cur i v).

Section Wiring.
Context {V L St R : Type}.
(* the conditioning operation the sampler is built on: condf cur i = log-density of the object self.target conditioned on the others
   returns for block i.  Its relation to the joint (condf = cond joint: C01) is a HYPOTHESIS of the theorems that
   need it, not part of the wiring. *)
Variable condf : list V -> nat -> V -> L.

Variable point : St -> V.                              (* sampler.current_point *)
Variable reinit : nat -> (V -> L) -> St -> St.          (* set target; get_state/reinitialize/set_state/set_history; _pre_* *)
Variable trans : nat -> (V -> L) -> St -> R -> St.      (* acc = sampler.step(); sampler._acc.append(acc) *)
Variable tune : nat -> nat -> nat -> St -> St.          (* sampler.tune(skip_len, update_count) *)
Variable nst : nat -> nat.                            (* num_sampling_steps[par_name] *)

(* one record per call of sampler.step(): which block, which transition of this update (0, 1, ...),
   current_samples at that moment, the target the
   sampler holds, and the sampler's state (current_point, cached fields) before the transition *)
Record ev := mkEv { e_blk : nat; e_j : nat; e_cur : list V; e_tgt : V -> L; e_s : St }.

Record gst := mkG { g_cur : list V; g_ss : list St }.   (* current_samples, samplers *)

(* for _ in range(num_sampling_steps[par_name]): sampler.step()  -- j is the index of the next random item *)
Fixpoint steps (i : nat) (t : V -> L) (cur : list V) (n j : nat) (rs : nat -> R) (s : St) : St * list ev :=
  match n with
  | O => (s, [])
  | S n' => let r := steps i t cur n' (S j) rs (trans i t s (rs j)) in
            (fst r, mkEv i j cur t s :: snd r)
  end.

(* body of the loop `for par_name in self.par_names` of HybridGibbs.step *)
Definition block_update (rs : nat -> nat -> R) (a : gst * list ev) (i : nat) : gst * list ev :=
  match nth_error (g_ss (fst a)) i with
  | None => a
  | Some s =>
      let cur := g_cur (fst a) in
      let t := condf cur i in
      let r := steps i t cur (nst i) 0 (rs i) (reinit i t s) in
      (mkG (upd cur i (point (fst r))) (upd (g_ss (fst a)) i (fst r)), snd a ++ snd r)
  end.

(* HybridGibbs.step: rs i j = j-th random item handed to block i in this sweep *)
Definition sweep_order (order : list nat) (rs : nat -> nat -> R) (st : gst) : gst * list ev :=
  fold_left (block_update rs) order (st, []).
Definition sweep (rs : nat -> nat -> R) (st : gst) : gst * list ev :=
  sweep_order (seq 0 (length (g_cur st))) rs st.

Record run := mkRun { r_st : gst; r_stored : list (list V); r_log : list ev }.

(* HybridGibbs.sample(n): step(); _store_samples().  rnd t = random items of global sweep number t *)
Fixpoint sample_n (rnd : nat -> nat -> nat -> R) (n t0 : nat) (x : run) : run :=
  match n with
  | O => x
  | S n' => let r := sweep (rnd t0) (r_st x) in
            sample_n rnd n' (S t0) (mkRun (fst r) (r_stored x ++ [g_cur (fst r)]) (r_log x ++ snd r))
  end.

Definition tune_all (ti cnt : nat) (st : gst) : gst :=
  mkG (g_cur st) (mapi (fun i s => tune i ti cnt s) (g_ss st)).

(* HybridGibbs.warmup(Nb, tune_freq) with tune_interval ti: step(); tune at (idx+1) % ti == 0; store *)
Fixpoint warmup_n (rnd : nat -> nat -> nat -> R) (ti n idx t0 : nat) (x : run) : run :=
  match n with
  | O => x
  | S n' => let r := sweep (rnd t0) (r_st x) in
            let st1 := if (S idx mod ti =? 0)%nat then tune_all ti (idx / ti) (fst r) else fst r in
            warmup_n rnd ti n' (S idx) (S t0) (mkRun st1 (r_stored x ++ [g_cur st1]) (r_log x ++ snd r))
  end.

Inductive op := OSample (n : nat) | OWarm (n ti : nat).
Definition op_len (o : op) : nat := match o with OSample n => n | OWarm n _ => n end.

Fixpoint run_ops (rnd : nat -> nat -> nat -> R) (ops : list op) (t0 : nat) (x : run) : run :=
  match ops with
  | [] => x
  | OSample n :: r => run_ops rnd r (t0 + n) (sample_n rnd n t0 x)
  | OWarm n ti :: r => run_ops rnd r (t0 + n) (warmup_n rnd ti n 0 t0 x)
  end.
End Wiring.

Arguments mkEv {V L St}. Arguments e_blk {V L St}. Arguments e_j {V L St}. Arguments e_cur {V L St}. Arguments e_tgt {V L St}. Arguments e_s {V L St}.
Arguments mkG {V St}. Arguments g_cur {V St}. Arguments g_ss {V St}.
Arguments mkRun {V L St}. Arguments r_st {V L St}. Arguments r_stored {V L St}. Arguments r_log {V L St}.

(* ---------------- legacy cuqi.sampler.Gibbs ---------------- *)
Section Legacy.
Context {V L R : Type}.
Variable condf : list V -> nat -> V -> L.
(* sampler = self.samplers[par](self.target conditioned on the others); new = sampler.step(current) : a fresh, stateless
   object per update -- nothing is carried from one conditional to the next *)
Variable ltrans : nat -> (V -> L) -> V -> R -> V.

Definition lsweep (rs : nat -> nat -> R) (cur : list V) : list V * list (@ev V L V) :=
  let r := sweep condf (fun v : V => v) (fun _ _ s => s) ltrans (fun _ => 1%nat) rs (mkG cur cur) in
  (g_cur (fst r), snd r).

Fixpoint lsweeps (rnd : nat -> nat -> nat -> R) (n t0 : nat) (cur : list V) : list (list V) * list (@ev V L V) :=
  match n with
  | O => ([], [])
  | S n' => let r := lsweep (rnd t0) cur in
            let r' := lsweeps rnd n' (S t0) (fst r) in
            (fst r :: fst r', snd r ++ snd r')
  end.

(* the attributes `samples` / `samples_warmup` exist only after the first call: option *)
Record lst := mkL { l_samples : option (list (list V)); l_warm : option (list (list V)) }.

Inductive lres := LOk (st : lst) (lg : list (@ev V L V)) | LIndexError | LValueError.

Definition last_col (ss : list (list V)) : option (list V) :=
  match rev ss with [] => None | c :: _ => Some c end.

(* Gibbs._get_initial_points (after repo commit 2dba9ab): last stored column of `samples` if it has one, else last
   column of `samples_warmup` if it has one, else the initial points *)
Definition l_initial (st : lst) (init0 : list V) : list V :=
  match (match l_samples st with Some ss => last_col ss | None => None end) with
  | Some c => c
  | None => match (match l_warm st with Some ws => last_col ws | None => None end) with
            | Some c => c
            | None => init0
            end
  end.

Definition last_or (d : list V) (l : list (list V)) : list V := match rev l with [] => d | c :: _ => c end.

(* Gibbs.sample(Ns, Nb).  (LIndexError is kept only as an observable outcome: before commit 2dba9ab a call after a
   warm-up-only call raised it; the current code never does.) *)
Definition lsample (rnd : nat -> nat -> nat -> R) (init0 : list V) (ns nb t0 : nat) (st : lst) : lres :=
  let cur0 := l_initial st init0 in
  match l_warm st, nb with
  | Some _, S _ => LValueError                       (* "Sampler already has run warmup phase" *)
  | _, _ =>
      let w := lsweeps rnd nb t0 cur0 in
      let cur1 := last_or cur0 (fst w) in
      let s := lsweeps rnd ns (t0 + nb) cur1 in
      let old := match l_samples st with Some ss => ss | None => [] end in
      (* after /repo a931127 a later call (necessarily nb = 0) keeps the warm-up record of the first call; before it
         the record was rebound to the (empty) warm-up of the current call *)
      let warm' := match l_warm st with Some w0 => w0 | None => fst w end in
      LOk (mkL (Some (old ++ fst s)) (Some warm')) (snd w ++ snd s)
  end.
End Legacy.
Arguments mkL {V}. Arguments l_samples {V}. Arguments l_warm {V}.
Arguments LOk {V L}. Arguments LIndexError {V L}. Arguments LValueError {V L}.

(* ------------------------------------------------------------------------------------------ *)
(* Part 2: the concrete instance the harness drives                                            *)
(* ------------------------------------------------------------------------------------------ *)
Definition vec := list Q.

Fixpoint wsum_from (k : Z) (v : vec) : Q :=
  match v with [] => 0 | a :: r => inject_Z k * a + wsum_from (k + 1) r end.
Definition wsum (v : vec) : Q := wsum_from 1 v.        (* sum_j (j+1) v_j : separates permuted entries *)

Fixpoint vadd (x y : vec) : vec :=
  match x, y with a :: x', b :: y' => (a + b) :: vadd x' y' | _, _ => [] end.
Definition vscale (c : Q) (x : vec) : vec := map (fun a => c * a) x.
Definition vshift (c : Q) (x : vec) : vec := map (fun a => a + c) x.

(* one factor of the joint target:  value = c + m T + q T s + r s^2 + l s  with  T = b + sum_j a_j wsum(block j)
   and s = wsum of the factor's own variable: a block (inl i) or observed data (inr data-sum: a likelihood) *)
Record factor := mkF { f_x : nat + Q; f_par : list (nat * Q); f_b : Q; f_c : Q; f_m : Q; f_q : Q; f_r : Q; f_l : Q }.

Definition blk (a : list vec) (i : nat) : Q := match nth_error a i with Some v => wsum v | None => 0 end.

Definition factor_val (a : list vec) (f : factor) : Q :=
  let T := fold_left (fun acc p => acc + snd p * blk a (fst p)) (f_par f) (f_b f) in
  let s := match f_x f with inl i => blk a i | inr d => d end in
  f_c f + f_m f * T + f_q f * T * s + f_r f * s * s + f_l f * s.

Definition qjoint (fs : list factor) (a : list vec) : Q :=
  fold_left (fun acc f => acc + factor_val a f) fs 0.

(* random items: a vector (scripted next point / proposal draw / direct draw), log u, and the acc value a
   recording sampler returns *)
Record rnd := mkR { r_vec : vec; r_logu : Q; r_acc : Z }.

(* KRec/KMH/KDirect/KNuts: the harness's samplers (see above; KNuts = HybridGibbs' NUTS branch).
   KOpq: a real sampler that caches evaluations of its target (MH, CWMH, MALA, ULA, PCN, NUTS goes through KNuts): the move
         itself is not modelled (the observed next point is replayed) but the cached values are part of the state.
   KPre: a sampler that PRECOMPUTES a quantity from its target in _initialize (as UGLA, LinearRTO, NUTS do) and uses the
         precomputed value in step(): here pre = logd(1..1) - logd(0..0), draw = scripted vector + pre.  HybridGibbs must
         re-run _initialize whenever it re-targets the sampler.
   KConj: cuqi.experimental.mcmc.Conjugate on a Gaussian-Gamma pair: draw = (scripted standard Gamma variate) / rate,
          rate read off the target.   KLrto: LinearRTO with the normal draw scripted to 0: the conditional mean. *)
Inductive kind := KRec | KMH | KDirect | KNuts | KOpq | KConj | KLrto | KPre.

(* numerical helpers on a log-density t (exact for the quadratic targets they are used on) *)
Fixpoint bump (p : vec) (j : nat) (d : Q) : vec :=
  match p, j with
  | [], _ => []
  | x :: r, O => (x + d) :: r
  | x :: r, S j' => x :: bump r j' d
  end.
Definition zerov (n : nat) : vec := repeat 0 n.
Definition gradq (t : vec -> Q) (h : Q) (p : vec) : vec :=
  map (fun j => Qred ((t (bump p j h) - t (bump p j (- h))) / (2 * h))) (seq 0 (length p)).
(* precision matrix -Hessian and gradient at 0 of a quadratic t in n variables, from values on the lattice h * {0,1,2}^n *)
Definition hessq (t : vec -> Q) (h : Q) (n : nat) : list vec :=
  map (fun j => map (fun k => Qred (- (t (bump (bump (zerov n) j h) k h) - t (bump (zerov n) j h) - t (bump (zerov n) k h) + t (zerov n)) / (h * h)))
                    (seq 0 n)) (seq 0 n).
Definition grad0q (t : vec -> Q) (h : Q) (n : nat) : vec := gradq t h (zerov n).
(* elimination without pivoting (the matrices are symmetric positive definite): rows paired with right-hand sides *)
Fixpoint qsolve (n : nat) (rows : list (vec * Q)) : vec :=
  match n, rows with
  | S n', (a :: r, b) :: rest =>
      let red := map (fun row => match row with
                                 | (c :: r', b') => (map (fun xy => Qred (fst xy - (c / a) * snd xy)) (combine r' r), Qred (b' - (c / a) * b))
                                 | ([], b') => ([], b')
                                 end) rest in
      let xs := qsolve n' red in
      Qred ((b - fold_left (fun acc xy => acc + fst xy * snd xy) (combine r xs) 0) / a) :: xs
  | _, _ => []
  end.

(* scale-free closeness of vectors: max |a_i - b_i| <= tol * (max |a_i| + max |b_i|) *)
Definition vmaxabs (v : vec) : Q := fold_left (fun m x => if Qle_bool m (Qabs x) then Qabs x else m) v 0.
Fixpoint vsub (a b : vec) : vec := match a, b with x :: a', y :: b' => (x - y) :: vsub a' b' | _, _ => [] end.
Definition vclose (tol : Q) (a b : vec) : bool :=
  Nat.eqb (length a) (length b) && Qle_bool (vmaxabs (vsub a b)) (tol * (vmaxabs a + vmaxabs b)).
Definition vlclose (tol : Q) := all2 (vclose tol).
Definition tol7 : Q := 1 # 100000.   (* agreement required between the model's exact draw and the implementation's float (CGLS is iterative) *)
Record sst := mkS { s_kind : kind; s_pt : vec; s_cache : Q; s_grad : vec; s_scale : Q; s_acc : list Z;
                    s_tunes : list (nat * nat * nat); s_init : vec }.

Definition set_pt (s : sst) (p : vec) (c : Q) (a : Z) : sst :=
  mkS (s_kind s) p c (s_grad s) (s_scale s) (s_acc s ++ [a]) (s_tunes s) (s_init s).
Definition set_all (s : sst) (p : vec) (c : Q) (g : vec) (a : Z) : sst :=
  mkS (s_kind s) p c g (s_scale s) (s_acc s ++ [a]) (s_tunes s) (s_init s).

(* the model's own (exact, rational) draw m and the float the implementation returned: the run continues from the
   implementation's value (keeps the rationals at binary64 size); when the two do not agree to 1e-5 relative, the model's
   value is kept in s_grad (otherwise empty for these kinds) and every later comparison of this sampler fails (draw_ok) *)
Definition adopt (s : sst) (floor : Q) (m obs : vec) : sst :=     (* floor: the block's scale (a mean that is exactly 0 comes back as round-off) *)
  if Nat.eqb (length m) (length obs) && Qle_bool (vmaxabs (vsub m obs)) (tol7 * (vmaxabs m + vmaxabs obs + floor))
  then set_pt s obs (s_cache s) 1 else set_all s obs (s_cache s) (map Qred m ++ [1]) 1.
Definition draw_ok (s : sst) : bool :=
  match s_kind s with KConj | KLrto => match s_grad s with [] => true | _ => false end | _ => true end.

(* sampler.step() followed by sampler._acc.append(acc) *)
Definition ctrans (_ : nat) (t : vec -> Q) (s : sst) (r : rnd) : sst :=
  match s_kind s with
  | KRec => set_pt s (r_vec r) (s_cache s) (r_acc r)
  | KPre => set_pt s (vshift (s_cache s) (r_vec r)) (s_cache s) (r_acc r)     (* s_cache holds the precomputed quantity *)
  | KNuts | KOpq =>                   (* opaque move; afterwards the sampler caches logd and gradient at its new point *)
      set_all s (r_vec r) (t (r_vec r)) (gradq t (s_scale s) (r_vec r)) (r_acc r)
  | KConj =>                          (* t(p) = -rate * p + (terms cancelling in differences): rate = (t[p0] - t[2 p0]) / p0 *)
      let p0 := match s_pt s with x :: _ => x | [] => 1 end in
      let rate := (t [p0] - t [2 * p0]) / p0 in
      adopt s 0 [r_logu r / rate] (r_vec r)                                   (* r_logu carries the scripted standard variate *)
  | KLrto =>                          (* zero noise: the minimiser of the stacked least-squares problem = conditional mean *)
      let n := length (s_pt s) in
      let H := hessq t (s_scale s) n in
      let g0 := grad0q t (s_scale s) n in
      let m := qsolve n (combine H g0) in
      (* the elimination is not proved correct: its result is used only if it solves H m = g0 EXACTLY (checked here) *)
      if ql_eqb (map (fun row => fold_left (fun acc xy => acc + fst xy * snd xy) (combine row m) 0) H) g0
      then adopt s (s_scale s) m (r_vec r)
      else set_all s (r_vec r) (s_cache s) [1] 1
  | KDirect =>                        (* test distribution: draw = z + (logd(1..1) - logd(0..0)) of the target it is *)
      let p0 := map (fun _ => 0) (s_pt s) in
      let p1 := map (fun _ => 1) (s_pt s) in
      set_pt s (vshift (t p1 - t p0) (r_vec r)) (s_cache s) 1
  | KMH =>                            (* cuqi.experimental.mcmc.MH.step: uses the CACHED current_target_logd *)
      let xs := vadd (s_pt s) (vscale (s_scale s) (r_vec r)) in
      let es := t xs in
      let ratio := es - s_cache s in
      let alpha := if Qle_bool 0 ratio then 0 else ratio in          (* min(0, ratio) *)
      if Qle_bool (r_logu r) alpha then set_pt s xs es 1 else set_pt s (s_pt s) (s_cache s) 0
  end.

(* HybridGibbs.step's dance around a new target.  Non-NUTS: state and history are saved, the sampler is
   reinitialised on the new target, state and history are put back -- net effect: nothing changes, in
   particular the cached current_target_logd is the one computed under the PREVIOUS conditional.
   `fresh` = true describes the repaired code (fixes/C09_refresh_cached_target_evaluations.diff): the cached
   evaluation is recomputed under the new target.  NUTS branch: initial_point := current_point, reinitialise,
   nothing is put back: history (_acc) starts again at [1]. *)
Definition creinit (fresh : bool) (_ : nat) (t : vec -> Q) (s : sst) : sst :=
  match s_kind s with
  | KMH => if fresh then mkS KMH (s_pt s) (t (s_pt s)) (s_grad s) (s_scale s) (s_acc s) (s_tunes s) (s_init s) else s
  | KOpq => if fresh then mkS KOpq (s_pt s) (t (s_pt s)) (gradq t (s_scale s) (s_pt s)) (s_scale s) (s_acc s) (s_tunes s) (s_init s) else s
  | KNuts => mkS KNuts (s_pt s) (t (s_pt s)) (gradq t (s_scale s) (s_pt s)) (s_scale s) [1%Z] (s_tunes s) (s_pt s)
  | KPre =>                          (* reinitialize() runs _initialize on the new target; _pre is not a state key: it stays *)
      mkS KPre (s_pt s) (t (map (fun _ => 1) (s_pt s)) - t (map (fun _ => 0) (s_pt s))) (s_grad s) (s_scale s) (s_acc s) (s_tunes s) (s_init s)
  | _ => s
  end.

(* the harness's samplers all tune the same way: log the call (skip_len, update_count, len(_acc) at that moment),
   halve `scale` *)
Definition ctune (_ : nat) (skip cnt : nat) (s : sst) : sst :=
  let sc := match s_kind s with KOpq | KConj | KLrto => s_scale s | _ => s_scale s * (1 # 2) end in   (* real samplers: s_scale is a model constant *)
  mkS (s_kind s) (s_pt s) (s_cache s) (s_grad s) sc (s_acc s) (s_tunes s ++ [(skip, cnt, length (s_acc s))]) (s_init s).

(* Sampler.initialize / ProposalBasedSampler.initialize on the first conditional *)
Definition cinit (k : kind) (p : vec) (scale : Q) (t : vec -> Q) : sst :=
  mkS k p (match k with KPre => t (map (fun _ => 1) p) - t (map (fun _ => 0) p) | _ => t p end)
      (match k with KOpq | KNuts => gradq t scale p | _ => [] end) scale [1%Z] [] p.

(* HybridGibbs.__init__: initial points (default ones(dim)), targets from the initial points, initialize() *)
Definition ones (n : nat) : vec := repeat 1 n.
Definition init_point (o : option vec) (dim : nat) : vec := match o with Some v => v | None => ones dim end.

Definition hybrid_init (joint : list vec -> Q) (kinds : list kind) (inits : list vec) (scales : list Q) : @gst vec sst :=
  mkG inits (mapi (fun i ks => cinit (fst ks) (nth i inits []) (snd ks) (cond joint inits i)) (combine kinds scales)).

(* scripted stream: rnd t i j from nested lists (an absent entry is never consumed by a well-formed script) *)
Definition rnd0 : rnd := mkR [] 0 0.
Definition script (sc : list (list (list rnd))) (t i j : nat) : rnd := nth j (nth i (nth t sc []) []) rnd0.
(* num_sampling_steps: None / a missing key defaults to 1 *)
Definition nsteps (l : list (option nat)) (i : nat) : nat := match nth i l None with Some n => n | None => 1%nat end.

Definition hybrid_run (fresh : bool) (jt : list vec -> Q) (kinds : list kind) (inits : list vec) (scales : list Q)
    (ns : list (option nat)) (sc : list (list (list rnd))) (ops : list op) : @run vec Q sst :=
  run_ops (cond jt) s_pt (creinit fresh) ctrans ctune (nsteps ns) (script sc) ops 0
          (mkRun (hybrid_init jt kinds inits scales) [] []).

(* max(int(tune_freq * Nb), 1) *)
Definition tune_interval (freq : Q) (nb : nat) : nat :=
  Z.to_nat (Z.max (Qfloor (freq * inject_Z (Z.of_nat nb))) 1).

(* ---- comparison with what the implementation did ---- *)
(* observed at one sampler.step() call: block, current_samples, target.logd at the probe points, the sampler's
   current_point and (MH only) its cached current_target_logd, all read just before the transition *)
Record oev := mkO { o_blk : nat; o_cur : list vec; o_probes : list Q; o_pt : vec; o_cache : option Q;
                    o_grad : option vec; o_gshape : option Q }.

Section EvOk.
Context {St : Type}.
Variable pt : St -> vec.
Variable cache : St -> Q.
Definition ev_ok (probes : list (list vec)) (e : @ev vec Q St) (o : oev) : bool :=
  Nat.eqb (e_blk e) (o_blk o) && qll_eqb (e_cur e) (o_cur o) && ql_eqb (pt (e_s e)) (o_pt o)
  && ql_eqb (map (e_tgt e) (nth (e_blk e) probes [])) (o_probes o)
  && match o_cache o with Some c => Qeq_bool (cache (e_s e)) c | None => true end.

Fixpoint evs_ok (probes : list (list vec)) (es : list (@ev vec Q St)) (os : list oev) : bool :=
  match es, os with
  | [], [] => true
  | e :: es', o :: os' => ev_ok probes e o && evs_ok probes es' os'
  | _, _ => false
  end.
End EvOk.

Definition nn_eqb (a b : nat * nat * nat) : bool :=
  Nat.eqb (fst (fst a)) (fst (fst b)) && Nat.eqb (snd (fst a)) (snd (fst b)) && Nat.eqb (snd a) (snd b).

(* observed sampler at the end of a run: current_point, cached logd (compared for MH only), scale, _acc
   (None = not compared: real samplers with array-valued acc), tune calls, initial_point *)
Record osst := mkOS { os_pt : vec; os_cache : option Q; os_scale : Q; os_acc : option (list Z);
                      os_tunes : list (nat * nat * nat); os_init : vec }.

Definition sst_ok (s : sst) (o : osst) : bool :=
  ql_eqb (s_pt s) (os_pt o)
  && match os_cache o with Some c => Qeq_bool (s_cache s) c | None => true end
  && Qeq_bool (s_scale s) (os_scale o)
  && match os_acc o with Some a => zl_eqb (s_acc s) a | None => true end
  && list_eqb nn_eqb (s_tunes s) (os_tunes o)
  && ql_eqb (s_init s) (os_init o).

Definition check_hybrid (fresh : bool) (jt : list vec -> Q) (kinds : list kind) (inits : list vec) (scales : list Q)
    (ns : list (option nat)) (sc : list (list (list rnd))) (ops : list op) (probes : list (list vec))
    (olog : list oev) (ocur : list vec) (ostored : list (list vec)) (oss : list osst) : bool :=
  let x := hybrid_run fresh jt kinds inits scales ns sc ops in
  evs_ok s_pt s_cache probes (r_log x) olog
  && qll_eqb (g_cur (r_st x)) ocur
  && list_eqb qll_eqb (r_stored x) ostored
  && all2 sst_ok (g_ss (r_st x)) oss.

(* every MH block sampler's cached evaluation is the value of the target it holds at its current point, at every
   step() call of the run *)
Definition cache_ok_ev (e : @ev vec Q sst) : bool :=
  match s_kind (e_s e) with
  | KMH => Qeq_bool (s_cache (e_s e)) (e_tgt e (s_pt (e_s e)))
  | KOpq | KNuts => Qeq_bool (s_cache (e_s e)) (e_tgt e (s_pt (e_s e)))
                    && ql_eqb (s_grad (e_s e)) (gradq (e_tgt e) (s_scale (e_s e)) (s_pt (e_s e)))
  | _ => true
  end.
Definition cache_consistent (lg : list (@ev vec Q sst)) : bool := forallb cache_ok_ev lg.

(* ---- real CUQIpy families: Gaussian-type joints, compared through probe combinations ----
   surrogate joint = the part of the joint log-density that is polynomial in the block values:
     sum over factors  -(w/2) * sum_r (c_r - sum_b <co_{r,b}, x_b>)^2   (w a constant or the first entry of a block:
     a precision hyper-parameter)   -  sum of  beta * (x_b)_0  (rates of Gamma priors).
   The omitted terms (k log d of Gamma / Gaussian normalisations) are constant in every other block and cancel in the
   probe combinations used for the hyper-parameter blocks themselves (probes p, 2p, 4p with weights -1, 2, -1). *)
Fixpoint qdot (a b : vec) : Q :=
  match a, b with x :: a', y :: b' => x * y + qdot a' b' | _, _ => 0 end.
Record grow := mkRow { gr_c : Q; gr_co : list vec }.
Record gfac := mkGF { g_w : nat + Q; g_rows : list grow }.

Fixpoint row_dot (co : list vec) (a : list vec) : Q :=
  match co, a with c :: co', x :: a' => qdot c x + row_dot co' a' | _, _ => 0 end.
Definition gfac_val (a : list vec) (f : gfac) : Q :=
  let w := match g_w f with inl b => match nth_error a b with Some (d :: _) => d | _ => 0 end | inr c => c end in
  - (w / 2) * fold_left (fun acc r => let e := gr_c r - row_dot (gr_co r) a in acc + e * e) (g_rows f) 0.
Definition gjoint (gfs : list gfac) (lins : list (nat * Q)) (a : list vec) : Q :=
  fold_left (fun acc f => acc + gfac_val a f) gfs 0
  - fold_left (fun acc bl => acc + snd bl * match nth_error a (fst bl) with Some (d :: _) => d | _ => 0 end) lins 0.

Fixpoint combo (c : list Z) (v : list Q) : Q :=
  match c, v with k :: c', x :: v' => inject_Z k * x + combo c' v' | _, _ => 0 end.
Fixpoint combo_abs (c : list Z) (v : list Q) : Q :=
  match c, v with k :: c', x :: v' => Qabs (inject_Z k * x) + combo_abs c' v' | _, _ => 0 end.


(* one step() call of a real sampler: block; current_samples and start point (close: the model computes the Conjugate /
   LinearRTO draws itself, in exact arithmetic); the target through integer combinations of its values at the probe points;
   the cached log-density (relative to the target's value at the first probe point: the model's joint omits terms that are
   constant in the block) and cached gradient the sampler holds; the Gamma shape a Conjugate block hands to numpy *)
Definition ev_ok_tol (tol : Q) (probes : list (list vec)) (combos : list (list (list Z))) (e : @ev vec Q sst) (o : oev) : bool :=
  Nat.eqb (e_blk e) (o_blk o) && vlclose tol (e_cur e) (o_cur o) && vclose tol (s_pt (e_s e)) (o_pt o) && draw_ok (e_s e)
  && (let tv := map (e_tgt e) (nth (e_blk e) probes []) in
      forallb (fun c => Qle_bool (Qabs (combo c (o_probes o) - combo c tv))
                                 (tol * (1 + combo_abs c (o_probes o) + combo_abs c tv)))
              (nth (e_blk e) combos [])
      && match o_cache o, o_probes o, tv with
         | Some c, op0 :: _, t0 :: _ =>
             Qle_bool (Qabs ((c - op0) - (s_cache (e_s e) - t0)))
                      (tol * (1 + Qabs c + Qabs op0 + Qabs (s_cache (e_s e)) + Qabs t0))
         | Some _, _, _ => false
         | None, _, _ => true
         end)
  && match o_grad o with Some g => vclose tol (s_grad (e_s e)) g | None => true end
  && match o_gshape o with Some sh => Qeq_bool sh (s_scale (e_s e)) | None => true end.

Definition check_hybrid_tol (fresh : bool) (jt : list vec -> Q) (kinds : list kind) (inits : list vec) (scales : list Q)
    (ns : list (option nat)) (sc : list (list (list rnd)))
    (ops : list op) (probes : list (list vec)) (combos : list (list (list Z))) (tol : Q)
    (olog : list oev) (ocur : list vec) (ostored : list (list vec)) (opts : list vec) : bool :=
  let x := hybrid_run fresh jt kinds inits scales ns sc ops in
  all2 (ev_ok_tol tol probes combos) (r_log x) olog
  && vlclose tol (g_cur (r_st x)) ocur
  && all2 (vlclose tol) (r_stored x) ostored
  && all2 (fun s p => vclose tol (s_pt s) p && draw_ok s) (g_ss (r_st x)) opts.

(* ---- legacy ---- *)
Inductive lkind := LRec | LMH (scale : Q).

(* cuqi.sampler.MH via Sampler.step: x0 := x; sample(2): target_eval(x0) is computed on THIS target *)
Definition cltrans (ks : list lkind) (i : nat) (t : vec -> Q) (x : vec) (r : rnd) : vec :=
  match nth i ks LRec with
  | LRec => r_vec r
  | LMH sc =>
      let xs := vadd x (vscale sc (r_vec r)) in
      let ratio := t xs - t x in
      let alpha := if Qle_bool 0 ratio then 0 else ratio in
      if Qle_bool (r_logu r) alpha then xs else x
  end.

Inductive lop := LSample (ns nb : nat).
Inductive lobs := LObs (samples warm : list (list vec)) | LObsIndexError | LObsValueError.

(* a sequence of Gibbs.sample calls; after each call the implementation's `samples`/`samples_warmup` (as lists of
   sweeps) or the error it raised; the whole event log at the end *)
Fixpoint legacy_calls (jt : list vec -> Q) (ks : list lkind) (init0 : list vec) (sc : list (list (list rnd)))
    (ops : list lop) (t0 : nat) (st : @lst vec) : list lobs * list (@ev vec Q vec) :=
  match ops with
  | [] => ([], [])
  | LSample ns nb :: r =>
      match lsample (cond jt) (cltrans ks) (script sc) init0 ns nb t0 st with
      | LOk st' lg =>
          let r' := legacy_calls jt ks init0 sc r (t0 + nb + ns) st' in
          (LObs (match l_samples st' with Some s => s | None => [] end)
                (match l_warm st' with Some w => w | None => [] end) :: fst r', lg ++ snd r')
      | LIndexError => let r' := legacy_calls jt ks init0 sc r t0 st in (LObsIndexError :: fst r', snd r')
      | LValueError => let r' := legacy_calls jt ks init0 sc r t0 st in (LObsValueError :: fst r', snd r')
      end
  end.

Definition lobs_eqb (a b : lobs) : bool :=
  match a, b with
  | LObs s w, LObs s' w' => list_eqb qll_eqb s s' && list_eqb qll_eqb w w'
  | LObsIndexError, LObsIndexError => true
  | LObsValueError, LObsValueError => true
  | _, _ => false
  end.

(* legacy Gibbs with real legacy samplers (kernels opaque): values close, targets through probe combinations *)
Definition lev_ok_tol (tol : Q) (probes : list (list vec)) (combos : list (list (list Z))) (e : @ev vec Q vec) (o : oev) : bool :=
  Nat.eqb (e_blk e) (o_blk o) && vlclose tol (e_cur e) (o_cur o) && vclose tol (e_s e) (o_pt o)
  && let tv := map (e_tgt e) (nth (e_blk e) probes []) in
     forallb (fun c => Qle_bool (Qabs (combo c (o_probes o) - combo c tv))
                                (tol * (1 + combo_abs c (o_probes o) + combo_abs c tv)))
             (nth (e_blk e) combos []).
Definition lobs_close (tol : Q) (a b : lobs) : bool :=
  match a, b with
  | LObs s w, LObs s' w' => all2 (vlclose tol) s s' && all2 (vlclose tol) w w'
  | LObsIndexError, LObsIndexError => true
  | LObsValueError, LObsValueError => true
  | _, _ => false
  end.
Definition check_legacy_tol (jt : list vec -> Q) (init0 : list vec) (sc : list (list (list rnd)))
    (ops : list lop) (probes : list (list vec)) (combos : list (list (list Z))) (tol : Q) (oobs : list lobs) (olog : list oev) : bool :=
  let r := legacy_calls jt [] init0 sc ops 0 (mkL None None) in
  all2 (lobs_close tol) (fst r) oobs && all2 (lev_ok_tol tol probes combos) (snd r) olog.

Definition check_legacy (jt : list vec -> Q) (ks : list lkind) (init0 : list vec) (sc : list (list (list rnd)))
    (ops : list lop) (probes : list (list vec)) (oobs : list lobs) (olog : list oev) : bool :=
  let r := legacy_calls jt ks init0 sc ops 0 (mkL None None) in
  list_eqb lobs_eqb (fst r) oobs && evs_ok (fun v : vec => v) (fun _ => 0) probes (snd r) olog.

(* ------------------------------------------------------------------------------------------ *)
(* Part 3: finite-state kernels over Qc (exact probabilities)                                  *)
(* ------------------------------------------------------------------------------------------ *)
Section Finite.
Context {V : Type}.
Variable veqb : V -> V -> bool.

Definition qcsum {A} (f : A -> Qc) (l : list A) : Qc := fold_right (fun a acc => f a + acc)%Qc 0%Qc l.

(* a and a' agree outside block i *)
Fixpoint same_others (i : nat) (a a' : list V) : bool :=
  match a, a' with
  | [], [] => true
  | x :: r, y :: r' => match i with
                       | O => list_eqb veqb r r'
                       | S i' => veqb x y && same_others i' r r'
                       end
  | _, _ => false
  end.

(* block kernel i lifted to the full space: only block i moves; its law K a v' may depend on the whole
   current assignment a (for a Gibbs block: on the others through the conditional, and on a_i as the start) *)
Definition lift (i : nat) (K : list V -> V -> Qc) (d : V) (a a' : list V) : Qc :=
  if same_others i a a' then K a (nth i a' d) else 0%Qc.

(* push a measure on the (enumerated) state space through a kernel *)
Definition push (all : list (list V)) (mu : list V -> Qc) (P : list V -> list V -> Qc) : list V -> Qc :=
  fun a' => qcsum (fun a => mu a * P a a')%Qc all.

(* k transitions of the same block kernel / the blocks in order *)
Fixpoint push_n (all : list (list V)) (mu : list V -> Qc) (P : list V -> list V -> Qc) (n : nat) : list V -> Qc :=
  match n with O => mu | S n' => push all (push_n all mu P n') P end.

(* a sweep: block kernels in order, each applied its configured number of times *)
Fixpoint push_sweep (all : list (list V)) (mu : list V -> Qc) (Pns : list ((list V -> list V -> Qc) * nat))
  : list V -> Qc :=
  match Pns with
  | [] => mu
  | (P, n) :: r => push_sweep all (push_n all mu P n) r
  end.
End Finite.
