(* C17 -- the legacy circulant matrix (roll, flip, toeplitz): its entries, for every even size. *)
From CV Require Import Base.Tac Base.LinAlg Model.C17_TP.

Section Leg.
Variable R : Type.
Variable r0 : R.

Lemma nth_map_seq {B} (f : nat -> B) n i d : (i < n)%nat -> nth i (map f (seq 0 n)) d = f i.
Proof.
  intros H. rewrite (nth_indep _ d (f 0%nat)) by (rewrite map_length, seq_length; exact H).
  rewrite (map_nth f (seq 0 n) 0%nat i). rewrite seq_nth by exact H. reflexivity.
Qed.

(* scipy.linalg.toeplitz *)
Lemma toeplitz_entry (c r : list R) i j : (i < length c)%nat -> (j < length r)%nat ->
  nth j (nth i (toeplitz r0 c r) []) r0 = if (j <=? i)%nat then nth (i - j) c r0 else nth (j - i) r r0.
Proof.
  intros Hi Hj. unfold toeplitz. rewrite (nth_map_seq _ _ _ _ Hi), (nth_map_seq _ _ _ _ Hj). reflexivity.
Qed.

(* hflip h = [h0] ++ reverse(h[1:]):  entry k is h[(n - k) mod n] *)
Lemma hflip_length (h : list R) : length (hflip h) = length h.
Proof. destruct h; simpl; [reflexivity|]. rewrite rev_length. reflexivity. Qed.

Lemma hflip_nth (h : list R) k : (k < length h)%nat ->
  nth k (hflip h) r0 = nth ((length h - k) mod length h) h r0.
Proof.
  destruct h as [|a t]; simpl length; [lia|]. intros Hk.
  destruct k as [|k].
  - rewrite Nat.sub_0_r, Nat.mod_same by lia. reflexivity.
  - cbn [hflip nth]. rewrite rev_nth by lia.
    rewrite Nat.mod_small by lia.
    replace (S (length t) - S k)%nat with (S (length t - S k)) by lia. reflexivity.
Qed.

(* np.roll(l, -s) *)
Lemma roll_neg_length s (l : list R) : (s <= length l)%nat -> length (roll_neg s l) = length l.
Proof. intros H. unfold roll_neg. rewrite app_length, skipn_length, firstn_length. lia. Qed.

Lemma nth_skipn {B} s (l : list B) k d : nth k (skipn s l) d = nth (s + k) l d.
Proof.
  revert l; induction s as [|s IH]; intros l; [reflexivity|].
  destruct l as [|a l]; simpl; [destruct k; reflexivity | apply IH].
Qed.

Lemma nth_firstn {B} s (l : list B) k d : (k < s)%nat -> nth k (firstn s l) d = nth k l d.
Proof.
  revert l k; induction s as [|s IH]; intros l k H; [lia|].
  destruct l as [|a l]; simpl; [reflexivity|]. destruct k; [reflexivity | apply IH; lia].
Qed.

Lemma roll_neg_nth s (l : list R) k : (s <= length l)%nat -> (k < length l)%nat ->
  nth k (roll_neg s l) r0 = nth ((k + s) mod length l) l r0.
Proof.
  intros Hs Hk. unfold roll_neg.
  destruct (Nat.lt_ge_cases k (length l - s)) as [H|H].
  - rewrite app_nth1 by (rewrite skipn_length; exact H).
    rewrite nth_skipn. rewrite Nat.mod_small by lia. f_equal. lia.
  - rewrite app_nth2 by (rewrite skipn_length; exact H).
    rewrite skipn_length. rewrite nth_firstn by lia.
    f_equal.
    assert (E : (k + s = (k - (length l - s)) + 1 * length l)%nat) by lia.
    rewrite E, Nat.mod_add, Nat.mod_small by lia. reflexivity.
Qed.

(* circulant of a row h: entry (i,j) is h[(j - i) mod n] *)
Lemma circ_entry (h : list R) i j : (i < length h)%nat -> (j < length h)%nat ->
  nth j (nth i (circ_of_row r0 h) []) r0 = nth ((j + length h - i) mod length h) h r0.
Proof.
  intros Hi Hj. unfold circ_of_row.
  rewrite toeplitz_entry by (try rewrite hflip_length; assumption).
  destruct (j <=? i)%nat eqn:E.
  - apply Nat.leb_le in E. rewrite hflip_nth by lia. f_equal.
    destruct (Nat.eq_dec i j) as [->|Hne].
    + rewrite Nat.sub_diag, Nat.sub_0_r. replace (j + length h - j)%nat with (length h) by lia. reflexivity.
    + rewrite !Nat.mod_small by lia. lia.
  - apply Nat.leb_gt in E. f_equal.
    assert (E2 : (j + length h - i = (j - i) + 1 * length h)%nat) by lia.
    rewrite E2, Nat.mod_add, Nat.mod_small by lia. reflexivity.
Qed.

(* THE legacy theorem: for every even dim and PSF of that length the legacy matrix exists and
   A[i][j] = PSF[(j - i + dim/2) mod dim]  -- row i is the PSF centred at i, read BACKWARDS along the column *)
Theorem legacy_entry dim (PSF : list R) : Nat.even dim = true -> length PSF = dim ->
  exists A, legacy_matrix r0 dim PSF = Some A /\ length A = dim /\
  forall i j, (i < dim)%nat -> (j < dim)%nat ->
    nth j (nth i A []) r0 = nth ((j + dim - i + dim / 2) mod dim) PSF r0.
Proof.
  intros Hev Hlen. unfold legacy_matrix.
  rewrite <- Nat.negb_even, Hev. cbn [negb]. rewrite Hlen, Nat.eqb_refl. cbn [negb].
  eexists. split; [reflexivity|].
  assert (Hs : (dim / 2 <= length PSF)%nat) by (rewrite Hlen; apply Nat.div_le_upper_bound; lia).
  assert (Hl : length (roll_neg (dim / 2) PSF) = dim) by (rewrite roll_neg_length by exact Hs; exact Hlen).
  split.
  - unfold circ_of_row, toeplitz. rewrite map_length, seq_length, hflip_length. exact Hl.
  - intros i j Hi Hj. rewrite circ_entry by (rewrite Hl; assumption). rewrite Hl.
    rewrite roll_neg_nth by (try exact Hs; rewrite Hlen; apply Nat.mod_upper_bound; lia).
    rewrite Hlen. f_equal.
    rewrite Nat.add_mod_idemp_l by lia. reflexivity.
Qed.

(* the repaired legacy assembly toeplitz(h, hflip): A[i][j] = PSF[(i - j + dim/2) mod dim] *)
Theorem legacy_fixed_entry dim (PSF : list R) : Nat.even dim = true -> length PSF = dim ->
  exists A, legacy_matrix_fixed r0 dim PSF = Some A /\ length A = dim /\
  forall i j, (i < dim)%nat -> (j < dim)%nat ->
    nth j (nth i A []) r0 = nth ((i + dim - j + dim / 2) mod dim) PSF r0.
Proof.
  intros Hev Hlen. unfold legacy_matrix_fixed.
  rewrite <- Nat.negb_even, Hev. cbn [negb]. rewrite Hlen, Nat.eqb_refl. cbn [negb].
  eexists. split; [reflexivity|].
  assert (Hs : (dim / 2 <= length PSF)%nat) by (rewrite Hlen; apply Nat.div_le_upper_bound; lia).
  assert (Hl : length (roll_neg (dim / 2) PSF) = dim) by (rewrite roll_neg_length by exact Hs; exact Hlen).
  split.
  - unfold toeplitz. rewrite map_length, seq_length. exact Hl.
  - intros i j Hi Hj.
    rewrite toeplitz_entry by (try rewrite hflip_length; rewrite Hl; assumption).
    assert (Hroll : forall k, (k < dim)%nat -> nth k (roll_neg (dim / 2) PSF) r0 = nth ((k + dim / 2) mod dim) PSF r0).
    { intros k Hk. rewrite roll_neg_nth by (try exact Hs; rewrite Hlen; exact Hk). rewrite Hlen. reflexivity. }
    destruct (j <=? i)%nat eqn:E.
    + apply Nat.leb_le in E. rewrite Hroll by lia. f_equal.
      assert (E2 : (i + dim - j + dim / 2 = (i - j + dim / 2) + 1 * dim)%nat) by lia.
      rewrite E2, Nat.mod_add by lia. reflexivity.
    + apply Nat.leb_gt in E. rewrite hflip_nth by (rewrite Hl; lia). rewrite Hl.
      rewrite Hroll by (apply Nat.mod_upper_bound; lia).
      rewrite Nat.add_mod_idemp_l by lia. f_equal. f_equal. lia.
Qed.

(* refusals of the legacy form *)
Theorem legacy_refused dim (PSF : list R) :
  legacy_matrix r0 dim PSF = None <-> (Nat.odd dim = true \/ length PSF <> dim).
Proof.
  unfold legacy_matrix. destruct (Nat.odd dim); [split; [left; reflexivity | reflexivity]|].
  destruct (length PSF =? dim)%nat eqn:E; cbn [negb].
  - apply Nat.eqb_eq in E. split; [discriminate | intros [H|H]; [discriminate | contradiction]].
  - apply Nat.eqb_neq in E. split; [right; exact E | reflexivity].
Qed.

End Leg.
