"""C08 -- NUTS leaves its target invariant.

Correspondence: scripted transitions of cuqi.experimental.mcmc.NUTS (sample(1) = one step) and of
cuqi.sampler.NUTS._sample (momentum, Exp(1) draw and every uniform scripted by patching numpy.random) against
Model/C08_NUTS.v: every leaf (point, momentum, log-density) in build order, the number of uniforms consumed, the
leaves of the last doubling (= n_alpha), the selected state, its cached log-density / gradient and the accept flag;
chains of two transitions (so that a stale cache shows), fresh and after warm-up; the step-size schedule.

Independent oracle: (1) per transition, on the observed data: order of random draws, acceptance statistic = mean
Metropolis probability over the leaves of the last doubling, the new state is the old one or a leaf inside the slice
with finite log-density, caches recomputed from the target; (2) exact enumeration of the REAL sampler's transition
kernel restricted to one leapfrog orbit, by handing it symbolic uniforms that record the threshold they are compared
with: the counting measure on the in-slice orbit points must be stationary, sum_i P(i -> 0) = 1."""
import math, itertools
from fractions import Fraction
import numpy as np
from common import *

IMPORTS = ("From Coq Require Import Reals.\nFrom Interval Require Import Tactic.\n"
           "From CV Require Import Base.Cmp Base.Ext Base.QcLin Model.C08_NUTS Model.C08_TuneR Model.C08_Kernel.\nFrom Coq Require Import QArith Qcanon List.\nImport ListNotations.")
RULE = ("scripted transitions: implementation x target family (gauss, two-piece normal, quartic, box with -inf/nan/+inf outside) x "
        "max_depth x step-size class (tiny/mid/huge) x phase (fresh, second transition, after warm-up); dims 1-3, dyadic start/momentum; "
        "distinct = distinct (implementation, target, inputs, script); trivial = transitions whose first leaf already stops the "
        "trajectory (a single leaf)")

SIG_PINF = "NUTS.legacy|nonfinite:+inf-selected"


# ---------------- targets (python side; exact-friendly arithmetic) ----------------
def posterior_parts(spec):
    """the quadratic form of a linear-Gaussian posterior, computed by the harness (never read from the cuqi objects):
    x ~ N(0, tau2 I), y_l ~ N(A_l x, sig2_l I):  logd = -1/2 x.P x + b.x + c"""
    d = len(spec["A"][0][0])
    P = np.eye(d) / spec["tau2"]
    b = np.zeros(d)
    c = -0.5 * d * math.log(2 * math.pi * spec["tau2"])
    for A, y, s2 in zip(spec["A"], spec["y"], spec["sig2"]):
        A, y = np.array(A, dtype=float), np.array(y, dtype=float)
        P = P + A.T @ A / s2
        b = b + A.T @ y / s2
        c += -0.5 * len(y) * math.log(2 * math.pi * s2) - 0.5 * float(y @ y) / s2
    return P, b, c


def target_funcs(spec):
    kind = spec["kind"]
    if kind == "shift":
        f, g = target_funcs(spec["inner"])
        c = spec["c"]
        return (lambda x: f(x) + c), g
    if kind == "lin":
        f, g = target_funcs(spec["inner"])
        b = np.array(spec["b"], dtype=float)
        return (lambda x: f(x) + float(b @ x)), (lambda x: g(x) + b)
    if kind == "posterior":
        P, b, c = posterior_parts(spec)
        return (lambda x: -0.5 * float(x @ (P @ x)) + float(b @ x) + c), (lambda x: -(P @ x) + b)
    if kind == "gauss":
        p = np.array(spec["prec"], dtype=float)
        return (lambda x: -0.5 * np.sum(p * (x * x))), (lambda x: -(p * x))
    if kind == "split":
        pl, pr = np.array(spec["pl"], dtype=float), np.array(spec["pr"], dtype=float)
        return (lambda x: -0.5 * np.sum(np.where(x < 0, pl, pr) * (x * x))), (lambda x: -(np.where(x < 0, pl, pr) * x))
    if kind == "quartic":
        return (lambda x: -0.25 * np.sum((x * x) * (x * x))), (lambda x: -(x * (x * x)))
    if kind == "quad":
        P = np.array(spec["P"], dtype=float)
        return (lambda x: -0.5 * float(x @ (P @ x))), (lambda x: -0.5 * ((P @ x) + (P.T @ x)))
    if kind == "box":
        p = np.array(spec["prec"], dtype=float)
        B = spec["bound"]
        bad = {"ninf": -np.inf, "nan": np.nan, "pinf": np.inf}[spec["bad"]]
        return (lambda x: (-0.5 * np.sum(p * (x * x))) if np.max(np.abs(x)) <= B else bad), (lambda x: -(p * x))
    raise ValueError(kind)


def mk_target(cuqi, spec):
    """the target as the user declares it; `style` varies how the callables hand their results over (fresh array, read-only
    array, view into a larger array, 0-d array / numpy scalar for the log-density) without changing any value"""
    if spec["kind"] == "posterior":
        # a composite built from cuqi's own objects: Gaussian prior, linear model(s), Gaussian data distribution(s)
        d = dim_of(spec)
        x = cuqi.distribution.Gaussian(mean=np.zeros(d), cov=spec["tau2"], name="x")
        dens, data = [x], {}
        for l_, (A, y, s2) in enumerate(zip(spec["A"], spec["y"], spec["sig2"])):
            M = cuqi.model.LinearModel(np.array(A, dtype=float))
            nm = "y%d" % l_
            dens.append(cuqi.distribution.Gaussian(mean=M(x), cov=s2, name=nm))
            data[nm] = np.array(y, dtype=float)
        return cuqi.distribution.JointDistribution(*dens)(**data)
    f, g = target_funcs(spec)
    style = spec.get("style", "plain")
    if style == "buffer":
        buf = np.zeros(dim_of(spec))

        def g2(x, g=g, buf=buf):
            buf[:] = g(x)                     # fills and returns one persistent work array
            return buf
        f2 = f
    elif style == "readonly":
        def g2(x, g=g):
            out = np.array(g(x), dtype=float)
            out.setflags(write=False)
            return out
        f2 = f
    elif style == "view":
        def g2(x, g=g):
            big = np.zeros(2 * len(x) + 1)
            big[1::2] = g(x)
            return big[1::2]                  # non-contiguous view
        f2 = lambda x, f=f: np.float64(f(x))
    elif style == "array0d":
        g2 = g
        f2 = lambda x, f=f: np.array(f(x))    # 0-d array
    else:
        f2, g2 = f, g
    return cuqi.distribution.UserDefinedDistribution(dim=dim_of(spec), logpdf_func=f2, gradient_func=g2)


def cqc(x):
    return "(qc %s)" % cq(x)


def ctarget(spec):
    k = spec["kind"]
    if k == "shift":
        return "(TShift %s %s)" % (cq(spec["c"]), ctarget(spec["inner"]))
    if k == "lin":
        return "(TLin %s %s)" % (clist([cqc(v) for v in spec["b"]]), ctarget(spec["inner"]))
    if k == "posterior":
        P, b, c = posterior_parts(spec)
        return "(TShift %s (TLin %s (TQuad %s)))" % (cq(c), clist([cqc(v) for v in b]), clist([clist([cqc(v) for v in row]) for row in P]))
    if k == "gauss":
        return "(TGauss %s)" % clist([cqc(v) for v in spec["prec"]])
    if k == "split":
        return "(TSplit %s %s)" % (clist([cqc(v) for v in spec["pl"]]), clist([cqc(v) for v in spec["pr"]]))
    if k == "quartic":
        return "TQuartic"
    if k == "quad":
        return "(TQuad %s)" % clist([clist([cqc(v) for v in row]) for row in spec["P"]])
    return "(TBox %s %s %s)" % (clist([cqc(v) for v in spec["prec"]]), cqc(spec["bound"]),
                                {"ninf": "NInf", "nan": "NaN", "pinf": "PInf"}[spec["bad"]])


def dim_of(spec):
    if spec["kind"] in ("shift", "lin"):
        return dim_of(spec["inner"])
    if spec["kind"] == "posterior":
        return len(spec["A"][0][0])
    return {"quartic": lambda: spec["dim"], "split": lambda: len(spec["pl"]), "quad": lambda: len(spec["P"])}.get(spec["kind"], lambda: len(spec["prec"]))()


def kind_name(spec):
    if spec["kind"] in ("shift", "lin"):
        return spec["kind"] + "(" + kind_name(spec["inner"]) + ")"
    return spec["kind"] + (":" + spec["bad"] if spec["kind"] == "box" else "")


# ---------------- driving scripted transitions of the real samplers ----------------
class Recorder:
    """records every _Leapfrog result made inside _BuildTree, per transition"""
    def __init__(self, sampler):
        self.trans = []               # per transition: dict(leaves=[], top=[])
        self.depth, self.active = 0, False
        lf, bt = sampler._Leapfrog, sampler._BuildTree
        rec = self

        def leap(a, b, c, eps):
            out = lf(a, b, c, eps)
            if rec.depth > 0 and rec.active:
                rec.trans[-1]["leaves"].append((np.array(out[0], dtype=float).copy(), np.array(out[1], dtype=float).copy(), float(out[2])))
            return out

        def build(*a, **k):
            if rec.depth == 0 and rec.active:
                rec.trans[-1]["top"].append(len(rec.trans[-1]["leaves"]))
            rec.depth += 1
            try:
                return bt(*a, **k)
            finally:
                rec.depth -= 1
        sampler._Leapfrog = leap
        sampler._BuildTree = build

    def start(self):
        self.trans.append({"leaves": [], "top": []})
        self.active = True


class Script:
    """numpy.random script: per transition (z, e, us); transitions before `first` are served by the seeded default stream"""
    def __init__(self, scripts, first=0):
        self.scripts, self.first = scripts, first
        self.k = -1                   # index of the current transition
        self.in_fge = False
        self.on_start = None
        self.orders = []              # per transition: kinds drawn
        self.it = None
        self.own = None               # private generator for the unscripted (warm-up) transitions, so that their draws are known
        self.zs = []                  # momentum of every transition

    def cur(self):
        j = self.k - self.first
        return self.scripts[j] if 0 <= j < len(self.scripts) else None

    def __call__(self, kind, a, k, idx):
        if self.in_fge:
            return None
        if kind == "standard_normal":
            self.k += 1
            self.orders.append([])
            c = self.cur()
            if self.on_start:
                self.on_start(c is not None)
            if c is not None:
                self.it = iter(c[2])
        c = self.cur()
        if self.k >= 0:
            self.orders[-1].append(kind)
        if c is None:
            if self.own is None or self.k < 0:
                return None
            if kind == "standard_normal":
                zz = self.own.standard_normal(*a, **k)
                self.zs.append(np.array(zz, dtype=float))
                return zz
            if kind == "exponential":
                return self.own.exponential(*a, **k)
            if kind == "rand":
                return self.own.rand()
            return None
        if kind == "standard_normal":
            self.zs.append(np.array(c[0], dtype=float))
            return np.array(c[0], dtype=float)
        if kind == "exponential":
            return np.array([c[1]], dtype=float)
        if kind == "rand":
            return next(self.it)
        raise RuntimeError("unexpected random call " + kind)


class OutOfUniforms(Exception):
    pass


def run_chain(cuqi, impl, spec, eps, md, x0, scripts, warm=0, warm_seed=1, delta=None, x0_dtype="float64", opts=None):
    """list of per-transition observations for len(scripts) scripted transitions (after `warm` unscripted warm-up ones).
    delta: opt_acc_rate (None = the samplers' default); x0_dtype: dtype / container of the initial point handed to the sampler;
    opts (experimental sampler): md_default (max_depth left at its default), md_next (max_depth re-assigned before the later
    transitions), fge (step_size=None: the sampler finds its own), tune_freq (argument of warmup)"""
    opts = opts or {}
    T = mk_target(cuqi, spec)
    x0 = np.array(x0, dtype=float)
    if opts.get("x0_none"):
        x0_in = None                                # the samplers' default initial point (ones)
    elif x0_dtype == "cuqiarray":
        x0_in = cuqi.array.CUQIarray(np.array(x0, dtype=float))
    elif x0_dtype == "cuqiarray_subclass":
        class SubArray(cuqi.array.CUQIarray):       # a subclass instance must be treated like its base class
            pass
        x0_in = SubArray(np.array(x0, dtype=float))
    else:
        x0_in = np.array(x0, dtype=x0_dtype)       # what the sampler is given (the values are representable in that dtype)
    kw = {} if delta is None else {"opt_acc_rate": delta}
    f_ind, _ = target_funcs(spec)
    obs = []
    if impl == "exp":
        from cuqi.experimental.mcmc import NUTS
        s = NUTS(T, initial_point=x0_in, max_depth=(None if opts.get("md_default") else (True if opts.get("md_true") else md)),
                 step_size=(None if opts.get("fge") else eps), **kw)
        rec = Recorder(s)
        in_fge = {"v": False}
        fge = s._FindGoodEpsilon

        def fge_wrapped(*a, **k):
            in_fge["v"], act = True, rec.active
            rec.active = False
            try:
                return fge(*a, **k)
            finally:
                in_fge["v"], rec.active = False, act
        s._FindGoodEpsilon = fge_wrapped
        sched = None
        if warm:
            events = []
            orig_tune, orig_step = s.tune, s.step
            scw = Script([], first=10**9)            # every warm-up transition is served by a private generator: its draws are known
            scw.own = np.random.RandomState(warm_seed)
            scw.on_start = lambda scripted: rec.start()

            def tune(skip_len, update_count):
                r = orig_tune(skip_len, update_count)
                events.append(("tune", float(s._epsilon), float(s._epsilon_bar), int(update_count)))
                return r

            warm_phase = {"on": True}

            def step():
                xb = np.array(s.current_point, dtype=float).copy()
                r = orig_step()
                if not warm_phase["on"]:      # scripted sampling steps: their statistic is checked by the per-transition oracle
                    events.append(("step", float(s._current_alpha_ratio), float(s._current_alpha_ratio)))
                    return r
                # the statistic recomputed from the recorded leaves of the last doubling and the known momentum
                tr, zz = rec.trans[-1], scw.zs[-1]
                with np.errstate(all="ignore"):
                    h0 = float(f_ind(xb)) - 0.5 * float(np.dot(zz, zz))
                    last = tr["leaves"][tr["top"][-1]:] if tr["top"] else []
                    hs = [l[2] - 0.5 * float(np.dot(l[1], l[1])) for l in last]
                    al = sum(leaf_alpha(h, h0) for h in hs) / max(1, len(hs))
                events.append(("step", al, float(s._current_alpha_ratio)))
                return r
            s.tune, s.step = tune, step
            with ScriptedRandom(seed=warm_seed, script=scw):
                if "tune_freq" in opts:
                    s.warmup(warm, tune_freq=opts["tune_freq"])
                else:
                    s.warmup(warm)
            warm_phase["on"] = False
            sched = {"eps0": float(eps), "events": events, "delta": 0.6 if delta is None else delta}
        if opts.get("zero_calls"):
            with ScriptedRandom(seed=warm_seed):
                s.warmup(0)                            # configured counts of 0: nothing may be drawn, no transition made
                s.sample(0)
        refusals_ok, overwrite_ok = True, True
        for j_, (z, e, us) in enumerate(scripts):
            if j_ >= 1 and "md_next" in opts:
                s.max_depth = opts["md_next"]          # attribute re-assigned on a live sampler
            if opts.get("refusals"):
                # invalid settings must be refused in every life-cycle state and leave the sampler as it was
                before = (s.max_depth, s.step_size, s.opt_acc_rate)
                for attr, bad in (("max_depth", -1), ("max_depth", 1.5), ("step_size", -0.5), ("step_size", True), ("opt_acc_rate", 1.5), ("opt_acc_rate", 0)):
                    try:
                        setattr(s, attr, bad)
                        refusals_ok = False
                    except (TypeError, ValueError):
                        pass
                if (s.max_depth, s.step_size, s.opt_acc_rate) != before:
                    refusals_ok = False
            if opts.get("twin"):
                # a second sampler on ANOTHER target, alive at the same time and started at the same point
                T2 = mk_target(cuqi, opts["twin"])
                s2 = NUTS(T2, initial_point=np.array(s.current_point if s._is_initialized else x0, dtype=float), max_depth=md, step_size=eps)
                with ScriptedRandom(seed=warm_seed + 7):
                    s2.sample(2)
            if j_ >= 1 and opts.get("overwrite_x0") and isinstance(x0_in, np.ndarray):
                keep = np.array(s.current_point, dtype=float).copy()
                x0_in[:] = 9.0                          # the caller re-uses the array it once passed as initial point
                overwrite_ok = overwrite_ok and bool(np.array_equal(np.array(s.current_point, dtype=float), keep))
            sc = Script([(z, e, us)])
            sc.on_start = lambda scripted: rec.start()

            def scr(kind, a, k, idx, sc=sc):
                return None if in_fge["v"] else sc(kind, a, k, idx)
            xb = np.array(s.current_point, dtype=float).copy() if s._is_initialized else x0.copy()
            n_before = len(s.epsilon_list) if s._is_initialized else 0
            try:
                with ScriptedRandom(seed=warm_seed, script=scr) as sr:
                    s.sample(1)
            except StopIteration:
                raise OutOfUniforms()
            tr = rec.trans[-1]
            obs.append(dict(x0=xb, eps=float(s.epsilon_list[n_before]), leaves=tr["leaves"], point=np.array(s.current_point, dtype=float).copy(),
                            logd=float(s.current_target_logd), grad=np.array(s.current_target_grad, dtype=float).copy(),
                            acc=bool(s._acc[-1]), nrand=sum(1 for o_ in (sc.orders[-1] if sc.orders else []) if o_ == "rand"),
                            nlast=len(tr["leaves"]) - tr["top"][-1] if tr["top"] else 0, alpha=float(s._current_alpha_ratio),
                            order=sc.orders[-1] if sc.orders else [], ntree=int(s.num_tree_node_list[-1]),
                            start_expected=([float(v) for v in x0] if (j_ == 0 and not warm) else None),
                            md=(opts["md_next"] if (j_ >= 1 and "md_next" in opts) else (15 if opts.get("md_default") else (1 if opts.get("md_true") else md)))))   # what the harness asked for, never read back
        # keep-alive: the samples handed out earlier still are what they were when the transition ended
        stored = [np.array(v, dtype=float) for v in s._samples[-len(scripts):]]
        obs[0]["samples_stable"] = all(np.array_equal(a_, o_["point"]) for a_, o_ in zip(stored, obs))
        obs[0]["refusals_ok"], obs[0]["overwrite_ok"] = refusals_ok, overwrite_ok
        if sched is not None:
            sched["events"] = [("prewarm",)] + sched["events"][:]
            # events recorded so far contain the warm-up steps/tunes and the sampling steps
            k = sum(1 for ev in sched["events"] if ev[0] == "step") - len(scripts)
            evs, c = [], 0
            for ev in sched["events"]:
                if ev[0] == "step":
                    if c == k:
                        evs.append(("presample",))
                    c += 1
                evs.append(ev)
            sched["events"] = evs
            sched["used"] = [float(v) for v in s.epsilon_list]
            sched["final"] = (float(s._epsilon), float(s._epsilon_bar))
            obs[0]["sched"] = sched
        return obs
    else:
        s = cuqi.sampler.NUTS(T, x0=x0_in, max_depth=md, adapt_step_size=(True if warm else eps), **kw)
        s._return_burnin = True
        rec = Recorder(s)
        sc = Script(scripts, first=warm)
        sc.on_start = lambda scripted: rec.start()
        if warm:
            sc.own = np.random.RandomState(warm_seed)
        fge = s._FindGoodEpsilon

        def fge_wrapped(*a, **k):
            sc.in_fge, act = True, rec.active
            rec.active = False
            try:
                return fge(*a, **k)
            finally:
                sc.in_fge, rec.active = False, act
        s._FindGoodEpsilon = fge_wrapped
        N = len(scripts) + 1
        import io, contextlib
        try:
            with ScriptedRandom(seed=warm_seed, script=sc) as sr, contextlib.redirect_stdout(io.StringIO()):
                theta, joint, steps = s._sample(N, warm)
        except StopIteration:
            raise OutOfUniforms()
        for j in range(len(scripts)):
            k = warm + 1 + j
            tr = rec.trans[k - 1]
            order = sc.orders[k - 1]
            obs.append(dict(x0=np.array(theta[:, k - 1], dtype=float), eps=float(s.epsilon_list[k - 1]), leaves=tr["leaves"],
                            point=np.array(theta[:, k], dtype=float), logd=float(joint[k]), grad=None, acc=None,
                            nrand=sum(1 for o in order if o == "rand"), nlast=len(tr["leaves"]) - tr["top"][-1] if tr["top"] else 0,
                            alpha=None, order=order, ntree=int(s.num_tree_node_list[k - 1]),
                            first=np.array(theta[:, 0], dtype=float), chain_x0=[float(v) for v in x0], md=md,
                            start_expected=([float(v) for v in x0] if (j == 0 and not warm) else None)))
        if warm:
            # the statistic of every warm-up iteration from its recorded leaves, for the dual-averaging oracle
            alphas = []
            for k in range(1, warm + 1):
                tr, z = rec.trans[k - 1], sc.zs[k - 1]
                h0 = float(joint[k - 1]) - 0.5 * float(np.dot(z, z))
                last = tr["leaves"][tr["top"][-1]:] if tr["top"] else []
                with np.errstate(all="ignore"):
                    hs = [l[2] - 0.5 * float(np.dot(l[1], l[1])) for l in last]
                    alphas.append(sum(leaf_alpha(h, h0) for h in hs) / max(1, len(hs)))
            obs[0]["dual"] = {"delta": 0.6 if delta is None else delta, "eps0": float(s.epsilon_list[0]), "alphas": alphas, "used": [float(v) for v in s.epsilon_list],
                              "bars": [None if v is None else float(v) for v in s.epsilon_bar_list]}
        return obs


# ---------------- dual averaging of the step size (Hoffman & Gelman 2014, Algorithm 6) ----------------
def dual_averaging(eps0, alphas, delta=0.6, gamma=0.05, t0=10, kappa=0.75):
    """list of (eps_k, eps_bar_k), k = 1..len(alphas), from the acceptance statistics alpha_k"""
    mu = math.log(10 * eps0)
    Hbar, log_bar, out = 0.0, 0.0, []
    for k, al in enumerate(alphas, start=1):
        Hbar = (1 - 1 / (k + t0)) * Hbar + (delta - al) / (k + t0)
        log_eps = mu - math.sqrt(k) / gamma * Hbar
        eta = k ** (-kappa)
        log_bar = eta * log_eps + (1 - eta) * log_bar
        out.append((math.exp(log_eps), math.exp(log_bar)))
    return out


def leaf_alpha(hp, h0):
    d = hp - h0
    return 1.0 if d > 0 else math.exp(d)


def relclose(a, b, tol=1e-9):
    return abs(a - b) <= tol * (1 + abs(b))


# ---------------- per-transition oracle on the observed data ----------------
def exact_leaves(spec, eps, x0, z, leaves):
    """True iff the implementation's leaves equal, bit for bit, the leapfrog orbit recomputed in exact rationals
    (then ties in the decisions are meaningful).  Only for polynomial targets without a box."""
    if spec["kind"] not in ("gauss", "quartic"):
        return False
    x0 = [frac(v) for v in x0]
    h = frac(eps)
    if spec["kind"] == "gauss":
        p = [frac(v) for v in spec["prec"]]
        grad = lambda x: [-pi * xi for pi, xi in zip(p, x)]
        logd = lambda x: -sum(pi * xi * xi for pi, xi in zip(p, x)) / 2
    else:
        grad = lambda x: [-(xi ** 3) for xi in x]
        logd = lambda x: -sum(xi ** 4 for xi in x) / 4
    st = {0: (x0, [frac(v) for v in z])}

    def step(s, sign):
        x, r = s
        e = sign * h
        r1 = [ri + e / 2 * gi for ri, gi in zip(r, grad(x))]
        x1 = [xi + e * ri for xi, ri in zip(x, r1)]
        r2 = [ri + e / 2 * gi for ri, gi in zip(r1, grad(x1))]
        return (x1, r2)
    n = len(leaves)
    for i in range(1, n + 1):
        st[i] = step(st[i - 1], 1)
        st[-i] = step(st[-i + 1], -1)
    pts = {}
    for i, (x, r) in st.items():
        pts[tuple(x)] = (i, r)
    small = lambda v: frac(v).numerator.bit_length() <= 22 and frac(v).denominator.bit_length() <= 22
    for (x, r, l) in leaves:
        if not (all(small(v) for v in x) and all(small(v) for v in r)):
            return False
        key = tuple(frac(v) for v in x)
        if key not in pts:
            return False
        i, rr = pts[key]
        if [frac(v) for v in r] != rr or frac(l) != logd(list(key)):
            return False
    return True


def transition_oracle(impl, spec, o, z, e):
    """independent re-statement of the per-transition clauses of the property on the observed data"""
    f, g = target_funcs(spec)
    x0 = np.array(o["x0"], dtype=float)
    if o["order"][:2] != ["standard_normal", "exponential"] or any(k != "rand" for k in o["order"][2:]):
        return "random numbers are drawn in an unexpected order: %s" % o["order"][:6], "NUTS.rng_order"
    if o.get("start_expected") is not None and not np.array_equal(x0, np.array(o["start_expected"], dtype=float)):
        return ("the first transition starts from %s, not from the initial point %s (given, or the default of ones)" % (x0, o["start_expected"]),
                "NUTS.%s.start_point" % impl)
    L0 = float(f(x0))
    H0 = L0 - 0.5 * float(np.dot(z, z))
    logu = H0 - e
    hs = [l[2] - 0.5 * float(np.dot(l[1], l[1])) for l in o["leaves"]]
    # the new state: old one or a leaf in the slice, with finite log-density
    pt = np.array(o["point"], dtype=float)
    if not np.isfinite(o["logd"]):
        return ("a state with non-finite log-density %r was selected" % o["logd"],
                SIG_PINF if (impl == "leg" and o["logd"] == np.inf) else "NUTS.%s.nonfinite_selected" % impl)
    if not np.array_equal(pt, x0):
        idx = [i for i, l in enumerate(o["leaves"]) if np.array_equal(l[0], pt)]
        if not idx:
            return "the new state %s is neither the old state nor a visited leaf" % pt, "NUTS.%s.selected_not_a_leaf" % impl
        if np.isfinite(logu) and all(hs[i] < logu - 1e-9 * (1 + abs(logu)) for i in idx):
            return "the new state (leaf %d, H=%r) lies outside the slice log u=%r" % (idx[0], hs[idx[0]], logu), "NUTS.%s.selected_outside_slice" % impl
    # caches belong to the current point
    Lp = float(f(pt))
    if not (Lp == o["logd"] or abs(Lp - o["logd"]) <= 1e-12 * (1 + abs(Lp))):
        return "cached log-density %r is not the log-density %r of the current point" % (o["logd"], Lp), "NUTS.%s.cache_logd" % impl
    if o["grad"] is not None and not np.allclose(o["grad"], g(pt), rtol=1e-12, atol=1e-12):
        return "cached gradient %s is not the gradient %s of the current point" % (o["grad"], g(pt)), "NUTS.%s.cache_grad" % impl
    if impl == "exp" and o["acc"] != (not np.array_equal(pt, x0)) and len(set(tuple(l[0]) for l in o["leaves"]) | {tuple(x0)}) == len(o["leaves"]) + 1:
        return "accept flag %r although the state %s" % (o["acc"], "changed" if not np.array_equal(pt, x0) else "did not change"), "NUTS.exp.acc_flag"
    if impl == "leg" and o.get("chain_x0") is not None and not np.array_equal(o["first"], np.array(o["chain_x0"], dtype=float)):
        return "the first stored state %s is not the initial point %s" % (o["first"], o["chain_x0"]), "NUTS.legacy.first_state"
    # the statistic: mean Metropolis probability over the leaves of the last doubling
    if impl == "exp" and o["nlast"] > 0 and np.isfinite(H0):
        hl = hs[-o["nlast"]:]
        if all(not np.isnan(h) for h in hl):
            exp_alpha = sum((1.0 if h > H0 else math.exp(h - H0)) for h in hl) / len(hl)
            if not abs(exp_alpha - o["alpha"]) <= 1e-12 * (1 + abs(exp_alpha)):
                return ("acceptance statistic %r is not the mean Metropolis probability %r over the %d leaves of the last doubling"
                        % (o["alpha"], exp_alpha, len(hl))), "NUTS.exp.alpha_stat"
    return None, ""


# ---------------- exact kernel enumeration of the real sampler on one orbit ----------------
class SymU:
    """A 'uniform' that records what it is compared with and answers from a script of booleans."""
    def __init__(self, ctl):
        self.ctl = ctl

    def __le__(self, p):
        return self.ctl.decide(float(p))

    def __lt__(self, p):
        return self.ctl.decide(float(p))


class RunawayDepth(Exception):
    pass


class RunawayReport(Exception):
    pass


class TooManyRuns(Exception):
    pass


class Enumerator:
    """depth-first enumeration of every outcome of a randomised run with exact weights"""
    def __init__(self, limit=None, max_runs=None):
        self.prefix, self.pos, self.weight, self.pending = [], 0, Fraction(1), []
        self.runs = 0
        self.limit = limit            # more random decisions than this in one run: the depth bound is not respected
        self.max_runs = max_runs      # enumeration budget (the caller then picks another input)

    def decide(self, p):
        if self.limit is not None and self.pos >= self.limit:
            raise RunawayDepth()
        p = min(1.0, max(0.0, p))
        pf = Fraction(p).limit_denominator(10**6)
        if self.pos < len(self.prefix):
            b = self.prefix[self.pos]
        else:
            b = pf > 0
            self.prefix.append(b)
            if 0 < pf < 1:
                self.pending.append((list(self.prefix[:-1]) + [False]))
        self.pos += 1
        self.weight *= pf if b else (1 - pf)
        return b

    def outcomes(self, runner):
        res = []
        stack = [[]]
        while stack:
            self.prefix, self.pos, self.weight, self.pending = stack.pop(), 0, Fraction(1), []
            out = runner()
            self.runs += 1
            if self.max_runs is not None and self.runs > self.max_runs:
                raise TooManyRuns()
            if self.weight > 0:
                res.append((out, self.weight))
            stack.extend(self.pending)
        return res


def kernel_from(cuqi, impl, spec, eps, max_depth, x, r, e, max_runs=None):
    """exact law of the next point of the real sampler started at (x, momentum r, slice draw e)"""
    en = Enumerator(limit=2 ** (max_depth + 1) + 2 * (max_depth + 1) + 2, max_runs=max_runs)

    def script(kind, a, k, idx):
        if kind == "standard_normal":
            return np.array(r, dtype=float)
        if kind == "exponential":
            return np.array([e], dtype=float)
        if kind == "rand":
            return SymU(en)
        raise RuntimeError(kind)

    def runner():
        T = mk_target(cuqi, spec)
        if impl == "exp":
            from cuqi.experimental.mcmc import NUTS
            s = NUTS(T, initial_point=np.array(x, dtype=float), max_depth=max_depth, step_size=eps)
            with ScriptedRandom(script=script):
                s.sample(1)
            return tuple(float(v) for v in s.current_point)
        else:
            s = cuqi.sampler.NUTS(T, x0=np.array(x, dtype=float), max_depth=max_depth, adapt_step_size=eps)
            import io, contextlib
            with ScriptedRandom(script=script), contextlib.redirect_stdout(io.StringIO()):
                theta, _, _ = s._sample(2, 0)
            return tuple(float(v) for v in theta[:, 1])
    law = {}
    for out, w in en.outcomes(runner):
        law[out] = law.get(out, 0) + w
    return law


def orbit(spec, eps, x, r, lo, hi):
    """orbit states i = lo..hi of the leapfrog map (float arithmetic as in the code)"""
    f, g = target_funcs(spec)
    st = {0: (np.array(x, dtype=float), np.array(r, dtype=float))}
    for sign, rng_ in ((1, range(1, hi + 1)), (-1, range(-1, lo - 1, -1))):
        for i in rng_:
            xp, rp = st[i - sign]
            h = sign * eps
            r1 = rp + 0.5 * h * g(xp)
            x1 = xp + h * r1
            r2 = r1 + 0.5 * h * g(x1)
            st[i] = (x1, r2)
    return st, f


def orbit_stationary(cuqi, impl, spec, eps, max_depth, x, r, e, all_targets=False, allow_ties=False):
    """Stationarity of the counting measure on the in-slice points of the orbit through (x, r) under the REAL kernel:
    for the target position k = 0 (all_targets: every in-slice k within reach of 0) the sum over in-slice,
    finite-density sources i of P(i -> k) must be 1 (exact rational weights).
    Returns None if it holds (or a decision margin is tiny / the step size 1.0 is not honoured by the legacy sampler),
    else a description.  allow_ties: the arithmetic of this case is exact, so exact ties are meaningful."""
    if impl == "leg" and eps == 1:
        return None        # adapt_step_size=1.0 == True: the legacy sampler picks its own step size (reported separately)
    span = 2 ** (max_depth + 1) - 1
    reach = 2 * span if all_targets else span
    st, f = orbit(spec, eps, x, r, -reach - span - 1, reach + span + 1)
    with np.errstate(all="ignore"):
        L = {i: float(f(s[0])) for i, s in st.items()}
        H = {i: L[i] - 0.5 * float(np.dot(s[1], s[1])) for i, s in st.items()}
    logu = H[0] - e
    if not np.isfinite(logu):
        return None
    if not allow_ties and any(abs(logu - h) < 1e-7 * (1 + abs(logu)) or abs(logu - 1000 - h) < 1e-7 * (1 + abs(logu)) for h in H.values() if np.isfinite(h)):
        return None
    # distinct orbit points are needed to identify outcomes
    for i, s in st.items():
        if any(np.allclose(s[0], t[0], rtol=1e-9, atol=1e-12) for j, t in st.items() if j < i):
            return None
    inslice = lambda i: bool(logu <= H[i]) and bool(np.isfinite(L[i]))
    targets = [k for k in range(-span, span + 1) if inslice(k)] if all_targets else [0]
    laws = {}

    def law_of(i):
        if i not in laws:
            try:
                law = kernel_from(cuqi, impl, spec, eps, max_depth, st[i][0], st[i][1], H[i] - logu)
            except RunawayDepth:
                raise RunawayReport("started at orbit position %d the sampler takes more random decisions than a transition of max_depth %d can take "
                                    "(%d): the depth bound is not respected" % (i, max_depth, 2 ** (max_depth + 1) + 2 * (max_depth + 1)))
            idx = {}
            for pt, w in law.items():
                ks = [k for k in range(i - span, i + span + 1) if np.allclose(st[k][0], pt, rtol=1e-9, atol=1e-12)]
                idx[ks[0] if ks else ("off-orbit", pt)] = idx.get(ks[0] if ks else ("off-orbit", pt), 0) + w
            laws[i] = idx
        return laws[i]
    try:
        for i in ([0] if 0 in targets else []):
            law_of(i)
    except RunawayReport as ex:
        return str(ex)
    for k in targets:
        total, parts = Fraction(0), {}
        for i in range(k - span, k + span + 1):
            if not inslice(i):
                continue
            try:
                law = law_of(i)
            except RunawayReport as ex:
                return str(ex)
            if abs(float(sum(law.values())) - 1) > 1e-9:
                return "enumerated weights from orbit position %d sum to %s" % (i, float(sum(law.values())))
            for kk, w in law.items():
                if isinstance(kk, tuple):
                    return "from orbit position %d the sampler moved to %s, which is not on the orbit" % (i, kk[1])
                if w > 0 and not inslice(kk):
                    return ("from orbit position %d a state outside the slice / with non-finite density (position %d, H=%r, log u=%r) is selected with probability %s"
                            % (i, kk, H[kk], logu, float(w)))
            if law.get(k):
                total += law[k]
                parts[i] = law[k]
        if abs(float(total) - 1) > 1e-9:
            return ("the counting measure on the slice is not stationary on the orbit: sum over in-slice i of P(i->%d) = %s (%s), contributions %s"
                    % (k, float(total), total, {i: str(w) for i, w in sorted(parts.items())}))
    return None


# ---------------- closed orbits: trajectories that wrap around (Props/C08_Cycle.v) ----------------
# Gaussian coordinates with precision a and step size eps such that a*eps^2 is 1, 2 or 3: the leapfrog map of the coordinate
# is a linear map of order 6, 4 or 3 with dyadic entries, so the orbit through a dyadic start closes after a few steps and
# the binary64 arithmetic of the samplers is exact on it.  (step size 1.0 would be read as adapt_step_size=True by the
# legacy sampler.)
CYCLE_CONFIGS = [([8.0], 0.5, 4), ([4.0], 0.5, 6), ([12.0], 0.5, 3), ([32.0], 0.25, 4), ([16.0], 0.25, 6), ([48.0], 0.25, 3),
                 ([8.0, 8.0], 0.5, 4), ([8.0, 12.0], 0.5, 12), ([4.0, 12.0], 0.5, 6), ([4.0, 8.0], 0.5, 12)]      # (precisions, step size, period)


def exact_cycle(prec, eps, x0, z, nmax=12):
    """the closed leapfrog orbit through (x0, z) in exact rationals (harness's own arithmetic): [(x, r, logd, H)] for one
    period, or None if the orbit does not close within nmax steps"""
    p, h = [frac(v) for v in prec], frac(eps)
    x, r = [frac(v) for v in x0], [frac(v) for v in z]
    start, out = (tuple(x), tuple(r)), []
    for _ in range(nmax):
        logd = -sum(pi * xi * xi for pi, xi in zip(p, x)) / 2
        out.append((list(x), list(r), logd, logd - sum(ri * ri for ri in r) / 2))
        r1 = [ri - h / 2 * pi * xi for ri, pi, xi in zip(r, p, x)]
        x = [xi + h * ri for xi, ri in zip(x, r1)]
        r = [ri - h / 2 * pi * xi for ri, pi, xi in zip(r1, p, x)]
        if (tuple(x), tuple(r)) == start:
            return out
    return None


def cycle_kernel(cuqi, impl, spec, eps, max_depth, cyc, logu):
    """exact law of the new point of the REAL sampler from every in-slice state of the closed orbit (slice level logu, a
    Fraction): {i: {point (tuple of Fractions): probability}}"""
    laws = {}
    for i, (x, r, _, H) in enumerate(cyc):
        if H < logu:
            continue
        law = kernel_from(cuqi, impl, spec, eps, max_depth, [float(v) for v in x], [float(v) for v in r], float(H - logu), max_runs=3000)
        out = {}
        for pt, w in law.items():
            key = tuple(frac(v) for v in pt)
            out[key] = out.get(key, 0) + w
        laws[i] = out
    return laws


def cycle_stationary(cyc, logu, laws):
    """Invariance of the uniform distribution on the in-slice states of a closed orbit under the enumerated kernel of the
    real sampler: every outcome is an in-slice point of the orbit, and for every point X of the orbit the sum over the
    in-slice states s of P(s -> X) is the number of in-slice states with position X.  None if it holds, else a description."""
    mult = {}
    for (x, r, _, H) in cyc:
        mult.setdefault(tuple(x), 0)
        if H >= logu:
            mult[tuple(x)] += 1
    col = {}
    for i, law in sorted(laws.items()):
        if sum(law.values()) != 1:
            return "enumerated probabilities from state %d of the closed orbit sum to %s" % (i, sum(law.values()))
        for pt, w in law.items():
            if pt not in mult:
                return "from state %d of the closed orbit the sampler moved to %s, which is not on the orbit" % (i, [float(v) for v in pt])
            if w > 0 and mult[pt] == 0:
                return ("from state %d of the closed orbit a state outside the slice (position %s) is selected with probability %s"
                        % (i, [float(v) for v in pt], w))
            col[pt] = col.get(pt, 0) + w
    for pt, m in sorted(mult.items()):
        if col.get(pt, 0) != m:
            return ("the uniform distribution on the in-slice states of the closed orbit (%d states, %d in the slice) is not invariant: the mass arriving at "
                    "position %s is %s, there are %d in-slice states with this position; rows %s"
                    % (len(cyc), sum(mult.values()), [float(v) for v in pt], col.get(pt, 0), m,
                       {i: {str([float(v) for v in k_]): str(w) for k_, w in law.items()} for i, law in sorted(laws.items())}))
    return None


def cycle_mixture(cuqi, impl, spec, eps, max_depth, cyc, rng):
    """The step over the slice variable on a closed orbit (Props/C08_Finite.v on the implementation).  One representative
    level per class of slice levels (below every state; between two consecutive Hamiltonian values), random positive masses
    lambda_j, pi(s) = sum_j lambda_j [s in slice_j]: (1) inside a class the enumerated kernel of the real sampler does not
    depend on the level (midpoint vs the upper end of the class, where log u = H exactly), (2) every class leaves the
    uniform distribution on its slice invariant, (3) the mass arriving at every position under the mixture is pi of it."""
    hs = sorted(set(c[3] for c in cyc))
    reps = [(hs[0] - 1, hs[0])] + [((a + b) / 2, b) for a, b in zip(hs, hs[1:])]
    lam = [Fraction(rng.randint(1, 16), 8) for _ in reps]
    flow, pi = {}, {}
    for (t, t_end), l_ in zip(reps, lam):
        if not all(frac(float(v)) == v for v in (t, t_end)):
            return None
        laws = cycle_kernel(cuqi, impl, spec, eps, max_depth, cyc, t)
        laws_end = cycle_kernel(cuqi, impl, spec, eps, max_depth, cyc, t_end)
        if laws != laws_end:
            i = [i_ for i_ in laws if laws[i_] != laws_end.get(i_)][0]
            return ("the kernel of the real sampler changes inside one class of slice levels: from state %d of the closed orbit, log u = %s gives %s, log u = %s "
                    "(same states in the slice) gives %s" % (i, float(t), {str([float(v) for v in k_]): str(w) for k_, w in laws[i].items()}, float(t_end),
                                                             {str([float(v) for v in k_]): str(w) for k_, w in laws_end.get(i, {}).items()}))
        d = cycle_stationary(cyc, t, laws)
        if d:
            return "slice level %s: %s" % (float(t), d)
        for (x, r, _, H) in cyc:
            if H >= t:
                pi[tuple(x)] = pi.get(tuple(x), 0) + l_
        for i, law in laws.items():
            for pt, w in law.items():
                flow[pt] = flow.get(pt, 0) + l_ * w
    for pt in sorted(set(pi) | set(flow)):
        if pi.get(pt, 0) != flow.get(pt, 0):
            return ("layer-cake mixture over %d classes of slice levels with masses %s: the mass arriving at position %s is %s, pi of it is %s"
                    % (len(reps), [str(v) for v in lam], [float(v) for v in pt], flow.get(pt, 0), pi.get(pt, 0)))
    return None


def gen_cycle(rng, cfg_idx, slice_kind, long_for=None):
    """a closed orbit of the period of the configuration and a slice level: below every state / cutting the orbit / exactly
    on a state.  long_for = (cuqi, max_depth): among 12 starts take the one on which a scripted transition of the experimental
    sampler builds the longest trajectory (the U-turn test usually fires before a trajectory has gone around the orbit)."""
    prec, eps, period = CYCLE_CONFIGS[cfg_idx % len(CYCLE_CONFIGS)]
    forced = None
    if long_for is not None:
        best = None
        for _ in range(12):
            x0 = [dy(rng, -1.25, 1.25, 8) for _ in prec]
            z = [dy(rng, -2, 2, 16) for _ in prec]
            cyc = exact_cycle(prec, eps, x0, z)
            if cyc is None or len(cyc) != period:
                continue
            us = [(rng.randint(0, 127) * 2 + 1) / 256 for _ in range(2 ** (long_for[1] + 2) + 8)]
            try:
                o = run_chain(long_for[0], "exp", {"kind": "gauss", "prec": prec}, eps, long_for[1], x0, [(z, 0.5, us)])[0]
            except Exception:
                continue
            if best is None or len(o["leaves"]) > best[0]:
                best = (len(o["leaves"]), x0, z)
        if best is not None:
            forced = (best[1], best[2])
    for _ in range(200):
        x0 = [dy(rng, -1.25, 1.25, 8) for _ in prec]
        z = [dy(rng, -2, 2, 16) for _ in prec]
        if forced is not None:
            x0, z = forced
        cyc = exact_cycle(prec, eps, x0, z)
        if cyc is None or len(cyc) != period:
            continue          # a degenerate start (a coordinate at rest): shorter orbit
        hs = sorted(set(c[3] for c in cyc))
        if slice_kind == "all" or len(hs) < 2:
            logu = hs[0] - frac(dy(rng, 0, 2, 16)) - Fraction(1, 32)
        elif slice_kind == "cut":
            k_ = rng.randrange(len(hs) - 1)
            logu = (hs[k_] + hs[k_ + 1]) / 2
        else:
            logu = hs[rng.randrange(len(hs))]          # tie: log u = H of some state exactly (log_u <= H counts it)
        if all(frac(float(v)) == v for v in [logu] + [c[3] for c in cyc]):
            return prec, eps, x0, z, cyc, logu
    return None


def cycle_cases(ctx, rng, cuqi, state, cases):
    """closed orbits: (1) kernel-law cells: the exact law of the real sampler's new point from every in-slice state of the
    orbit EQUALS the law of the model (Coq, check_kernel: exact rationals); (2) oracle: the enumerated kernel leaves the
    uniform distribution on the in-slice states of the orbit invariant (C08_closed_orbit_stationary on the implementation)."""
    plan = []
    for k_ in range(ctx.n(20, 60)):
        md = [1, 2, 3, 2][k_ % 4]
        plan.append((k_, ["cut", "all", "tie"][(k_ // 2) % 3], md))
    checked = 0
    for (cfg_idx, slice_kind, md) in plan:
        if md >= 3 and CYCLE_CONFIGS[cfg_idx % len(CYCLE_CONFIGS)][2] > 6:
            md = 2          # 16-leaf trajectories: only around the short orbits (enumeration cost)
        spec = {"kind": "gauss", "prec": CYCLE_CONFIGS[cfg_idx % len(CYCLE_CONFIGS)][0]}
        g = None
        for attempt in range(8):
            g = gen_cycle(rng, cfg_idx, slice_kind, long_for=((cuqi, md) if md == 2 and attempt == 0 else None))
            if g is None:
                continue
            try:         # enumeration budget: a start whose kernel needs more than 3000 scripted runs per state is replaced
                cycle_kernel(cuqi, "exp", spec, g[1], md, g[4], g[5])
                break
            except TooManyRuns:
                g = None
            except Exception:
                break
        if g is None:
            continue
        prec, eps, x0, z, cyc, logu = g
        # the model's orbit through the start closes after exactly the period the harness found (hypothesis of
        # C08_concrete_closed_orbit_checked, evaluated by the kernel for the inputs of these cells)
        cases.append(Case(expr="check_cycle %s (qc %s) %s %s %s" % (ctarget(spec), cq(frac(eps) / 2), cqvec(x0), cqvec(z), cnat(len(cyc))),
                          meta={"target": spec, "eps": eps, "x0": x0, "z": z, "period": len(cyc), "cycle_closes": True},
                          cell="model/cycle/N%d/closes" % len(cyc), kind="EXACT"))
        for impl in ("exp", "leg"):
            base = {"impl": impl, "target": spec, "eps": eps, "max_depth": md, "x0": x0, "z": z, "logu": float(logu), "cycle": True,
                    "period": len(cyc), "slice": slice_kind}
            cellp = "%s/cycle/N%d/md%d/%s" % (impl, len(cyc), md, slice_kind)
            try:
                laws = cycle_kernel(cuqi, impl, spec, eps, md, cyc, logu)
                d = cycle_stationary(cyc, logu, laws)
            except RunawayDepth:
                laws, d = {}, "on a closed orbit the sampler takes more random decisions than a transition of max_depth %d can take" % md
            except TooManyRuns:
                continue
            except Exception as ex:
                laws, d = {}, "kernel enumeration on a closed orbit crashed: %r" % ex
            checked += 1
            cases.append(Case(expr="true", meta=base, cell=cellp + "/stationarity", kind="DECISION", impl_fail=d,
                              signature="NUTS.%s.cycle_stationarity" % impl if d else ""))
            if cfg_idx % 3 == 0 and md <= 2 and len(cyc) <= 6:
                mrng = random.Random(1000 * cfg_idx + len(cyc))      # masses fixed by the plan entry (replayable from the meta)
                try:
                    dm = cycle_mixture(cuqi, impl, spec, eps, md, cyc, mrng)
                except TooManyRuns:
                    dm = None
                except Exception as ex:
                    dm = "kernel enumeration on a closed orbit crashed: %r" % ex
                mm = dict(base)
                mm.update({"mixture": True, "mass_seed": 1000 * cfg_idx + len(cyc)})
                cases.append(Case(expr="true", meta=mm, cell="%s/cycle/N%d/md%d/all-levels/mixture" % (impl, len(cyc), md), kind="DECISION", impl_fail=dm,
                                  signature="NUTS.%s.cycle_stationarity" % impl if dm else ""))
            for i, law in sorted(laws.items()):
                x, r, _, H = cyc[i]
                obs = clist(["(%s, %s)" % (cqvec([float(v) for v in pt]), cq(w)) for pt, w in sorted(law.items())])
                expr = "check_kernel %s %s %s (qc %s) %s %s %s %s" % (ctarget(spec), cbool(impl == "exp"), cnat(md), cq(frac(eps) / 2),
                                                                     cqvec([float(v) for v in x]), cqvec([float(v) for v in r]), cq(H - logu), obs)
                meta = dict(base)
                meta.update({"state": i, "kernel_law": True})
                cases.append(Case(expr=expr, meta=meta, cell=cellp + "/kernel-law", kind="EXACT", impl_fail=d,
                                  signature="NUTS.%s.cycle_stationarity" % impl if d else ""))
    return checked


# ---------------- kernel-law cells on open orbits ----------------
def exact_orbit(prec, eps, x0, z, lo, hi):
    """leapfrog orbit positions lo..hi through (x0, z) in exact rationals (harness's own arithmetic): {i: (x, r, logd, H)}"""
    p, h = [frac(v) for v in prec], frac(eps)

    def val(x, r):
        logd = -sum(pi * xi * xi for pi, xi in zip(p, x)) / 2
        return (list(x), list(r), logd, logd - sum(ri * ri for ri in r) / 2)

    def step(x, r, e):
        r1 = [ri - e / 2 * pi * xi for ri, pi, xi in zip(r, p, x)]
        x1 = [xi + e * ri for xi, ri in zip(x, r1)]
        return x1, [ri - e / 2 * pi * xi for ri, pi, xi in zip(r1, p, x1)]
    out = {0: val([frac(v) for v in x0], [frac(v) for v in z])}
    for sign, idx in ((1, range(1, hi + 1)), (-1, range(-1, lo - 1, -1))):
        for i in idx:
            x, r = step(out[i - sign][0], out[i - sign][1], sign * h)
            out[i] = val(x, r)
    return out


def open_kernel_one(rng, cuqi, d, md, cut):
    """one start on an ordinary (open) orbit of a d-dimensional Gaussian on which binary64 is exact, with the enumerated law of
    the new point of both samplers: list of cases, or None if this draw is not usable"""
    prec = [rng.choice([1, 2, 4, 9, 0.25]) for _ in range(d)]
    eps = rng.choice([0.25, 0.5, 0.125])
    x0 = [dy(rng, -1.25, 1.25, 8) for _ in range(d)]
    z = [dy(rng, -2, 2, 16) for _ in range(d)]
    span = 2 ** (md + 1) - 1
    orb = exact_orbit(prec, eps, x0, z, -span, span)
    small = lambda v: v.numerator.bit_length() <= 22 and v.denominator.bit_length() <= 22
    if not all(small(v) for o in orb.values() for v in o[0] + o[1]) or not all(frac(float(o[3])) == o[3] for o in orb.values()):
        return None          # binary64 would round somewhere on this orbit
    if len(set(tuple(o[0]) for o in orb.values())) < len(orb):
        return None          # the new POINT identifies the orbit position only if the positions are distinct
    dd = sorted(set(orb[0][3] - o[3] for o in orb.values() if 0 < orb[0][3] - o[3] < 500))
    if cut and not dd:
        return None
    if cut:
        k_ = rng.randrange(len(dd))
        e = (dd[k_] + (dd[k_ + 1] if k_ + 1 < len(dd) else dd[k_] * 3 / 2)) / 2          # a slice level that cuts the orbit
    else:
        e = frac(dy(rng, 0, 2, 64)) + Fraction(1, 128)
    if frac(float(e)) != e:
        return None
    logu = orb[0][3] - e
    spec = {"kind": "gauss", "prec": prec}
    pos = {tuple(o[0]): i for i, o in orb.items()}
    out = []
    for impl in ("exp", "leg"):
        meta = {"impl": impl, "target": spec, "eps": eps, "max_depth": md, "x0": x0, "z": z, "e": float(e), "orbit": True, "kernel_law": True}
        fail = None
        try:
            law = kernel_from(cuqi, impl, spec, eps, md, x0, z, float(e), max_runs=3000)
        except TooManyRuns:
            return None
        except RunawayDepth:
            law, fail = {}, "the sampler takes more random decisions than a transition of max_depth %d can take" % md
        except Exception as ex:
            law, fail = {}, "kernel enumeration crashed: %r" % ex
        obs = {}
        for pt, w in law.items():
            key = tuple(frac(v) for v in pt)
            obs[key] = obs.get(key, 0) + w
            if fail is None and w > 0 and key not in pos:
                fail = "the sampler moved to %s, which is not a point of the leapfrog orbit through the start (within reach)" % (list(pt),)
            elif fail is None and w > 0 and orb[pos[key]][3] < logu:
                fail = ("a state outside the slice (orbit position %d, H=%s, log u=%s) is selected with probability %s"
                        % (pos[key], float(orb[pos[key]][3]), float(logu), w))
        if fail is None and law and sum(obs.values()) != 1:
            fail = "enumerated probabilities sum to %s" % sum(obs.values())
        expr = "check_kernel %s %s %s (qc %s) %s %s %s %s" % (
            ctarget(spec), cbool(impl == "exp"), cnat(md), cq(frac(eps) / 2), cqvec(x0), cqvec(z), cq(e),
            clist(["(%s, %s)" % (cqvec(list(pt)), cq(w)) for pt, w in sorted(obs.items())]))
        out.append(Case(expr=expr if law else "true", meta=meta, cell="%s/open-orbit/d%d/md%d/%s/kernel-law" % (impl, d, md, "cut" if cut else "grid"),
                        kind="EXACT", impl_fail=fail, signature="NUTS.%s.orbit_stationarity" % impl if fail else ""))
    return out


def open_kernel_cases(ctx, rng, cuqi, state, cases):
    """kernel-law cells on ordinary (open) orbits of Gaussian targets, dims 1-3, max_depth 1-2: the exact law of the new point
    of the real sampler EQUALS the law of the model (check_kernel); oracle: every outcome is an in-slice point of the orbit"""
    made = 0
    for rep in range(ctx.n(1, 4)):
        for d in (1, 2, 3):
            for md in (1, 2):
                for cut in (True, False):
                    for attempt in range(80):          # every cell is filled whatever the seed: draw until usable
                        got = open_kernel_one(rng, cuqi, d, md, cut)
                        if got is not None:
                            cases.extend(got)
                            made += 1
                            break
    return made


# ---------------- generator ----------------
def dy(rng, lo, hi, den):
    return rng.randint(int(lo * den), int(hi * den)) / den


EPS_CLASSES = {"tiny": [0.0625, 0.125], "mid": [0.25, 0.5, 1.0], "huge": [2.0, 4.0, 8.0]}
TARGET_KINDS = ["gauss", "split", "quad", "quartic", "box:ninf", "box:nan", "box:pinf"]


def gen_spec(rng, tk, d=None):
    d = d or rng.randint(1, 3)
    precs = [1, 2, 4, 9, 0.25]
    if tk == "gauss":
        return {"kind": "gauss", "prec": [rng.choice(precs) for _ in range(d)]}
    if tk == "split":
        return {"kind": "split", "pl": [rng.choice(precs) for _ in range(d)], "pr": [rng.choice(precs) for _ in range(d)]}
    if tk == "quartic":
        return {"kind": "quartic", "dim": min(d, 2)}
    if tk == "quad":
        # a correlated quadratic target: diagonally dominant, off-diagonal entries of both signs, symmetric or not
        d = max(d, 2)
        P = [[0.0] * d for _ in range(d)]
        sym = rng.random() < 0.5
        for i_ in range(d):
            for j_ in range(d):
                if i_ != j_ and (not sym or i_ < j_):
                    P[i_][j_] = rng.choice([-1.0, -0.5, 0.0, 0.5, 1.0, 0.25])
                    if sym:
                        P[j_][i_] = P[i_][j_]
        for i_ in range(d):
            P[i_][i_] = rng.choice([0.5, 1.0, 2.0]) + max(sum(abs(P[i_][j_]) for j_ in range(d) if j_ != i_),
                                                           sum(abs(P[j_][i_]) for j_ in range(d) if j_ != i_))
        return {"kind": "quad", "P": P}
    return {"kind": "box", "prec": [rng.choice([1, 2, 4]) for _ in range(d)], "bound": rng.choice([0.75, 1.5, 2.0]), "bad": tk.split(":")[1]}


def gen_script(rng, md):
    d = None
    e = rng.choice([dy(rng, 0, 1, 64) + 1 / 128, dy(rng, 0, 4, 64) + 1 / 128, dy(rng, 0, 12, 16) + 1 / 32])
    us = [(rng.randint(0, 127) * 2 + 1) / 256 for _ in range(2 ** (max(md, 5) + 2) + 8)]      # enough for any re-assigned / default depth
    return e, us


def gen_start(rng, spec):
    d = dim_of(spec)
    b = spec.get("bound", 1.25)
    if rng.random() < 0.15:
        return [float(rng.randint(-1, 1)) if b >= 1 else 0.0 for _ in range(d)]      # integer-valued start (also handed over as an int array)
    x0 = [dy(rng, -min(b, 1.25), min(b, 1.25), 8) for _ in range(d)]
    return x0


def gen_z(rng, d):
    return [dy(rng, -2, 2, 16) for _ in range(d)]


def obs_leaf(l):
    return "(%s, %s, %s)" % (cqvec(l[0]), cqvec(l[1]), cext(l[2]))


def case_expr(impl, spec, md, o, z, e, us, guard, exact=False):
    used = us[:o["nrand"] + 4]
    return ("(check_transition %s %s %s %s (qc %s) %s %s %s %s %s %s %s %s %s %s %s)" % (
        cbool(exact), ctarget(spec), cbool(guard), cnat(md), cq(frac(o["eps"]) / 2), cqvec(o["x0"]), cqvec(z), cq(e), cqvec(used),
        clist([obs_leaf(l) for l in o["leaves"]]), cqvec(o["point"]), cext(o["logd"]),
        copt(o["grad"], cqvec), copt(o["acc"], cbool), cnat(o["nrand"]), cnat(o["nlast"]))), used


def mk_case(ctx_state, impl, spec, md, phase, o, z, e, us, chain_meta, idx, exact=False, cell_extra=""):
    guard = True if impl == "exp" else (ctx_state["leg_guard"] if spec.get("bad") == "pinf" else False)
    md_t = o.get("md", md)              # max_depth in force for this transition
    inner, used = case_expr(impl, spec, md_t, o, z, e, us, guard, exact)
    meta = dict(chain_meta)
    meta.update({"transition": idx, "guard": guard, "exact": exact, "md_t": md_t})
    fail, sig = transition_oracle(impl, spec, o, z, e)
    epsc = [k for k, v in EPS_CLASSES.items() if chain_meta["eps"] in v]
    cell = "%s/%s/md%d/%s/%s%s" % (impl, kind_name(spec), md, epsc[0] if epsc else "adapted", phase, cell_extra)
    return Case(expr="check_ok " + inner, meta=meta, cell=cell, trivial=(len(o["leaves"]) <= 1), kind="EXACT",
                impl_fail=fail, signature=sig), inner


def crash_case(impl, spec, md, phase, chain_meta, exc):
    return Case(expr="false", meta=dict(chain_meta), cell="%s/%s/md%d/crash/%s" % (impl, kind_name(spec), md, phase), kind="DECISION",
                impl_fail="the sampler raised %s on a scripted transition" % exc, signature="NUTS.%s.raises" % impl)


def detect_leg_guard(cuqi):
    """does the legacy sampler accept a +inf log-density state? (True = it refuses, i.e. the guard is present)"""
    w = pinf_witness(cuqi)
    return not w[0]


def pinf_witness(cuqi):
    spec = {"kind": "box", "prec": [1], "bound": 0.75, "bad": "pinf"}
    us = [0.25, 0.125] + [0.5] * 8
    o = run_chain(cuqi, "leg", spec, 0.5, 0, [0.5], [([1.0], 0.5, us)])[0]
    fails = bool(np.isinf(o["logd"]))
    return fails, "cuqi.sampler.NUTS on a target with logd=+inf for |x|>0.75, x0=0.5, momentum 1, step 0.5, max_depth 0: new state %s with log-density %r" % (o["point"], o["logd"])


def sched_case(o0, impl, spec, md, chain_meta):
    """step-size schedule of the experimental sampler through warm-up and sampling"""
    sc = o0["sched"]
    evs = []
    for ev in sc["events"]:
        if ev[0] == "prewarm":
            evs.append("(EvPreWarmup (1 # 1)%Q)")
        elif ev[0] == "presample":
            evs.append("EvPreSample")
        elif ev[0] == "step":
            evs.append("EvStep")
        else:
            evs.append("(EvTune %s %s)" % (cq(ev[1]), cq(ev[2])))
    expr = "check_schedule %s %s %s %s %s" % (cq(sc["eps0"]), clist(evs), cqvec(sc["used"]), cq(sc["final"][0]), cq(sc["final"][1]))
    # oracle: once sampling has started the step size no longer moves after the first sampling step
    i0 = [i for i, ev in enumerate(sc["events"]) if ev[0] == "presample"][0]
    n_s = sum(1 for ev in sc["events"][i0:] if ev[0] == "step")
    used_s = sc["used"][-n_s:]
    fail = None
    sig = "NUTS.exp.step_size_moves"
    bad_alpha = [(i, ev[1], ev[2]) for i, ev in enumerate(ev for ev in sc["events"] if ev[0] == "step")
                 if len(ev) > 2 and np.isfinite(ev[1]) and not relclose(ev[2], ev[1], 1e-12)]
    if bad_alpha:
        fail = ("warm-up step %d reports the acceptance statistic %r; the mean Metropolis probability over the leaves of its last doubling is %r"
                % (bad_alpha[0][0] + 1, bad_alpha[0][2], bad_alpha[0][1]))
        sig = "NUTS.exp.alpha_stat"
    elif len(set(used_s[1:])) > 1:
        fail = "step size still changes during sampling: %s" % used_s
    else:
        # dual averaging: every tune() output from the statistic of the step before it
        alphas, tunes, last_alpha = [], [], None
        for ev in sc["events"]:
            if ev[0] == "step":
                last_alpha = ev[1]
            elif ev[0] == "tune":
                alphas.append(last_alpha)
                tunes.append((ev[1], ev[2]))
        if all(a is not None and np.isfinite(a) for a in alphas):
            ref = dual_averaging(sc["eps0"], alphas, delta=sc["delta"])
            for k, ((e1, b1), (e2, b2)) in enumerate(zip(tunes, ref), start=1):
                if not (relclose(e1, e2) and relclose(b1, b2)):
                    fail = ("tune() number %d set (epsilon, epsilon_bar) = (%r, %r); dual averaging from the statistics %s gives (%r, %r)"
                            % (k, e1, b1, [round(a, 6) for a in alphas[:k]], e2, b2))
                    sig = "NUTS.exp.dual_averaging"
                    break
    meta = dict(chain_meta)
    meta["schedule"] = True
    return Case(expr=expr, meta=meta, cell="exp/schedule/warm", kind="DECISION", impl_fail=fail, signature=sig if fail else "")


def creal(x):
    """exact real literal of a float"""
    f = frac(x)
    return "(%d / %d)" % (f.numerator, f.denominator) if f.denominator != 1 else "(%d)" % f.numerator


TUNE_TAC = ("unfold da_eps_closed, da_bar_step, da_mu, dsum, da_gamma, da_t0, da_kappa; cbn [fold_right]; "
            "interval with (i_prec 90).")


def tune_cases(impl, eps0, alphas, eps_n, bar_prev, bar_n, chain_meta, delta=0.6):
    """two kernel-checked enclosures: the step size after the statistics alpha_1..alpha_n (closed form of the model's
    dual averaging, Props/C08_Tune.v) and the update of epsilon_bar from the previous epsilon_bar"""
    n = len(alphas)
    out = []
    if n == 0 or not all(np.isfinite(v) for v in list(alphas) + [eps_n, bar_prev, bar_n]) or min(eps_n, bar_prev, bar_n) <= 0:
        return out
    tol = lambda v: creal(float(Fraction(1, 10**9) * (1 + abs(frac(v)))))
    e1 = "(Rabs (da_eps_closed %s %s %d%%Z [%s] - %s) <= %s)%%R" % (creal(eps0), creal(delta), n, "; ".join(creal(a) for a in alphas),
                                                                 creal(eps_n), tol(eps_n))
    e2 = "(Rabs (da_bar_step %d%%Z %s %s - %s) <= %s)%%R" % (n, creal(eps_n), creal(bar_prev), creal(bar_n), tol(bar_n))
    for nm, e in (("epsilon", e1), ("epsilon_bar", e2)):
        meta = dict(chain_meta)
        meta.update({"tune_enclosure": nm, "n": n})
        out.append(Case(expr=e, meta=meta, cell="%s/tune-enclosure/%s" % (impl, nm), kind="ENCLOSURE", tac=TUNE_TAC))
    return out


def dual_case(o0, spec, md, chain_meta, warm):
    """legacy sampler: the step size of every iteration from the statistics of the warm-up iterations"""
    du = o0["dual"]
    fail = None
    if all(np.isfinite(a) for a in du["alphas"]):
        ref = dual_averaging(du["eps0"], du["alphas"], delta=du["delta"])
        # iteration 1 uses FindGoodEpsilon's value, iteration k+1 <= warm+1 the k-th dual-averaging iterate, later ones epsilon_bar
        exp_used = [du["eps0"]] + [e for (e, b) in ref] + [ref[-1][1]] * max(0, len(du["used"]) - warm - 1)
        for k, (u, e) in enumerate(zip(du["used"], exp_used), start=1):
            if not relclose(u, e):
                fail = ("iteration %d used step size %r; dual averaging from the acceptance statistics %s of the warm-up iterations gives %r"
                        % (k, u, [round(a, 6) for a in du["alphas"][:k]], e))
                break
    meta = dict(chain_meta)
    meta["dual"] = True
    return Case(expr="true", meta=meta, cell="leg/dual-averaging/warm", kind="DECISION", impl_fail=fail,
                signature="NUTS.leg.dual_averaging" if fail else "")


def gen_chain(ctx, rng, cuqi, state, impl, tk, md, epsc, warm, cases, inners, n_tr=2):
    spec = gen_spec(rng, tk)
    d = dim_of(spec)
    if warm:
        n_tr = 3
    if tk == "quartic":
        n_tr = 1      # the second start would be a rounded 53-bit float: the cubic map then produces 10^4-bit rationals
    eps = rng.choice(EPS_CLASSES[epsc])
    x0 = gen_start(rng, spec)
    scripts = []
    for t_ in range(n_tr):
        e, us = gen_script(rng, md)
        zz = gen_z(rng, d)
        if t_ == 0 and md >= 1 and not warm and rng.random() < 0.5:
            # a slice variable that cuts the orbit: some leaves inside, some outside the slice without being divergent
            # (unequal n', n'' in the merges, rejected top-level moves) -- energy errors are small for small steps, so
            # a draw from a fixed grid almost never does this
            span = 2 ** (md + 1) - 1
            with np.errstate(all="ignore"):
                st_, f_ = orbit(spec, eps, x0, zz, -span, span)
                hh = {i_: float(f_(s_[0])) - 0.5 * float(np.dot(s_[1], s_[1])) for i_, s_ in st_.items()}
            dd = sorted(set(hh[0] - h for h in hh.values() if np.isfinite(h) and 1e-6 < hh[0] - h < 500))
            if dd:
                k_ = rng.randrange(len(dd))
                e = float((dd[k_] + (dd[k_ + 1] if k_ + 1 < len(dd) else 1.5 * dd[k_])) / 2)
        scripts.append((zz, e, us))
    wseed = rng.randint(1, 10**6)
    # optional argument opt_acc_rate (warm-up chains) and the dtype of the initial point handed to the sampler
    delta = rng.choice([None, 0.8, 0.65]) if warm else None
    x0_dtype = "float64"
    if not warm and rng.random() < 0.25:
        if all(float(v).is_integer() for v in x0):
            x0_dtype = rng.choice(["int64", "int32"])
        else:
            x0_dtype = "float32"          # multiples of 1/8 are exact in binary32
    opts = {}
    if impl == "exp" and tk != "quartic":
        u_ = rng.random()
        deep_ok = tk in ("gauss", "split")      # a +inf / flat region never turns back: no default depth there
        if warm:
            if u_ < 0.5:
                opts["tune_freq"] = rng.choice([0.25, 0.5, 0.34])
        elif u_ < 0.08 and eps >= 0.5 and deep_ok:
            opts["md_default"] = True         # max_depth left at its default (15); large steps keep the trajectory short
            md = 15
        elif u_ < 0.18:
            opts["md_next"] = rng.choice([0, 1, 2, 3])          # max_depth re-assigned on the live sampler
        elif u_ < 0.24 and md <= 1:
            opts["fge"] = True                # step_size=None: FindGoodEpsilon (not adapted afterwards)
        elif u_ < 0.32:
            x0_dtype = "cuqiarray"
    if rng.random() < 0.3 and spec["kind"] != "box":
        spec = dict(spec)
        spec["style"] = rng.choice(["readonly", "view", "array0d"])
    chain_meta = {"impl": impl, "target": spec, "eps": eps, "max_depth": md, "x0": x0, "warm": warm, "warm_seed": wseed,
                  "delta": delta, "x0_dtype": x0_dtype, "opts": opts,
                  "scripts": [[z, e, us] for (z, e, us) in scripts]}
    try:
        obs = run_chain(cuqi, impl, spec, eps, md, x0, scripts, warm=warm, warm_seed=wseed, delta=delta, x0_dtype=x0_dtype, opts=opts)
    except OutOfUniforms:
        cases.append(crash_case(impl, spec, md, "warm" if warm else "fresh", chain_meta, "consumed more uniforms than any NUTS transition of this depth can"))
        return
    except Exception as ex:
        cases.append(crash_case(impl, spec, md, "warm" if warm else "fresh", chain_meta, repr(ex)))
        return
    if impl == "exp" and not obs[0].get("samples_stable", True):
        cases.append(Case(expr="true", meta=dict(chain_meta), cell="exp/keep-alive", kind="DECISION",
                          impl_fail="a sample handed out by an earlier transition was altered by a later one", signature="NUTS.exp.stored_sample_changed"))
    for j, (o, (z, e, us)) in enumerate(zip(obs, scripts)):
        big = max([0.0] + [float(np.max(np.abs(np.concatenate([l[0], l[1]])))) for l in o["leaves"]])
        if not big < 1e120:
            state["skipped_float_overflow"] += 1      # squares overflow in binary64: outside the exact-arithmetic model
            continue
        phase = ("warm" if warm else "fresh") if j == 0 else ("warm+1" if warm else "second")
        if opts:
            phase += "+" + "+".join(sorted(k_ for k_ in opts))
        if x0_dtype != "float64":
            phase += "+" + x0_dtype
        c, inner = mk_case(state, impl, spec, md, phase, o, z, e, us, chain_meta, j)
        cases.append(c)
        inners.append(inner)
        if impl == "leg" and not warm and j == 0 and o["eps"] != eps:
            state["leg_eps_replaced"] += 1
    if impl == "exp" and warm and "sched" in obs[0]:
        cases.append(sched_case(obs[0], impl, spec, md, chain_meta))
    if impl == "leg" and warm and "dual" in obs[0]:
        cases.append(dual_case(obs[0], spec, md, chain_meta, warm))
        du = obs[0]["dual"]
        if len(du["used"]) >= warm + 2 and len(du["bars"]) >= warm + 1 and du["bars"][warm - 1] is not None and du["bars"][warm] is not None:
            # epsilon_bar_list[k-1] is the epsilon_bar in force at iteration k (before its adaptation): bar_{n-1} and bar_n
            cases.extend(tune_cases("leg", du["eps0"], du["alphas"], du["used"][warm], du["bars"][warm - 1], du["bars"][warm], chain_meta, delta=du["delta"]))
    if impl == "exp" and warm and "sched" in obs[0]:
        sc = obs[0]["sched"]
        alphas, tunes, last_alpha = [], [], None
        for ev in sc["events"]:
            if ev[0] == "step":
                last_alpha = ev[1]
            elif ev[0] == "tune":
                alphas.append(last_alpha)
                tunes.append((ev[1], ev[2]))
        if tunes and all(a is not None for a in alphas):
            bar_prev = tunes[-2][1] if len(tunes) >= 2 else 1.0
            cases.extend(tune_cases("exp", sc["eps0"], alphas, tunes[-1][0], bar_prev, tunes[-1][1], chain_meta, delta=sc["delta"]))


def tie_cases(ctx, rng, cuqi, state, cases):
    """boundary cell: the slice variable equals the Hamiltonian of a leaf exactly (log u <= H' must count it) and the
    swap / acceptance uniform equals its threshold exactly (u <= p must accept).  Only cases whose float arithmetic
    was verified exact are used; the margins of the model are waived for them."""
    made = 0
    tries = 0
    while made < ctx.n(16, 120) and tries < 4000:
        tries += 1
        impl = ["exp", "leg"][tries % 2]
        md = rng.choice([0, 1, 1, 2])
        spec = {"kind": "gauss", "prec": [rng.choice([1, 2, 4])]}
        eps = rng.choice([0.25, 0.5])
        x0 = [dy(rng, -1.25, 1.25, 8)]
        z = [dy(rng, -2, 2, 16)]
        # exact orbit in rationals, pick the leaf whose H the slice variable will equal
        f, g = target_funcs(spec)
        st, _ = orbit(spec, eps, x0, z, -4, 4)
        H = {i: float(f(s[0])) - 0.5 * float(np.dot(s[1], s[1])) for i, s in st.items()}
        cand = [i for i in (-2, -1, 1, 2) if 0 < H[0] - H[i] < 8]
        kind = rng.choice(["slice", "uniform"])
        if kind == "slice":
            if not cand:
                continue
            e = H[0] - H[rng.choice(cand)]
            us = [(rng.randint(0, 127) * 2 + 1) / 256 for _ in range(24)]
        else:
            e = dy(rng, 0, 1, 64) + 1 / 128
            us = [rng.choice([0.25, 0.75, 0.5, 0.5]) for _ in range(24)]
        chain_meta = {"impl": impl, "target": spec, "eps": eps, "max_depth": md, "x0": x0, "warm": 0, "warm_seed": 1,
                      "scripts": [[z, e, us]]}
        try:
            o = run_chain(cuqi, impl, spec, eps, md, x0, [(z, e, us)])[0]
        except Exception as ex:
            cases.append(crash_case(impl, spec, md, "tie", chain_meta, repr(ex)))
            continue
        if o["eps"] != eps or not exact_leaves(spec, eps, x0, z, o["leaves"]):
            continue
        c, _ = mk_case(state, impl, spec, md, "tie-" + kind, o, z, e, us, chain_meta, 0, exact=True)
        cases.append(c)
        made += 1


def scale_cases(ctx, rng, cuqi, state, cases):
    """dyadic scale sweep: the same Gaussian problem with positions scaled by 2^k (precisions by 4^-k, step size by 2^k, momenta
    unchanged) is the same Hamiltonian dynamics, and power-of-two scaling is exact in binary64: every leaf of the scaled run must be
    the scaled leaf of the unscaled run BIT FOR BIT (oracle), and must EQUAL the model's exact rationals (tolerance 0 in Coq)."""
    made, tries = 0, 0
    while made < ctx.n(16, 60) and tries < 600:
        tries += 1
        impl = ["exp", "leg"][tries % 2]
        md = rng.choice([2, 2, 3])
        d = rng.choice([1, 2])
        spec = {"kind": "gauss", "prec": [rng.choice([1, 4, 4, 9]) for _ in range(d)]}      # stiff enough to turn back within the tree
        eps = rng.choice([0.25, 0.5])
        x0 = [dy(rng, -1.25, 1.25, 8) for _ in range(d)]
        z = [dy(rng, -2, 2, 16) for _ in range(d)]
        e, us = gen_script(rng, md)
        try:
            o1 = run_chain(cuqi, impl, spec, eps, md, x0, [(z, e, us)])[0]
        except Exception:
            continue
        if o1["eps"] != eps or not exact_leaves(spec, eps, x0, z, o1["leaves"]):
            continue
        k = rng.choice([-40, -40, -20, -8, 8, 20, 40])      # 2^-40: inner products of order 1e-12
        sc_ = 2.0 ** k
        spec2 = {"kind": "gauss", "prec": [p_ / (sc_ * sc_) for p_ in spec["prec"]]}
        x02 = [v * sc_ for v in x0]
        eps2 = eps * sc_
        chain_meta = {"impl": impl, "target": spec2, "eps": eps2, "max_depth": md, "x0": x02, "warm": 0, "warm_seed": 1,
                      "scripts": [[z, e, us]], "scale": k}
        try:
            o2 = run_chain(cuqi, impl, spec2, eps2, md, x02, [(z, e, us)])[0]
        except Exception as ex:
            cases.append(crash_case(impl, spec2, md, "scale", chain_meta, repr(ex)))
            continue
        c, _ = mk_case(state, impl, spec2, md, "scale2^%d" % k, o2, z, e, us, chain_meta, 0, exact=True)
        same = (len(o1["leaves"]) == len(o2["leaves"]) and
                all(np.array_equal(a_[0] * sc_, b_[0]) and np.array_equal(a_[1], b_[1]) and a_[2] == b_[2] for a_, b_ in zip(o1["leaves"], o2["leaves"]))
                and np.array_equal(o1["point"] * sc_, o2["point"]) and o1["nrand"] == o2["nrand"])
        if not same and not c.impl_fail:
            c.impl_fail = ("the transition of the problem scaled by 2^%d is not the scaled transition of the unscaled problem (leaves %d vs %d, new state %s vs %s)"
                           % (k, len(o2["leaves"]), len(o1["leaves"]), o2["point"], o1["point"] * sc_))
            c.signature = "NUTS.%s.scale" % impl
        cases.append(c)
        made += 1


SIG_BUF = {"exp": "NUTS.exp|gradient-callable:reused-work-buffer", "leg": "NUTS.legacy|gradient-callable:reused-work-buffer"}
SIG_X0 = "NUTS.exp|current_point-aliases-caller-initial_point"


def l4_chain(state, cuqi, impl, spec, eps, md, x0, scripts, cases, label, opts=None, x0_dtype="float64", add=True):
    """one chain of a round-4 lesson family: runs it, appends the per-transition cases (cell .../l4:<label>), returns the observations"""
    opts = opts or {}
    chain_meta = {"impl": impl, "target": spec, "eps": eps, "max_depth": md, "x0": x0, "warm": 0, "warm_seed": 11, "delta": None,
                  "x0_dtype": x0_dtype, "opts": opts, "scripts": [[z, e, us] for (z, e, us) in scripts], "family": label}
    try:
        obs = run_chain(cuqi, impl, spec, eps, md, x0, scripts, warm_seed=11, x0_dtype=x0_dtype, opts=opts)
    except OutOfUniforms:
        cases.append(crash_case(impl, spec, md, "l4:" + label, chain_meta, "consumed more uniforms than any NUTS transition of this depth can"))
        return None, chain_meta, []
    except Exception as ex:
        cases.append(crash_case(impl, spec, md, "l4:" + label, chain_meta, repr(ex)))
        return None, chain_meta, []
    made = []
    for j, (o, (z, e, us)) in enumerate(zip(obs, scripts)):
        c, _ = mk_case(state, impl, spec, md, "l4:%s/%d" % (label, j), o, z, e, us, chain_meta, j)
        made.append(c)
        if add:
            cases.append(c)
    return obs, chain_meta, made


def same_run(oa, ob, dlogd=0.0):
    """two runs made the same decisions and visited the same phase-space points (bit for bit); log-densities differ by dlogd"""
    return (len(oa) == len(ob) and all(
        len(a["leaves"]) == len(b["leaves"]) and a["nrand"] == b["nrand"] and np.array_equal(a["point"], b["point"])
        and all(np.array_equal(la[0], lb[0]) and np.array_equal(la[1], lb[1]) and
                (la[2] == lb[2] + dlogd or relclose(la[2], lb[2] + dlogd, 1e-12) or (np.isnan(la[2]) and np.isnan(lb[2])))
                for la, lb in zip(a["leaves"], b["leaves"])) for a, b in zip(oa, ob)))


def lesson4_cases(ctx, rng, cuqi, state, cases):
    """cell families for the lessons of the fourth seeded round (L14-L26); see the registry note for the table"""
    n = ctx.n(1, 4)

    def scr(md, d, zeros=False):
        e, us = gen_script(rng, md)
        z = gen_z(rng, d)
        if zeros:
            z = [0.0 if (i_ % 2 == 0 or rng.random() < 0.4) else v for i_, v in enumerate(z)]
            if all(v == 0 for v in z):
                z[-1] = 0.5
        return (z, e, us)

    for rep in range(n):
        for impl in ("exp", "leg"):
            # ---- L26 additive constant / large offsets of the log-density -----------------------------------------
            for c in (float(2 ** 20), -float(2 ** 30), 123456.789, -0.375):
                inner = gen_spec(rng, rng.choice(["gauss", "quad", "split"]), d=rng.randint(1, 3))
                d = dim_of(inner)
                md, eps, x0 = rng.choice([1, 2, 3]), rng.choice([0.25, 0.5, 1.0 / 8]), gen_start(rng, inner)
                scripts = [scr(md, d), scr(md, d)]
                spec = {"kind": "shift", "c": c, "inner": inner}
                obs, meta, made = l4_chain(state, cuqi, impl, spec, eps, md, x0, scripts, cases, "offset")
                if obs is not None:
                    ref, _, _ = l4_chain(state, cuqi, impl, inner, eps, md, x0, scripts, [], "offset-ref", add=False)
                    if ref is not None and not same_run(obs, ref, c) and not any(m_.impl_fail for m_ in made):
                        made[0].impl_fail = "adding the constant %r to the log-density changes the transition (it must only shift the log-densities)" % c
                        made[0].signature = "NUTS.%s.offset" % impl
            # ---- L16 composite targets: cuqi Posterior / MultipleLikelihoodPosterior of a linear-Gaussian model --------
            for nl in (1, 2):
                d = rng.choice([2, 3])
                A, y, s2 = [], [], []
                for _l in range(nl):
                    m_ = rng.randint(1, 3)
                    A.append([[rng.choice([-1.0, -0.5, 0.0, 0.5, 1.0, 2.0]) for _ in range(d)] for _ in range(m_)])
                    y.append([dy(rng, -2, 2, 4) for _ in range(m_)])
                    s2.append(rng.choice([0.25, 1.0, 4.0]))
                spec = {"kind": "posterior", "tau2": rng.choice([0.25, 1.0, 4.0]), "A": A, "y": y, "sig2": s2}
                md, eps = rng.choice([1, 2]), rng.choice([0.125, 0.25, 0.5])
                x0 = [dy(rng, -1, 1, 8) for _ in range(d)]
                l4_chain(state, cuqi, impl, spec, eps, md, x0, [scr(md, d), scr(md, d)], cases, "posterior%d" % nl)
            # ---- L18 exact zeros inside generic data: momentum / start components that are exactly zero ---------------
            for tk in ("gauss", "quad"):
                spec = gen_spec(rng, tk, d=rng.choice([2, 3]))
                d = dim_of(spec)
                md, eps = rng.choice([1, 2, 3]), rng.choice([0.25, 0.5, 1.0])
                x0 = [0.0 if rng.random() < 0.5 else v for v in gen_start(rng, spec)]
                l4_chain(state, cuqi, impl, spec, eps, md, x0, [scr(md, d, zeros=True), scr(md, d, zeros=True)], cases, "zeros")
            # ---- L19 a gradient callable that fills and returns one persistent work array ------------------------
            for tk in ("gauss", "quad"):
                inner = gen_spec(rng, tk, d=rng.choice([2, 3]))
                d = dim_of(inner)
                md, eps, x0 = rng.choice([2, 3]), rng.choice([0.25, 0.5]), gen_start(rng, inner)
                scripts = [scr(md, d), scr(md, d)]
                spec = dict(inner)
                spec["style"] = "buffer"
                obs, meta, made = l4_chain(state, cuqi, impl, spec, eps, md, x0, scripts, cases, "buffer")
                if obs is not None:
                    ref, _, _ = l4_chain(state, cuqi, impl, inner, eps, md, x0, scripts, [], "buffer-ref", add=False)
                    if ref is not None and not same_run(obs, ref):
                        for m_ in made:
                            m_.impl_fail = ("with a gradient callable that fills and returns one persistent work array the transition differs from the one with "
                                            "fresh gradient arrays: the sampler keeps references to gradients it got earlier (both ends of the trajectory, the candidate)")
                            m_.signature = SIG_BUF[impl]
            # ---- L22 shipped defaults: no initial point given (ones) --------------------------------------------------
            spec = gen_spec(rng, rng.choice(["gauss", "split"]), d=rng.randint(1, 3))
            d = dim_of(spec)
            md, eps = rng.choice([0, 1, 2]), rng.choice([0.25, 0.5])
            l4_chain(state, cuqi, impl, spec, eps, md, [1.0] * d, [scr(md, d), scr(md, d)], cases, "default-x0", opts={"x0_none": True})
        # ---- experimental sampler only ------------------------------------------------------------------------
        impl = "exp"
        mk = lambda: gen_spec(rng, rng.choice(["gauss", "quad", "split"]), d=rng.randint(1, 3))
        # L23 exact type vs subclass: max_depth=True (a bool is an int), a CUQIarray subclass as initial point
        spec = mk(); d = dim_of(spec); eps = rng.choice([0.25, 0.5])
        l4_chain(state, cuqi, impl, spec, eps, 1, gen_start(rng, spec), [scr(1, d), scr(1, d)], cases, "md-true", opts={"md_true": True})
        spec = mk(); d = dim_of(spec); md = rng.choice([1, 2])
        l4_chain(state, cuqi, impl, spec, eps, md, gen_start(rng, spec), [scr(md, d), scr(md, d)], cases, "subclass-x0", x0_dtype="cuqiarray_subclass")
        # L14 refusals in every life-cycle state (fresh, after a transition, after two)
        spec = mk(); d = dim_of(spec); md = rng.choice([1, 2])
        obs, meta, made = l4_chain(state, cuqi, impl, spec, eps, md, gen_start(rng, spec), [scr(md, d), scr(md, d), scr(md, d)], cases, "refusals", opts={"refusals": True})
        if obs is not None and not obs[0].get("refusals_ok", True) and not made[0].impl_fail:
            made[0].impl_fail = "an invalid max_depth / step_size / opt_acc_rate was accepted (or altered the sampler) in some life-cycle state"
            made[0].signature = "NUTS.exp.refusal"
        # L25 two samplers alive at once, on different targets, started at the same point
        spec = mk(); d = dim_of(spec); md = rng.choice([1, 2])
        other = gen_spec(rng, "gauss", d=d)
        l4_chain(state, cuqi, impl, spec, eps, md, gen_start(rng, spec), [scr(md, d), scr(md, d)], cases, "twin", opts={"twin": other})
        # L21 configured counts of zero: warmup(0) and sample(0) before sampling
        spec = mk(); d = dim_of(spec); md = rng.choice([1, 2])
        obs, meta, made = l4_chain(state, cuqi, impl, spec, eps, md, gen_start(rng, spec), [scr(md, d), scr(md, d), scr(md, d)], cases, "zero-counts", opts={"zero_calls": True})
        if obs is not None:
            used = [o["eps"] for o in obs]
            evs = ["(EvPreWarmup (1 # 1)%Q)", "EvPreSample"] + ["EvStep"] * len(used)
            cases.append(Case(expr="check_schedule %s %s %s %s %s" % (cq(eps), clist(evs), cqvec(used), cq(1.0), cq(1.0)), meta=dict(meta),
                              cell="exp/l4:zero-counts/schedule", kind="DECISION"))
        # L15 the caller overwrites, in place, the array it once passed as initial point (first transition made rejecting: huge step)
        spec = {"kind": "gauss", "prec": [rng.choice([1, 4]) for _ in range(2)]}
        x0 = [0.5, -0.25]
        obs, meta, made = l4_chain(state, cuqi, impl, spec, 8.0, 0, x0, [scr(0, 2), scr(0, 2)], cases, "overwrite-x0", opts={"overwrite_x0": True})
        if obs is not None and not obs[0].get("overwrite_ok", True):
            for m_ in made[1:]:
                m_.impl_fail = ("after a rejected first transition the chain state IS the caller's initial-point array: overwriting that array in place moved the chain to %s "
                                "while the cached log-density / gradient still belong to %s" % (obs[1]["x0"], x0))
                m_.signature = SIG_X0


# ---------------- life-cycle histories of the experimental sampler object (lesson L14 applied to the cache clause) ----------------
# A live sampler is re-used: its target is replaced, its initial point re-assigned (the very array object it holds as
# current point -- what HybridGibbs does for a NUTS block at every sweep -- or an equal copy), it is re-initialised (once,
# twice), its state is saved and restored.  After every such history the caches must belong to the CURRENT target at the
# CURRENT point, and the next transition must be the model's transition for that target from that point.
SIG_LIFE = "NUTS.exp.lifecycle_cache"
LIFE_HISTORIES = ["retarget/same-object/reinit", "retarget/copy/reinit", "retarget/same-object/reinit-twice", "retarget/gibbs-sweep",
                  "retarget/gibbs-sweep-x2", "same-target/same-object/reinit", "retarget/there-and-back/step", "retarget/step",
                  "state/get-step-set", "state/into-fresh-sampler", "state/retarget-reinit-set"]


def exact_target(spec, x):
    """log-density and gradient in exact rationals, from the closed form (independent of target_funcs / the cuqi objects)"""
    k = spec["kind"]
    x = [frac(v) for v in x]
    if k == "shift":
        l, g = exact_target(spec["inner"], x)
        return l + frac(spec["c"]), g
    if k == "lin":
        l, g = exact_target(spec["inner"], x)
        b = [frac(v) for v in spec["b"]]
        return l + sum(bi * xi for bi, xi in zip(b, x)), [gi + bi for gi, bi in zip(g, b)]
    if k == "gauss":
        p = [frac(v) for v in spec["prec"]]
        return -sum(pi * xi * xi for pi, xi in zip(p, x)) / 2, [-pi * xi for pi, xi in zip(p, x)]
    if k == "split":
        p = [frac(a if xi < 0 else b) for a, b, xi in zip(spec["pl"], spec["pr"], x)]
        return -sum(pi * xi * xi for pi, xi in zip(p, x)) / 2, [-pi * xi for pi, xi in zip(p, x)]
    if k == "quartic":
        return -sum(xi ** 4 for xi in x) / 4, [-(xi ** 3) for xi in x]
    if k == "quad":
        P = [[frac(v) for v in row] for row in spec["P"]]
        d = len(x)
        Px = [sum(P[i][j] * x[j] for j in range(d)) for i in range(d)]
        Ptx = [sum(P[j][i] * x[j] for j in range(d)) for i in range(d)]
        return -sum(xi * pi for xi, pi in zip(x, Px)) / 2, [-(a + b) / 2 for a, b in zip(Px, Ptx)]
    raise ValueError(k)


def run_history(cuqi, hist, spec1, spec2, eps, md, x0, pre, script):
    """drives one life-cycle history of cuqi.experimental.mcmc.NUTS: the sampler is created on spec1 at x0 and makes the
    scripted transitions `pre`; then the history; then ONE scripted transition.  Returns
    (spec_now, x_expected, cache observation right after the history, observation of the scripted transition)."""
    from cuqi.experimental.mcmc import NUTS
    T1, T2 = mk_target(cuqi, spec1), mk_target(cuqi, spec2)
    s = NUTS(T1, initial_point=np.array(x0, dtype=float), max_depth=md, step_size=eps)
    sc0 = Script(list(pre))
    if pre:
        with ScriptedRandom(seed=5, script=sc0):
            s.sample(len(pre))
    else:
        s.initialize()
    xc = np.array(s.current_point, dtype=float).copy()        # where the chain is (the harness' own copy)
    spec_now, x_exp = spec2, xc

    def sweep():
        s.initial_point = s.current_point
        s.reinitialize()
        s._pre_warmup()
        s._pre_sample()
    if hist == "retarget/same-object/reinit":
        s.target = T2
        s.initial_point = s.current_point
        s.reinitialize()
    elif hist == "retarget/copy/reinit":
        s.target = T2
        s.initial_point = np.array(s.current_point, dtype=float).copy()
        s.reinitialize()
    elif hist == "retarget/same-object/reinit-twice":
        s.target = T2
        s.initial_point = s.current_point
        s.reinitialize()
        s.reinitialize()
    elif hist == "retarget/gibbs-sweep":
        s.target = T2
        sweep()
    elif hist == "retarget/gibbs-sweep-x2":
        s.target = T2
        sweep()
        with ScriptedRandom(seed=6, script=Script([script])):
            s.step()                                         # HybridGibbs calls step() directly
        x_exp = np.array(s.current_point, dtype=float).copy()
        s.target = mk_target(cuqi, spec1)
        sweep()
        spec_now = spec1
    elif hist == "same-target/same-object/reinit":
        s.initial_point = s.current_point
        s.reinitialize()
        spec_now = spec1
    elif hist == "retarget/there-and-back/step":
        s.target = T2
        s.target = mk_target(cuqi, spec1)                   # an equal density (a new object): the caches still are its values
        spec_now = spec1
    elif hist == "retarget/step":
        s.target = T2                                        # no reinitialize: only what the transition itself computes is checked
    elif hist == "state/get-step-set":
        st = s.get_state()
        with ScriptedRandom(seed=6, script=Script([script])):
            s.sample(1)
        s.set_state(st)
        spec_now = spec1
    elif hist == "state/into-fresh-sampler":
        st = s.get_state()
        s = NUTS(mk_target(cuqi, spec1), initial_point=np.zeros(len(x0)), max_depth=md, step_size=eps)
        s.initialize()
        s.set_state(st)
        spec_now = spec1
    elif hist == "state/retarget-reinit-set":
        st = s.get_state()
        s.target = T2
        s.initial_point = s.current_point
        s.reinitialize()
        s.target = mk_target(cuqi, spec1)
        s.set_state(st)                                      # back on (an equal copy of) the first target with the state saved there
        spec_now = spec1
    else:
        raise ValueError(hist)
    cache = dict(point=np.array(s.current_point, dtype=float).copy(), logd=float(s.current_target_logd),
                 grad=np.array(s.current_target_grad, dtype=float).copy())
    rec = Recorder(s)
    z, e, us = script
    sc = Script([(z, e, us)])
    sc.on_start = lambda scripted: rec.start()
    n_before = len(s.epsilon_list)
    try:
        with ScriptedRandom(seed=7, script=sc):
            s.sample(1)
    except StopIteration:
        raise OutOfUniforms()
    tr = rec.trans[-1]
    o = dict(x0=cache["point"].copy(), eps=float(s.epsilon_list[n_before]), leaves=tr["leaves"], point=np.array(s.current_point, dtype=float).copy(),
             logd=float(s.current_target_logd), grad=np.array(s.current_target_grad, dtype=float).copy(), acc=bool(s._acc[-1]),
             nrand=sum(1 for o_ in sc.orders[-1] if o_ == "rand"), nlast=len(tr["leaves"]) - tr["top"][-1] if tr["top"] else 0,
             alpha=float(s._current_alpha_ratio), order=sc.orders[-1], ntree=int(s.num_tree_node_list[-1]),
             start_expected=[float(v) for v in x_exp], md=md)
    cache["eps_used"], cache["eps_set"] = o["eps"], float(eps)
    return spec_now, x_exp, cache, o


def life_cache_oracle(hist, spec_now, x_exp, cache):
    """independent statement of the clause: the chain is where the history left it and the caches are the CURRENT target's
    log-density and gradient there (closed form in exact rationals)"""
    if cache.get("eps_used") is not None and cache["eps_used"] != cache["eps_set"]:
        return "after the history %s the next transition used the step size %r, not the configured %r" % (hist, cache["eps_used"], cache["eps_set"])
    if not np.array_equal(cache["point"], x_exp):
        return "after the history %s the chain is at %s, not at %s where it was" % (hist, cache["point"], x_exp)
    L, G = exact_target(spec_now, cache["point"])
    if not relclose(cache["logd"], float(L), 1e-12):
        return ("after the history %s current_target_logd = %r, but the log-density of the current target at the current point %s is %r"
                % (hist, cache["logd"], cache["point"], float(L)))
    if len(cache["grad"]) != len(G) or not all(relclose(float(a), float(b), 1e-12) for a, b in zip(cache["grad"], G)):
        return ("after the history %s current_target_grad = %s, but the gradient of the current target at the current point %s is %s"
                % (hist, cache["grad"], cache["point"], [float(v) for v in G]))
    return None


def life_cache_expr(spec_now, x_exp, cache):
    """the model's notion (C08_cache_consistent_concrete): the state c_init t x carries t_grad t x, its log-density is c_lgd"""
    return ("(let s := c_init %s (qvec %s) (qvec %s) in ql_close tol9 %s (map this (ps_x s)) && ext_close tol9 %s (c_lgd %s s) && ql_close tol9 %s (map this (ps_g s)))"
            % (ctarget(spec_now), cqvec(x_exp), cqvec(x_exp), cqvec(cache["point"]), cext(cache["logd"]), ctarget(spec_now), cqvec(cache["grad"])))


def life_one(state, cuqi, hist, spec1, spec2, eps, md, x0, pre, script, cases):
    meta = {"impl": "exp", "life": hist, "target": spec1, "target2": spec2, "eps": eps, "max_depth": md, "x0": x0,
            "pre": [[z, e, us] for (z, e, us) in pre], "script": [script[0], script[1], script[2]]}
    base = lambda sp: kind_name(sp["inner"]) if sp["kind"] == "shift" else kind_name(sp)     # the additive constant is a value inside the cell
    cellbase = "exp/life:%s/%s>%s" % (hist, base(spec1), base(spec2))
    try:
        spec_now, x_exp, cache, o = run_history(cuqi, hist, spec1, spec2, eps, md, x0, pre, script)
    except OutOfUniforms:
        cases.append(Case(expr="false", meta=meta, cell=cellbase + "/crash", kind="DECISION",
                          impl_fail="consumed more uniforms than any NUTS transition of this depth can", signature="NUTS.exp.raises"))
        return
    except Exception as ex:
        cases.append(Case(expr="false", meta=meta, cell=cellbase + "/crash", kind="DECISION",
                          impl_fail="the sampler raised %r in the life-cycle history %s" % (ex, hist), signature="NUTS.exp.raises"))
        return
    z, e, us = script
    if hist == "retarget/step":
        # the target was replaced on a live sampler without re-initialising: the caches are refreshed by the transition
        # only (documented: HybridGibbs re-initialises for this reason).  What the transition computes must be the NEW
        # target's: the log-density of every leaf, and the caches if the chain moved.
        fail = None
        for (lx, lr, ll) in o["leaves"]:
            L, _ = exact_target(spec_now, lx)
            if not relclose(ll, float(L), 1e-12):
                fail = "after the target was replaced a leaf at %s has log-density %r; the current target gives %r" % (lx, ll, float(L))
                break
        moved = not np.array_equal(o["point"], o["x0"])
        if fail is None and moved:
            fail = life_cache_oracle(hist + " + one accepted transition", spec_now, o["point"], dict(point=o["point"], logd=o["logd"], grad=o["grad"]))
        expr = life_cache_expr(spec_now, o["point"], dict(point=o["point"], logd=o["logd"], grad=o["grad"])) if moved else "true"
        cases.append(Case(expr=expr, meta=dict(meta, part="after-step"), cell=cellbase + "/cache-after-step", trivial=not moved, kind="DECISION",
                          impl_fail=fail, signature=SIG_LIFE if fail else ""))
        return
    fail = life_cache_oracle(hist, spec_now, x_exp, cache)
    cases.append(Case(expr=life_cache_expr(spec_now, x_exp, cache), meta=dict(meta, part="cache"), cell=cellbase + "/cache", kind="DECISION",
                      impl_fail=fail, signature=SIG_LIFE if fail else ""))
    chain_meta = dict(meta, part="transition")
    c, _ = mk_case(state, "exp", spec_now, md, "life", o, z, e, us, chain_meta, 0)
    c.cell = cellbase + "/transition"
    if fail and not c.impl_fail:
        c.impl_fail, c.signature = fail, SIG_LIFE
    cases.append(c)


def lifecycle_cases(ctx, rng, cuqi, state, cases):
    pairs = [("gauss", "gauss"), ("gauss", "quad"), ("split", "gauss")]
    for hi, hist in enumerate(LIFE_HISTORIES):
        for pi in range(len(pairs) if ctx.thorough else 2):
            k1, k2 = pairs[(hi + pi) % len(pairs)]
            for _ in range(ctx.n(1, 3)):
                d = rng.choice([2, 3]) if "quad" in (k1, k2) else rng.randint(1, 3)
                spec1, spec2 = gen_spec(rng, k1, d=d), gen_spec(rng, k2, d=d)
                if k1 == k2 == "gauss":
                    while spec2["prec"] == spec1["prec"]:
                        spec2 = gen_spec(rng, k2, d=d)
                if rng.random() < 0.5:
                    spec2 = {"kind": "shift", "c": rng.choice([-3.5, 7.25, 1024.0]), "inner": spec2}     # same gradient scale, other log-density level
                md, eps = rng.choice([1, 2]), rng.choice([0.25, 0.5])
                x0 = gen_start(rng, spec1)
                if all(v == 0 for v in x0):
                    x0[0] = 0.625                   # at the origin all these targets have the same gradient
                mks = lambda: (gen_z(rng, d),) + gen_script(rng, md)
                pre = [mks() for _ in range(rng.choice([0, 1, 2]))]
                life_one(state, cuqi, hist, spec1, spec2, eps, md, x0, pre, mks(), cases)


def life_replay(cuqi, m):
    """re-runs a life-cycle history; returns the oracle's verdict (None = the clause holds)"""
    pre = [(z, e, us) for (z, e, us) in m["pre"]]
    script = tuple(m["script"])
    spec_now, x_exp, cache, o = run_history(cuqi, m["life"], m["target"], m["target2"], m["eps"], m["max_depth"], m["x0"], pre, script)
    if m["life"] == "retarget/step":
        for (lx, lr, ll) in o["leaves"]:
            L, _ = exact_target(spec_now, lx)
            if not relclose(ll, float(L), 1e-12):
                return "after the target was replaced a leaf at %s has log-density %r; the current target gives %r" % (lx, ll, float(L)), cache, o, spec_now
        if not np.array_equal(o["point"], o["x0"]):
            return life_cache_oracle(m["life"] + " + one accepted transition", spec_now, o["point"], dict(point=o["point"], logd=o["logd"], grad=o["grad"])), cache, o, spec_now
        return None, cache, o, spec_now
    d = life_cache_oracle(m["life"], spec_now, x_exp, cache)
    if d is None:
        d = transition_oracle("exp", spec_now, o, script[0], script[1])[0]
    return d, cache, o, spec_now


def run(ctx):
    import cuqi
    import common
    common.SHARD = 40      # local work-around: a case costs 0.1-1 s of vm_compute here, so 400-case shards would serialise the run
    rng = ctx.rng
    cases, inners = [], []
    state = {"leg_guard": detect_leg_guard(cuqi), "leg_eps_replaced": 0, "skipped_float_overflow": 0}
    mds = [0, 1, 2, 3] + ([4] if ctx.thorough else [])
    reps = ctx.n(1, 6)
    for impl in ("exp", "leg"):
        for tk in TARGET_KINDS:
            for md in mds:
                if tk == "quartic" and md > 1:
                    continue       # exact rationals of a cubic map grow as 3^leaves (7 leaves: minutes of gcd): deeper trees are covered by the two-piece normal
                for epsc in EPS_CLASSES:
                    for _ in range(reps if (ctx.thorough or md < 2) else 4):      # deep trees: history-dependent decisions need volume
                        gen_chain(ctx, rng, cuqi, state, impl, tk, md, epsc, 0, cases, inners)
    # after warm-up (adapted, non-dyadic step size and start)
    # (an adapted step size is a 53-bit number: exact rationals then grow by ~160 bits per leaf, so trees stay shallow here)
    for impl in ("exp", "leg"):
        for tk in ("gauss", "split", "box:ninf"):       # box: leaves with -inf log-density enter the statistic that drives the adaptation
            for md in ((0, 1, 2) if ctx.thorough else (0, 1)):
                for _ in range(ctx.n(3, 10) if md < 2 else 2):
                    gen_chain(ctx, rng, cuqi, state, impl, tk, md, "mid", rng.choice([1, 2, 3, 5, 10, 12, 19, 20, 25]), cases, inners)
    tie_cases(ctx, rng, cuqi, state, cases)
    scale_cases(ctx, rng, cuqi, state, cases)
    lesson4_cases(ctx, rng, cuqi, state, cases)
    lifecycle_cases(ctx, rng, cuqi, state, cases)
    cyc_checked = cycle_cases(ctx, rng, cuqi, state, cases)
    open_checked = open_kernel_cases(ctx, rng, cuqi, state, cases)
    # how many of the scripted transitions were decided with all margins (sample)
    small = [t for t in inners if len(t) < 2500]
    sample = rng.sample(small, min(len(small), 40))
    cases.append(Case(expr="(%d <=? length (filter check_conclusive %s))%%nat" % (int(0.8 * len(sample)), clist(sample)),
                      meta={"conclusive_sample": len(sample)}, cell="meta/conclusive>=80%", kind="DECISION"))
    # exact kernel enumeration of the real samplers on a few orbits (independent oracle)
    checked = 0
    for it in range(ctx.n(10, 60)):
        tk = TARGET_KINDS[it % len(TARGET_KINDS)]
        md = [0, 1, 1][it % 3]
        deep = (ctx.thorough and it % 12 == 5) or (not ctx.thorough and it == 6)   # depth 2: up to 15 sources x 2^10 scripted runs
        if deep:
            md = 2
        spec = gen_spec(rng, tk, d=(1 if deep else 1 + (it // 2) % 3))      # dimensions 1, 2 and 3
        if tk == "quartic":
            md = min(md, 1)
        eps = rng.choice([0.25, 0.5, 2.0, 0.125, 4.0])
        x0, z = gen_start(rng, spec), gen_z(rng, dim_of(spec))
        e, _ = gen_script(rng, md)
        if deep or it % 2 == 1:
            # slice variable cutting the orbit (partly in-slice sub-trees, rejected top-level moves)
            if deep:
                eps = rng.choice([0.25, 0.5])
            span = 2 ** (md + 1) - 1
            with np.errstate(all="ignore"):
                st_, f_ = orbit(spec, eps, x0, z, -span, span)
                hh = {i_: float(f_(s_[0])) - 0.5 * float(np.dot(s_[1], s_[1])) for i_, s_ in st_.items()}
            dd = sorted(set(hh[0] - h for h in hh.values() if np.isfinite(h) and 1e-6 < hh[0] - h < 500))
            if dd:
                k_ = rng.randrange(len(dd))
                e = float((dd[k_] + (dd[k_ + 1] if k_ + 1 < len(dd) else 1.5 * dd[k_])) / 2)
        for impl in ("exp", "leg"):
            meta = {"impl": impl, "target": spec, "eps": eps, "max_depth": md, "x0": x0, "z": z, "e": e, "orbit": True}
            if impl == "leg" and tk == "box:pinf" and not state["leg_guard"]:
                continue        # known finding: covered by its own witness and the scripted cells
            try:
                d = orbit_stationary(cuqi, impl, spec, eps, md, x0, z, e)
            except Exception as ex:
                d = "kernel enumeration crashed: %r" % ex
            checked += 1
            cases.append(Case(expr="true", meta=meta, cell="%s/orbit-stationarity/md%d" % (impl, md), kind="DECISION", impl_fail=d,
                              signature="NUTS.%s.orbit_stationarity" % impl if d else ""))
    # deep orbits (three doublings) with a slice variable that cuts them: history-dependent top-level decisions
    for it in range(ctx.n(12, 40)):
        tk = ["gauss", "split", "gauss"][it % 3]
        spec = gen_spec(rng, tk, d=(3 if it % 4 == 3 else 1))      # every fourth one in 3 dimensions (U-turn tests on all coordinates)
        eps = rng.choice([0.125, 0.25, 0.5])
        x0, z = gen_start(rng, spec), gen_z(rng, dim_of(spec))
        with np.errstate(all="ignore"):
            st_, f_ = orbit(spec, eps, x0, z, -7, 7)
            hh = {i_: float(f_(s_[0])) - 0.5 * float(np.dot(s_[1], s_[1])) for i_, s_ in st_.items()}
        dd = sorted(set(hh[0] - h for h in hh.values() if np.isfinite(h) and 1e-6 < hh[0] - h < 500))
        if not dd:
            continue
        k_ = rng.randrange(len(dd))
        e = float((dd[k_] + (dd[k_ + 1] if k_ + 1 < len(dd) else 1.5 * dd[k_])) / 2)
        for impl in ("exp", "leg"):
            meta = {"impl": impl, "target": spec, "eps": eps, "max_depth": 2, "x0": x0, "z": z, "e": e, "orbit": True}
            try:
                d = orbit_stationary(cuqi, impl, spec, eps, 2, x0, z, e)
            except Exception as ex:
                d = "kernel enumeration crashed: %r" % ex
            checked += 1
            cases.append(Case(expr="true", meta=meta, cell="%s/orbit-stationarity/md2-cut" % impl, kind="DECISION", impl_fail=d,
                              signature="NUTS.%s.orbit_stationarity" % impl if d else ""))
    return Result(cases=cases, rule=RULE,
                  extra={"orbit_stationarity_checks": checked, "closed_orbit_stationarity_checks": cyc_checked, "open_orbit_kernel_law_starts": open_checked, "legacy_step_size_1.0_replaced_by_FindGoodEpsilon": state["leg_eps_replaced"],
                         "legacy_refuses_+inf": state["leg_guard"],
                         "transitions_skipped_for_float_overflow": state["skipped_float_overflow"]},
                  assumptions=["targets are user-defined polynomial log-densities (Gaussian with diagonal precision, two-piece normal, quartic, box-truncated with NaN/-inf/+inf outside)",
                               "floating-point rounding of the implementation is not modelled: leaves are compared within 1e-9 and a case with a decision closer than 1e-7 (relative) to a tie is inconclusive (the share of conclusive cases is itself checked on a sample); exact-arithmetic tie cases are checked without margins",
                               "numpy.random is replaced by a scripted stream (momentum, exponential, uniforms)",
                               "the Metropolis probabilities entering the acceptance statistic are transcendental: the statistic is checked in floating point against the observed leaves (1e-12), the model ties which leaves enter it"])


_ORACLE_BUDGET = {"calls": 0, "confirmed": 0}


def oracle(ctx, meta):
    """a model/implementation disagreement on a scripted transition: look for a failure of the property itself at the same
    inputs (per-transition clauses, then stationarity on the orbit through the start of that transition)"""
    import cuqi
    if meta.get("life"):
        return life_replay(cuqi, meta)[0]
    if meta.get("cycle"):
        return cycle_replay(cuqi, meta)
    if meta.get("orbit") and meta.get("kernel_law"):
        return orbit_stationary(cuqi, meta["impl"], meta["target"], meta["eps"], meta["max_depth"], meta["x0"], meta["z"], meta["e"],
                                all_targets=True, allow_ties=True)
    if "scripts" not in meta:
        return None
    _ORACLE_BUDGET["calls"] += 1
    if _ORACLE_BUDGET["confirmed"] >= 2 or _ORACLE_BUDGET["calls"] > 25:
        return None
    spec = meta["target"]
    md = min(meta["max_depth"], 2)
    if meta.get("warm"):
        return None
    z, e, us = meta["scripts"][0]
    if dim_of(spec) > 3 or (spec["kind"] == "quartic" and md > 1):
        return None
    d = orbit_stationary(cuqi, meta["impl"], spec, meta["eps"], md, meta["x0"], z, e, all_targets=(md <= 1 or bool(meta.get("exact"))),
                         allow_ties=bool(meta.get("exact")))
    if d:
        _ORACLE_BUDGET["confirmed"] += 1
    return d


def cycle_replay(cuqi, m):
    """closed-orbit cells: re-run the enumeration of the real kernel on the orbit and the invariance check"""
    spec = m["target"]
    cyc = exact_cycle(spec["prec"], m["eps"], m["x0"], m["z"])
    if cyc is None:
        return None
    if m.get("mixture"):
        return cycle_mixture(cuqi, m["impl"], spec, m["eps"], m["max_depth"], cyc, random.Random(m["mass_seed"]))
    laws = cycle_kernel(cuqi, m["impl"], spec, m["eps"], m["max_depth"], cyc, frac(m["logu"]))
    return cycle_stationary(cyc, frac(m["logu"]), laws)


def moment_test(cuqi, impl, prec, eps, md, n_chains=1500, n_tr=3, seed=12345):
    """fixed-seed test: chains started from exact draws of N(0, 1/prec) must still have that law after n_tr transitions
    (mean and second moment within 6 sigma).  Search stage only: a statistical test is never part of the green path."""
    import io, contextlib
    rs = np.random.RandomState(seed)
    saved = np.random.get_state()
    np.random.seed(seed + 1)
    T = mk_target(cuqi, {"kind": "gauss", "prec": [prec]})
    xs = []
    try:
        for c in range(n_chains):
            x0 = rs.standard_normal(1) / math.sqrt(prec)
            if impl == "exp":
                from cuqi.experimental.mcmc import NUTS
                sm = NUTS(T, initial_point=x0, max_depth=md, step_size=eps)
                sm.sample(n_tr)
                xs.append(float(sm.current_point[0]))
            else:
                sm = cuqi.sampler.NUTS(T, x0=x0, max_depth=md, adapt_step_size=eps)
                with contextlib.redirect_stdout(io.StringIO()):
                    th, _, _ = sm._sample(n_tr + 1, 0)
                xs.append(float(th[0, -1]))
    finally:
        np.random.set_state(saved)
    xs = np.array(xs) * math.sqrt(prec)
    n = len(xs)
    zm = xs.mean() * math.sqrt(n)                       # ~ N(0,1)
    zv = (np.mean(xs ** 2) - 1) * math.sqrt(n / 2.0)    # ~ N(0,1)
    if abs(zm) > 6 or abs(zv) > 6:
        return ("after %d transitions from exact draws of N(0,1/%g) (step %g, max_depth %d, %d chains, fixed seed) the standardised mean is %.2f sigma and the "
                "second moment %.2f sigma away from the target's" % (n_tr, prec, eps, md, n, zm, zv))
    return None


def search(ctx):
    import cuqi
    rng = random.Random(ctx.seed + 77)
    out = []
    for impl in ("exp", "leg"):
        for (prec, eps, md) in ((1.0, 0.5, 2), (4.0, 0.75, 3)):
            try:
                d = moment_test(cuqi, impl, prec, eps, md)
            except Exception:
                d = None
            if d:
                out.append(Case(expr="true", meta={"impl": impl, "moment_test": [prec, eps, md]}, impl_fail=d, signature="NUTS.%s.moments" % impl))
                return out
    for it in range(ctx.n(150, 500)):
        tk = TARGET_KINDS[it % len(TARGET_KINDS)]
        md = [1, 0, 1, 2, 1, 1, 2][it % 7]
        spec = gen_spec(rng, tk, d=(3 if it % 3 == 2 else 1))
        if tk == "quartic":
            md = min(md, 1)
        eps = rng.choice([0.25, 0.5, 2.0, 0.125])
        x0, z = gen_start(rng, spec), gen_z(rng, dim_of(spec))
        e, _ = gen_script(rng, md)
        for impl in ("exp", "leg"):
            d = orbit_stationary(cuqi, impl, spec, eps, md, x0, z, e)
            if d:
                out.append(Case(expr="true", meta={"impl": impl, "target": spec, "eps": eps, "max_depth": md, "x0": x0, "z": z, "e": e, "orbit": True},
                                impl_fail=d, signature="NUTS.%s.orbit_stationarity" % impl))
                return out
    return out


def buffer_witness(cuqi, impl):
    inner = {"kind": "gauss", "prec": [1, 4]}
    spec = dict(inner)
    spec["style"] = "buffer"
    us = [(2 * k_ + 1) / 256 for k_ in (100, 30, 70, 20, 90, 10, 60, 50, 40, 80, 5, 110, 120, 15, 25, 35, 45, 55, 65, 75)] * 8
    fails = False
    for k_ in range(8):             # a fixed list of scripts; the first on which the two runs differ is the witness
        scripts = [([0.5 + 0.25 * k_, 1.0 - 0.125 * k_], 0.5078125, us[k_:]), ([-0.75, 0.5 + 0.25 * k_], 0.2578125, us[2 * k_:])]
        a = run_chain(cuqi, impl, spec, 0.25, 3, [0.5, -0.25], scripts)
        b = run_chain(cuqi, impl, inner, 0.25, 3, [0.5, -0.25], scripts)
        fails = not same_run(a, b)
        if fails:
            break
    return fails, ("gradient callable returning one persistent work array, N(0, diag(1,4)^-1), x0 (0.5,-0.25), step 0.25, max_depth 3: new states %s / %s, with fresh arrays %s / %s"
                   % (a[0]["point"], a[1]["point"], b[0]["point"], b[1]["point"]))


def x0_alias_witness(cuqi):
    spec = {"kind": "gauss", "prec": [1, 4]}
    us = [0.51, 0.9] + [0.5] * 160
    obs = run_chain(cuqi, "exp", spec, 8.0, 0, [0.5, -0.25], [([1.0, 1.0], 0.5078125, us), ([1.0, 1.0], 0.5078125, us)], opts={"overwrite_x0": True})
    fails = not obs[0].get("overwrite_ok", True)
    return fails, "initial point array overwritten in place by the caller after a rejected first transition: the second transition starts at %s" % obs[1]["x0"]


def known_witnesses(ctx):
    import cuqi
    fails, detail = pinf_witness(cuqi)
    out = {SIG_PINF: (fails, detail)}
    for impl in ("exp", "leg"):
        out[SIG_BUF[impl]] = buffer_witness(cuqi, impl)
    out[SIG_X0] = x0_alias_witness(cuqi)
    return out


def classify(meta, detail):
    if meta.get("moment_test"):
        return "NUTS.%s.moments" % meta.get("impl", "?")
    if meta.get("cycle"):
        return "NUTS.%s.cycle_stationarity" % meta.get("impl", "?")
    return "NUTS.%s.orbit_stationarity" % meta.get("impl", "?")


def replay(ctx, meta):
    import cuqi
    m = meta.get("meta", meta)
    print(json.dumps({k: v for k, v in meta.items() if k != "meta"}, indent=1)[:3000])
    print(json.dumps(m, indent=1)[:3000])
    if m.get("witness") == SIG_PINF or meta.get("signature") == SIG_PINF and "scripts" not in m:
        print("witness:", pinf_witness(cuqi))
        return 0
    if m.get("life"):
        d, cache, o, spec_now = life_replay(cuqi, m)
        print("life-cycle history %s of cuqi.experimental.mcmc.NUTS (first target %s, then %s); afterwards the sampler holds" % (m["life"], m["target"], m["target2"]))
        print("  current_point %s current_target_logd %r current_target_grad %s" % (cache["point"], cache["logd"], cache["grad"]))
        L, G = exact_target(spec_now, cache["point"])
        print("  the current target %s at that point: log-density %r gradient %s" % (spec_now, float(L), [float(v) for v in G]))
        print("  scripted transition from there: %d leaves, new state %s logd=%r grad=%s" % (len(o["leaves"]), o["point"], o["logd"], o["grad"]))
        print("oracle:", d or "ok")
        return 0
    if m.get("moment_test"):
        print("moment test:", moment_test(cuqi, m["impl"], *m["moment_test"]) or "within 6 sigma")
        return 0
    if m.get("cycle"):
        spec = m["target"]
        cyc = exact_cycle(spec["prec"], m["eps"], m["x0"], m["z"])
        print("closed leapfrog orbit (x, r, H):", [([float(v) for v in c[0]], [float(v) for v in c[1]], float(c[3])) for c in cyc], "log u =", m["logu"])
        laws = cycle_kernel(cuqi, m["impl"], spec, m["eps"], m["max_depth"], cyc, frac(m["logu"]))
        for i, law in sorted(laws.items()):
            print("  enumerated law of the real sampler from state %d:" % i, {str([float(v) for v in k_]): str(w) for k_, w in sorted(law.items())})
        print("invariance of the uniform distribution on the in-slice states of the closed orbit under the real sampler:",
              cycle_stationary(cyc, frac(m["logu"]), laws) or "holds")
        if m.get("mixture"):
            print("layer-cake mixture over all classes of slice levels:",
                  cycle_mixture(cuqi, m["impl"], spec, m["eps"], m["max_depth"], cyc, random.Random(m["mass_seed"])) or "pi is invariant")
        return 0
    if m.get("orbit"):
        print("stationarity of the counting measure on the orbit under the real sampler:",
              orbit_stationary(cuqi, m["impl"], m["target"], m["eps"], m["max_depth"], m["x0"], m["z"], m["e"]) or "holds")
        return 0
    if "scripts" not in m:
        return 0
    scripts = [(z, e, us) for (z, e, us) in m["scripts"]]
    obs = run_chain(cuqi, m["impl"], m["target"], m["eps"], m["max_depth"], m["x0"], scripts, warm=m.get("warm", 0), warm_seed=m.get("warm_seed", 1),
                    delta=m.get("delta"), x0_dtype=m.get("x0_dtype", "float64"), opts=m.get("opts"))
    j = m.get("transition", 0)
    o = obs[j]
    z, e, us = scripts[j]
    print("implementation, transition %d: start %s step size %r: %d leaves, %d uniforms, new state %s logd=%r acc=%r, leaves of last doubling %d"
          % (j, o["x0"], o["eps"], len(o["leaves"]), o["nrand"], o["point"], o["logd"], o["acc"], o["nlast"]))
    print("per-transition oracle:", transition_oracle(m["impl"], m["target"], o, z, e)[0] or "ok")
    inner, _ = case_expr(m["impl"], m["target"], m["max_depth"], o, z, e, us, m.get("guard", m["impl"] == "exp"), m.get("exact", False))
    rc, out = eval_in_coq(IMPORTS, inner)
    print("model verdict (0 agree, 1 inconclusive, 2 disagree):", out)
    if not m.get("warm") and dim_of(m["target"]) <= 3:
        md = min(m["max_depth"], 2)
        print("stationarity on the orbit through the start (real sampler, max_depth<=2):",
              orbit_stationary(cuqi, m["impl"], m["target"], m["eps"], md, m["x0"], scripts[0][0], scripts[0][1],
                               all_targets=(md <= 1 or bool(m.get("exact"))), allow_ties=bool(m.get("exact"))) or "holds")
    return 0
