(* C12 -- the Jacobian of par2fun for the concrete geometry instances the correspondence runs, as a matrix
   computed by the model, and the value the chain rule predicts for Model.gradient.  No proofs here. *)
From CV Require Import Base.Tac Base.LinAlg Base.QcLin Base.Cmp Model.C12_Model.
From Coq Require Import QArith Qcanon.
Local Open Scope Qc_scope.

(* diag(s) *)
Fixpoint diagmat (s : vec) : mat :=
  match s with
  | [] => []
  | a :: s' => (a :: qvzero (length s')) :: map (cons 0) (diagmat s')
  end.

Definition ones (w : vec) : vec := map (fun _ => 1) w.

Definition lin_wf (m : nat) (K : mat) : bool := forallb (fun row => Nat.eqb (length row) m) K.

Definition f2p_is_base (f : f2p) : bool := match f with F2Base => true | _ => false end.

(* J_G(w) = d par2fun / d p at w, for
   - the identity-type classes (Continuous1D, Discrete, the int default; Image2D C-order / visual_only, Continuous2D,
     the tuple default): the identity, with or without a `gradient` attached that multiplies by 1;
   - element-wise geometries with their `gradient` (MappedGeometry / user geometries, par2fun = phi_G element-wise,
     gradient = direction * phi_G'(wrt)): diag(phi_G'(w)), the derivative phi_G' computed here by pderiv;
   - StepExpansion with the step-sum gradient: the 0/1 node-to-step matrix;
   - a linear expansion (KLExpansion) par2fun p = K p with gradient K^T direction: K.
   None: not an instance (wrong gradient for the map, ill-formed index family, Image2D order F, ...). *)
Definition geo_jac (dg : geo) (w : vec) : option mat :=
  if plain1d (g_cls dg) then
    match g_grad dg with
    | None => Some (diagmat (ones w))
    | Some (GGDiag dcs _) => if qcl_eqb dcs (pderiv [0; 1]) then Some (diagmat (pmap dcs w)) else None
    | Some _ => None
    end
  else
    match g_conv dg, g_map dg, g_grad dg with
    | CvId, Some csG, Some (GGDiag dcs _) => if qcl_eqb dcs (pderiv csG) then Some (diagmat (pmap dcs w)) else None
    | CvId, None, None => if identity_class (g_cls dg) && f2p_is_base (g_f2p dg) then Some (diagmat (ones w)) else None
    | CvImgC r c, None, None =>
        if identity_class (g_cls dg) && f2p_is_base (g_f2p dg) && Nat.eqb (length w) (r * c) then Some (diagmat (ones w)) else None
    | CvStep nfun idx _ _, None, Some (GGStepSum idx') =>
        if natll_eqb idx idx' && step_wf nfun idx && Nat.eqb (length w) (length idx) then Some (step_jac nfun idx) else None
    | CvLin K _, None, Some (GGMatT m K') =>
        if qcll_eqb K K' && lin_wf m K && Nat.eqb (length w) m && negb (Nat.eqb (length K) 0) then Some K else None
    | _, _, _ => None
    end.

(* what the chain rule says Model.gradient(direction, wrt) is, for the model family F(x) = A phi_F(x) + b:
   (J_F(par2fun w) J_G(w))^T direction, J_F(x) = A diag(phi_F'(x)) *)
Definition chain_rule_value (A : mat) (csF : list Qc) (dg : geo) (d w : vec) : option vec :=
  match geo_jac dg w, g_par2fun dg w with
  | Some JG, Ok wf => Some (qmattvec (length w) (qmatmul (length w) (poly_jac A (pderiv csF) wf) JG) d)
  | _, _ => None
  end.

(* checker: the value predicted by the chain-rule theorem against the observed gradient (exact / 1e-9 relative) *)
Definition check_chain_rule (tol : bool) (A : mat) (csF : list Qc) (dg : geo) (d w : vec) (obs : list Q) : bool :=
  match chain_rule_value A csF dg d w with
  | Some g => if tol then qcl_close tol9 (qvec obs) g else qcl_eqb g (qvec obs)
  | None => false
  end.

(* ---- Image2D(order='F'): par2fun is a permutation ------------------------------------------------ *)
(* C-order index k = i*c + j of a function value  ->  F-order index j*r + i of the parameter it is *)
Definition sigma (r c k : nat) : nat := ((k mod c) * r + k / c)%nat.
Definition img_perm (r c : nat) : mat := map (fun k => qunit (r * c) (sigma r c k)) (seq 0 (r * c)).

(* (J_F(par2fun w) P)^T direction *)
Definition chain_rule_value_imgF (A : mat) (csF : list Qc) (r c : nat) (d w : vec) : vec :=
  qmattvec (r * c) (qmatmul (r * c) (poly_jac A (pderiv csF) (img_par2fun r c w)) (img_perm r c)) d.

Definition check_chain_rule_imgF (A : mat) (csF : list Qc) (r c : nat) (d w : vec) (obs : list Q) : bool :=
  Nat.eqb (length w) (r * c) && qcl_eqb (chain_rule_value_imgF A csF r c d w) (qvec obs).

(* ---- finite differences of forward() in parameter space (the property's observation point) -------- *)
(* (J_F(par2fun w) J_G(w)) h : what C12_gradient_is_transposed_jacobian_of_forward says the derivative of forward at w along h is *)
Definition chain_rule_jvp (A : mat) (csF : list Qc) (dg : geo) (w h : vec) : option vec :=
  match geo_jac dg w, g_par2fun dg w with
  | Some JG, Ok wf => Some (qmatvec (qmatmul (length w) (poly_jac A (pderiv csF) wf) JG) h)
  | _, _ => None
  end.

(* checker: against the exact 7-point central difference of the implementation's forward() (exact for the polynomial families) *)
Definition check_fd (tol : bool) (A : mat) (csF : list Qc) (dg : geo) (w h : vec) (obs : list Q) : bool :=
  match chain_rule_jvp A csF dg w h with
  | Some v => if tol then qcl_close tol9 (qvec obs) v else qcl_eqb v (qvec obs)
  | None => false
  end.
