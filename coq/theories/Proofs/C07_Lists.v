(* C07 -- list plumbing and linear algebra over Qc used by the C07 proofs: inner products of
   appended / concatenated lists, the structural transpose `tr`, chunks, Frobenius inner product,
   reordering of weighted sums.  Every lemma is for all sizes. *)
From CV Require Import Base.Tac Base.LinAlg Base.Cmp Base.QcLin Model.C07_Adj.
From Coq Require Import QArith Qcanon.

Local Open Scope Qc_scope.

(* ---------- unfolding equations (keep the q-names folded) ---------- *)
Lemma qdot_nil_l y : qdot [] y = 0. Proof. reflexivity. Qed.
Lemma qdot_nil_r x : qdot x [] = 0. Proof. destruct x; reflexivity. Qed.
Lemma qdot_cons a x b y : qdot (a :: x) (b :: y) = a * b + qdot x y. Proof. reflexivity. Qed.
Lemma qvadd_cons a x b y : qvadd (a :: x) (b :: y) = (a + b) :: qvadd x y. Proof. reflexivity. Qed.
Lemma qvscale_cons c a x : qvscale c (a :: x) = (c * a) :: qvscale c x. Proof. reflexivity. Qed.
Lemma qvscale_nil c : qvscale c [] = []. Proof. reflexivity. Qed.
Lemma qmatvec_cons row A x : qmatvec (row :: A) x = qdot row x :: qmatvec A x. Proof. reflexivity. Qed.
Lemma qmatvec_nil x : qmatvec [] x = []. Proof. reflexivity. Qed.
Lemma qmattvec_cons n row A b y :
  qmattvec n (row :: A) (b :: y) = qvadd (qvscale b row) (qmattvec n A y). Proof. reflexivity. Qed.
Lemma qmattvec_nil n y : qmattvec n [] y = qvzero n. Proof. reflexivity. Qed.
Lemma qvzero_S n : qvzero (S n) = 0 :: qvzero n. Proof. reflexivity. Qed.
Lemma qvzero_repeat n : qvzero n = repeat 0 n. Proof. reflexivity. Qed.

(* ---------- instances of Base/LinAlg at Qc ---------- *)
Lemma qdot_comm x y : qdot x y = qdot y x.
Proof. apply (dot_comm Qc 0 1 Qcplus Qcmult Qcminus Qcopp Qcrt). Qed.
Lemma qdot_vzero_l n y : qdot (qvzero n) y = 0.
Proof. apply (dot_vzero_l Qc 0 1 Qcplus Qcmult Qcminus Qcopp Qcrt). Qed.
Lemma qdot_vzero_r n y : qdot y (qvzero n) = 0.
Proof. apply (dot_vzero_r Qc 0 1 Qcplus Qcmult Qcminus Qcopp Qcrt). Qed.
Lemma qdot_vadd_l x y z : length x = length y -> qdot (qvadd x y) z = qdot x z + qdot y z.
Proof. apply (dot_vadd_l Qc 0 1 Qcplus Qcmult Qcminus Qcopp Qcrt). Qed.
Lemma qdot_vadd_r x y z : length y = length z -> qdot x (qvadd y z) = qdot x y + qdot x z.
Proof. apply (dot_vadd_r Qc 0 1 Qcplus Qcmult Qcminus Qcopp Qcrt). Qed.
Lemma qdot_vscale_l c x y : qdot (qvscale c x) y = c * qdot x y.
Proof. apply (dot_vscale_l Qc 0 1 Qcplus Qcmult Qcminus Qcopp Qcrt). Qed.
Lemma qdot_vscale_r c x y : qdot x (qvscale c y) = c * qdot x y.
Proof. apply (dot_vscale_r Qc 0 1 Qcplus Qcmult Qcminus Qcopp Qcrt). Qed.
Lemma qvadd_length x y : length x = length y -> length (qvadd x y) = length x.
Proof. apply vadd_length. Qed.
Lemma qvscale_length c x : length (qvscale c x) = length x.
Proof. apply vscale_length. Qed.
Lemma qvzero_length n : length (qvzero n) = n.
Proof. apply vzero_length. Qed.
Lemma qmatvec_length A x : length (qmatvec A x) = length A.
Proof. apply matvec_length. Qed.
Lemma qmattvec_length n A y : wf_mat n A -> length (qmattvec n A y) = n.
Proof. apply (mattvec_length Qc 0 Qcplus Qcmult). Qed.
Lemma qdot_unit n i x : length x = n -> (i < n)%nat -> qdot (qunit n i) x = nth i x 0.
Proof. apply (dot_unit_vec Qc 0 1 Qcplus Qcmult Qcminus Qcopp Qcrt). Qed.
Lemma qvadd_vzero_r x n : length x = n -> qvadd x (qvzero n) = x.
Proof. apply (vadd_vzero_r Qc 0 1 Qcplus Qcmult Qcminus Qcopp Qcrt). Qed.
Lemma qmatvec_vadd A x y n : wf_mat n A -> length x = n -> length y = n ->
  qmatvec A (qvadd x y) = qvadd (qmatvec A x) (qmatvec A y).
Proof. apply (matvec_vadd Qc 0 1 Qcplus Qcmult Qcminus Qcopp Qcrt). Qed.
Lemma qmatvec_vscale A c x : qmatvec A (qvscale c x) = qvscale c (qmatvec A x).
Proof. apply (matvec_vscale Qc 0 1 Qcplus Qcmult Qcminus Qcopp Qcrt). Qed.

Lemma qunit_length n i : length (qunit n i) = n.
Proof.
  revert i; induction n as [|n IH]; intros i; [reflexivity|].
  destruct i as [|i]; cbn [qunit unit_vec length].
  - f_equal. apply vzero_length.
  - f_equal. apply IH.
Qed.

Lemma qc_neq_of_eqb a b : qc_eqb a b = false -> a <> b.
Proof. intros H E. apply qc_eqb_eq in E. rewrite E in H. discriminate. Qed.

(* ---------- generic inner product of lists over a type with a pairing into Qc ---------- *)
Section LDot.
Context {A : Type} (ip : A -> A -> Qc).

Fixpoint ldot (x y : list A) : Qc :=
  match x, y with a :: x', b :: y' => ip a b + ldot x' y' | _, _ => 0 end.

Lemma ldot_nil_r x : ldot x [] = 0. Proof. destruct x; reflexivity. Qed.

Lemma ldot_app a b x y : length a = length b -> ldot (a ++ x) (b ++ y) = ldot a b + ldot x y.
Proof.
  revert b; induction a as [|u a IH]; intros [|v b] H; simpl in *; try discriminate.
  - ring.
  - rewrite IH by lia. ring.
Qed.

Lemma ldot_comm : (forall a b, ip a b = ip b a) -> forall x y, ldot x y = ldot y x.
Proof.
  intros Hc x; induction x as [|a x IH]; intros [|b y]; simpl; try reflexivity.
  rewrite IH, Hc. reflexivity.
Qed.

Lemma ldot_repeat_l z k y : (forall a, ip z a = 0) -> ldot (repeat z k) y = 0.
Proof.
  intros Hz; revert y; induction k as [|k IH]; intros [|b y]; simpl; try reflexivity.
  rewrite IH, Hz. ring.
Qed.

Lemma ldot_repeat_r z k x : (forall a, ip a z = 0) -> ldot x (repeat z k) = 0.
Proof.
  intros Hz; revert x; induction k as [|k IH]; intros [|b x]; simpl; try reflexivity.
  rewrite IH, Hz. ring.
Qed.
End LDot.

Lemma ldot_qdot x y : ldot Qcmult x y = qdot x y.
Proof. reflexivity. Qed.

(* Frobenius inner product of two matrices (lists of rows) *)
Definition fdot (M N : list (list Qc)) : Qc := ldot qdot M N.

Lemma fdot_cons a M b N : fdot (a :: M) (b :: N) = qdot a b + fdot M N. Proof. reflexivity. Qed.
Lemma fdot_nil_l N : fdot [] N = 0. Proof. reflexivity. Qed.
Lemma fdot_nil_r M : fdot M [] = 0. Proof. apply ldot_nil_r. Qed.
Lemma fdot_comm M N : fdot M N = fdot N M.
Proof. apply ldot_comm. apply qdot_comm. Qed.

Lemma qdot_app a b x y : length a = length b -> qdot (a ++ x) (b ++ y) = qdot a b + qdot x y.
Proof. intros H. rewrite <- !ldot_qdot. apply ldot_app. exact H. Qed.

Lemma qdot_concat M N : Forall2 (fun a b => length a = length b) M N ->
  qdot (concat M) (concat N) = fdot M N.
Proof.
  induction 1 as [|a b M N Hab HMN IH]; [reflexivity|].
  cbn [concat]. rewrite qdot_app by exact Hab. rewrite IH. reflexivity.
Qed.

Lemma wf_Forall2_length (n : nat) (M N : list (list Qc)) :
  wf_mat n M -> wf_mat n N -> length M = length N -> Forall2 (fun a b => length a = length b) M N.
Proof.
  intros HM; revert N; induction HM as [|a M Ha HM IH]; intros [|b N] HN HL; simpl in HL; try discriminate.
  - constructor.
  - inversion HN; subst. constructor; [congruence | apply IH; [assumption | lia]].
Qed.

Lemma concat_length_wf {A} (n : nat) (M : list (list A)) :
  Forall (fun r => length r = n) M -> length (concat M) = (length M * n)%nat.
Proof.
  induction 1 as [|a M Ha HM IH]; [reflexivity|].
  cbn [concat length]. rewrite app_length, IH, Ha. reflexivity.
Qed.

(* ---------- chunks ---------- *)
Lemma concat_chunks {A} (k n : nat) (l : list A) : length l = (k * n)%nat -> concat (chunks k n l) = l.
Proof.
  revert l; induction n as [|n IH]; intros l H.
  - rewrite Nat.mul_0_r in H. destruct l; [reflexivity | discriminate].
  - cbn [chunks concat]. rewrite IH.
    + apply firstn_skipn.
    + rewrite skipn_length. lia.
Qed.

Lemma chunks_length {A} (k n : nat) (l : list A) : length (chunks k n l) = n.
Proof. revert l; induction n as [|n IH]; intros l; [reflexivity|]. cbn [chunks length]. rewrite IH. reflexivity. Qed.

Lemma chunks_wf {A} (k n : nat) (l : list A) : length l = (k * n)%nat ->
  Forall (fun r => length r = k) (chunks k n l).
Proof.
  revert l; induction n as [|n IH]; intros l H; [constructor|].
  cbn [chunks]. constructor.
  - rewrite firstn_length. lia.
  - apply IH. rewrite skipn_length. lia.
Qed.

(* ---------- zipcons / structural transpose ---------- *)
Lemma zipcons_length {A} (r : list A) (T : list (list A)) :
  length (zipcons r T) = Nat.min (length r) (length T).
Proof.
  revert T; induction r as [|a r IH]; intros [|t T]; simpl; try reflexivity.
  rewrite IH. reflexivity.
Qed.

Lemma tr_length {A} (n : nat) (M : list (list A)) :
  Forall (fun r => length r = n) M -> length (tr n M) = n.
Proof.
  induction 1 as [|a M Ha HM IH]; cbn [tr].
  - apply repeat_length.
  - rewrite zipcons_length, IH, Ha. apply Nat.min_id.
Qed.

Lemma zipcons_rows {A} (k : nat) (r : list A) (T : list (list A)) :
  Forall (fun t => length t = k) T -> Forall (fun t => length t = S k) (zipcons r T).
Proof.
  intros HT; revert r; induction HT as [|t T Ht HT IH]; intros [|a r]; simpl; try constructor.
  - simpl. congruence.
  - apply IH.
Qed.

Lemma tr_rows {A} (n : nat) (M : list (list A)) :
  Forall (fun t => length t = length M) (tr n M).
Proof.
  induction M as [|a M IH]; cbn [tr length].
  - apply Forall_forall. intros x Hx. apply repeat_spec in Hx. subst. reflexivity.
  - apply zipcons_rows. exact IH.
Qed.

Lemma qmatvec_repeat_nil n y : qmatvec (repeat [] n) y = qvzero n.
Proof. induction n as [|n IH]; [reflexivity|]. cbn [repeat]. rewrite qmatvec_cons, IH. reflexivity. Qed.

Lemma qmatvec_zipcons row T b y : length row = length T ->
  qmatvec (zipcons row T) (b :: y) = qvadd (qvscale b row) (qmatvec T y).
Proof.
  revert T; induction row as [|a row IH]; intros [|t T] H; simpl in H; try discriminate; [reflexivity|].
  cbn [zipcons]. rewrite !qmatvec_cons, qvscale_cons, qvadd_cons, qdot_cons, IH by lia.
  f_equal. ring.
Qed.

(* the structural transpose acts as the transpose: (tr A) y = A^T y, every size *)
Lemma qmatvec_tr n A y : wf_mat n A -> length y = length A -> qmatvec (tr n A) y = qmattvec n A y.
Proof.
  intros H; revert y; induction H as [|row A Hr HA IH]; intros [|b y] Hy; simpl in Hy; try discriminate.
  - cbn [tr]. rewrite qmatvec_repeat_nil. reflexivity.
  - cbn [tr]. rewrite qmatvec_zipcons.
    + rewrite IH by lia. reflexivity.
    + rewrite tr_length by exact HA. exact Hr.
Qed.

Definition heads (N : list (list Qc)) : list Qc := map (hd 0) N.
Definition tails (N : list (list Qc)) : list (list Qc) := map (@tl Qc) N.

Lemma tr_cons_cols c N : wf_mat (S c) N -> tr (S c) N = heads N :: tr c (tails N).
Proof.
  induction 1 as [|row N Hr HN IH]; [reflexivity|].
  destruct row as [|a row]; [discriminate|].
  cbn [tr heads tails map hd tl]. rewrite IH. reflexivity.
Qed.

Lemma tails_wf c N : wf_mat (S c) N -> wf_mat c (tails N).
Proof.
  induction 1 as [|row N Hr HN IH]; [constructor|].
  destruct row as [|a row]; [discriminate|]. cbn [tails map tl]. constructor; [simpl in Hr; lia | exact IH].
Qed.

Lemma fdot_repeat_nil r N : fdot (repeat [] r) N = 0.
Proof. apply ldot_repeat_l. intros a. reflexivity. Qed.

Lemma fdot_zipcons c row T N : length row = length T -> length T = length N -> wf_mat (S c) N ->
  fdot (zipcons row T) N = qdot row (heads N) + fdot T (tails N).
Proof.
  revert T N; induction row as [|a row IH]; intros [|t T] [|n N] H1 H2 HN; simpl in H1, H2; try discriminate.
  - cbn. ring.
  - inversion HN as [|? ? Hn HN']; subst. destruct n as [|b n]; [discriminate|].
    cbn [zipcons heads tails map hd tl]. rewrite !fdot_cons, !qdot_cons.
    rewrite (IH T N) by (try lia; assumption). unfold heads, tails. ring.
Qed.

(* <M^T, N> = <M, N^T> for the Frobenius inner product, every shape *)
Lemma fdot_tr c r M N : wf_mat r M -> length M = c -> wf_mat c N -> length N = r ->
  fdot (tr r M) N = fdot M (tr c N).
Proof.
  intros HM; revert c N; induction HM as [|row M Hr HM IH]; intros c N Hc HN HNr.
  - cbn [tr]. rewrite fdot_repeat_nil. reflexivity.
  - simpl in Hc. destruct c as [|c]; [discriminate|].
    cbn [tr]. rewrite (fdot_zipcons c).
    + rewrite tr_cons_cols by exact HN. rewrite fdot_cons.
      rewrite (IH c (tails N)).
      * reflexivity.
      * lia.
      * apply tails_wf. exact HN.
      * unfold tails. rewrite map_length. exact HNr.
    + rewrite tr_length by exact HM. exact Hr.
    + rewrite tr_length by exact HM. lia.
    + exact HN.
Qed.

(* ---------- weighted sums over (weight, offset) lists ---------- *)
Section WSum.
Context {B : Type} (F : B -> Qc).
Definition wsum (w : list (Qc * B)) : Qc := fold_right (fun cd acc => fst cd * F (snd cd) + acc) 0 w.
Lemma wsum_cons x a : wsum (x :: a) = fst x * F (snd x) + wsum a.
Proof. reflexivity. Qed.
Lemma wsum_app a b : wsum (a ++ b) = wsum a + wsum b.
Proof.
  induction a as [|x a IH]; [cbn [app]; unfold wsum at 2; cbn [fold_right]; ring|].
  cbn [app]. rewrite !wsum_cons, IH. ring.
Qed.
Lemma wsum_rev w : wsum (rev w) = wsum w.
Proof.
  induction w as [|x w IH]; [reflexivity|].
  cbn [rev]. rewrite wsum_app, IH, !wsum_cons. unfold wsum at 2. cbn [fold_right]. ring.
Qed.
End WSum.

Lemma wsum_ext {B} (F G : B -> Qc) w : (forall cd, In cd w -> F (snd cd) = G (snd cd)) -> wsum F w = wsum G w.
Proof.
  induction w as [|x w IH]; intros H; [reflexivity|].
  rewrite !wsum_cons, IH, (H x).
  - reflexivity.
  - left; reflexivity.
  - intros cd Hcd. apply H. right. exact Hcd.
Qed.

Lemma wsum_map {B} (F : B -> Qc) (g : B -> B) w :
  wsum F (map (fun cd => (fst cd, g (snd cd))) w) = wsum (fun d => F (g d)) w.
Proof. induction w as [|x w IH]; [reflexivity|]. cbn [map]. rewrite !wsum_cons, IH. reflexivity. Qed.

Lemma combine_rev {A B} (a : list A) (b : list B) : length a = length b ->
  combine (rev a) (rev b) = rev (combine a b).
Proof.
  revert b; induction a as [|x a IH]; intros [|y b] H; simpl in H; try discriminate; [reflexivity|].
  simpl. rewrite <- IH by lia.
  assert (HL : length (rev a) = length (rev b)) by (rewrite !rev_length; lia).
  clear IH H. revert HL. generalize (rev a) (rev b). intros u; induction u as [|p u IHu]; intros [|q v] HL; simpl in HL; try discriminate.
  - reflexivity.
  - simpl. rewrite IHu by lia. reflexivity.
Qed.

Lemma combine_map_r {A B C} (g : B -> C) (a : list A) (b : list B) :
  combine a (map g b) = map (fun cd => (fst cd, g (snd cd))) (combine a b).
Proof. revert b; induction a as [|x a IH]; intros [|y b]; simpl; try reflexivity. rewrite IH. reflexivity. Qed.

(* sum over the flipped weights = sum with the offsets read backwards *)
Lemma wsum_flip {B} (F : B -> Qc) (g : B -> B) (P : list Qc) (offs : list B) :
  length P = length offs -> rev offs = map g offs ->
  wsum F (combine (rev P) offs) = wsum (fun d => F (g d)) (combine P offs).
Proof.
  intros HL Hrev.
  rewrite <- (rev_involutive offs) at 1. rewrite combine_rev by (rewrite rev_length; exact HL).
  rewrite wsum_rev, Hrev, combine_map_r, wsum_map. reflexivity.
Qed.

Lemma rev_seq n : rev (seq 0 n) = map (fun k => (n - 1 - k)%nat) (seq 0 n).
Proof.
  induction n as [|n IH]; [reflexivity|].
  rewrite seq_S at 1. rewrite rev_app_distr. cbn [rev app Nat.add].
  rewrite IH. cbn [seq map]. f_equal; [lia|].
  rewrite <- seq_shift, map_map. apply map_ext. intros k. lia.
Qed.
