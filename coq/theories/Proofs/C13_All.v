(* C13 -- all geometries at once (the inductive type geom): round trip, projection, reported shapes,
   Samples and CUQIarray conversions. *)
From CV Require Import Base.Tac Base.Cmp Base.LinAlg Base.QcLin Model.C13_Geom Model.C13_Float
     Proofs.C13_Lists Proofs.C13_Index Proofs.C13_Geom Proofs.C13_Step Proofs.C13_MatMap.
From Coq Require Import QArith Qcanon.

Definition g_par_dim (g : geom) : nat := prodn (g_par_shape g).

Lemma g_par_shape_1d g : g_par_shape g = [g_par_dim g].
Proof. unfold g_par_dim. induction g; cbn [g_par_shape]; try (cbn [prodn fold_right]; rewrite Nat.mul_1_r; reflexivity); exact IHg. Qed.

(* ---------------- reported shapes ---------------- *)
Fixpoint fshape (g : geom) : list nat :=
  match g with
  | GCont1D n | GDiscrete n => [n]
  | GCont2D n1 n2 => [n1; n2]
  | GImage r c _ v => if v then [(r * c)%nat] else [r; c]
  | GMapped g' _ _ => fshape g'
  | GMappedLin _ M _ => [length M]      (* the shape of what the map returns *)
  | GKL N _ _ _ _ _ => [N]
  | GStep N _ _ => [N]
  end.

(* the guard: no singleton axis that squeeze() would remove *)
Fixpoint g_shape_ok (g : geom) : Prop :=
  match g with
  | GCont1D _ | GDiscrete _ => True
  | GCont2D n1 n2 => (2 <= n1)%nat /\ (2 <= n2)%nat
  | GImage r c _ _ => (0 < r * c)%nat
  | GMapped g' _ _ => g_shape_ok g'
  | GMappedLin g' M _ => g_shape_ok g' /\ fshape g' = [mat_cols M]     (* M @ f is defined for the wrapped function values *)
  | GKL N nm _ _ _ idstM => (1 <= kl_modes N nm)%nat /\ (2 <= N)%nat /\ length idstM = N
  | GStep N _ _ => (N <> 1)%nat
  end.

Lemma kl_col_length idst N coefs tau p : (forall x, length x = N -> length (idst x) = N) -> (length p <= N)%nat ->
  length (kl_par2fun_col idst N coefs tau p) = N.
Proof.
  intros Hi Hp. unfold kl_par2fun_col. rewrite map_length. apply Hi.
  unfold pad_to. rewrite app_length, repeat_length. pose proof (map2_length (fun c x => (c * x / tau)%Qc) coefs p). lia.
Qed.


(* geometries whose function values are vectors (one axis) and whose maps act on the columns of a batch *)
Fixpoint g_is1d (g : geom) : Prop :=
  match g with
  | GCont1D _ | GDiscrete _ | GKL _ _ _ _ _ _ | GStep _ _ _ => True
  | GMapped g' _ _ | GMappedLin g' _ _ => g_is1d g'
  | GCont2D _ _ | GImage _ _ _ _ => False
  end.
Definition fdim (g : geom) : nat := prodn (fshape g).

Lemma fshape_1d g : g_is1d g -> fshape g = [fdim g].
Proof.
  unfold fdim. induction g; cbn [g_is1d fshape]; intros H; try contradiction;
    try (cbn [prodn fold_right]; rewrite Nat.mul_1_r; reflexivity); apply IHg; exact H.
Qed.

(* shapes on BATCHES: par2fun of k parameter columns has k function columns of the reported fun_dim *)
Theorem g_par2fun_vb g : g_is1d g -> g_shape_ok g -> forall k (a b : arr Qc),
  shp a = vb_shape (g_par_dim g) k -> length (dat a) = (g_par_dim g * k)%nat -> g_par2fun g a = Some b ->
  shp b = vb_shape (fdim g) k /\ length (dat b) = (fdim g * k)%nat.
Proof.
  induction g as [n|n|n1 n2|r c o v|g IH fm fi|g IH M Mi|N nm coefs tau dstM idstM|N idx pr]; intros H1 Hok k a b Hs Hl Hb;
    unfold g_par_dim, fdim in *; cbn [g_is1d g_par_shape g_par2fun fshape g_shape_ok] in *; try contradiction.
  - inversion Hb; subst b. split; assumption.
  - inversion Hb; subst b. split; assumption.
  - destruct (g_par2fun g a) as [b'|] eqn:Eb; [|discriminate]. cbn [option_map] in Hb. inversion Hb; subst b.
    unfold arr_map. cbn [shp dat]. rewrite map_length. apply (IH H1 Hok k a b'); assumption.
  - destruct Hok as [Hok HM]. destruct (g_par2fun g a) as [b'|] eqn:Eb; [|discriminate]. cbn [obind] in Hb.
    destruct (IH H1 Hok k a b' Hs Hl Eb) as [Sb Lb]. rewrite HM in Sb, Lb.
    replace (prodn [mat_cols M]) with (mat_cols M) in Sb, Lb by (cbn; lia).
    rewrite (matmap_vb M (mat_cols M) k b' eq_refl Sb Lb) in Hb. inversion Hb; subst b. cbn [shp dat].
    replace (prodn [length M]) with (length M) by (cbn; lia).
    split; [reflexivity|]. rewrite of_cols_length, map_length, cols_of_length. reflexivity.
  - destruct Hok as [Hm [HN Hil]].
    replace (prodn [kl_modes N nm]) with (kl_modes N nm) in Hs, Hl by (cbn; lia).
    rewrite kl_par2fun_colwise in Hb by lia. rewrite (colwise_eq N (kl_modes N nm) _ k) in Hb by (try assumption; lia).
    inversion Hb; subst b. cbn [shp dat]. replace (prodn [N]) with N by (cbn; lia).
    split; [reflexivity|]. rewrite of_cols_length, map_length, cols_of_length. reflexivity.
  - replace (prodn [length idx]) with (length idx) in Hs, Hl by (cbn; lia).
    rewrite step_par2fun_colwise in Hb. rewrite (colwise_eq N (length idx) _ k) in Hb by assumption.
    inversion Hb; subst b. cbn [shp dat]. replace (prodn [N]) with N by (cbn; lia).
    split; [reflexivity|]. rewrite of_cols_length, map_length, cols_of_length. reflexivity.
Qed.

(* the exact guard of the round trip: the complement of the refuted classes (singleton squeezes, broken step
   partitions), plus what is needed for an inverse to exist at all (imap given, scale non-zero, non-zero KL
   coefficients) and the law of the external transforms *)
Fixpoint g_ok (g : geom) : Prop :=
  match g with
  | GCont1D _ | GDiscrete _ => True
  | GCont2D n1 n2 => (2 <= n1 * n2)%nat
  | GImage r c _ _ => (0 < r * c)%nat
  | GMapped g' fm fi => (exists f', fi = Some f' /\ forall x, f' (fm x) = x) /\ g_ok g'
  | GMappedLin g' M Mi =>      (* a LEFT inverse on vectors of the wrapped function size: R @ (M @ x) = x *)
      (exists R, Mi = Some R /\ mat_cols R = length M /\ length R = mat_cols M /\
                 forall x, length x = mat_cols M -> qmatvec R (qmatvec M x) = x) /\
      g_is1d g' /\ g_shape_ok g' /\ fshape g' = [mat_cols M] /\ g_ok g'
  | GKL N nm coefs tau dstM idstM =>
      (2 <= kl_modes N nm)%nat /\ length coefs = kl_modes N nm /\ Forall (fun c => c <> 0%Qc) coefs /\ tau <> 0%Qc /\
      length idstM = N /\
      (forall x, length x = N -> qmatvec dstM (qmatvec idstM x) = map (fun v => qcn 2 * qcn N * v)%Qc x)
  | GStep N idx _ => step_wf N idx /\ (N <> 1)%nat /\ (length idx <> 1)%nat
  end.

(* geometries whose maps act on the columns of a batch in BOTH directions (Image2D.fun2par does not) *)
Fixpoint g_colwise (g : geom) : bool :=
  match g with GImage _ _ _ v => v | GMapped g' _ _ | GMappedLin g' _ _ => g_colwise g' | _ => true end.

(* imap after map, on the values that occur *)
Lemma arr_map_inv (fm f' : Qc -> Qc) (b : arr Qc) : Forall (fun v => f' (fm v) = v) (dat b) ->
  arr_map f' (arr_map fm b) = b.
Proof.
  intros H. destruct b as [s x]. unfold arr_map. cbn [shp dat] in *. f_equal.
  rewrite map_map. rewrite map_ext_in with (g := fun v => v); [apply map_id|].
  intros v Hv. rewrite Forall_forall in H. apply H. exact Hv.
Qed.

(* one MappedGeometry layer over any geometry, ANY map/imap pair that is inverse on the function values that occur *)
Theorem mapped_roundtrip_pointwise g (fm f' : Qc -> Qc) (a b : arr Qc) :
  g_par2fun g a = Some b -> Forall (fun v => f' (fm v) = v) (dat b) -> g_fun2par g b = Some a ->
  obind (g_par2fun (GMapped g fm (Some f')) a) (g_fun2par (GMapped g fm (Some f'))) = Some a.
Proof.
  intros Hb Hinv Hback. cbn [g_par2fun g_fun2par]. rewrite Hb. cbn [option_map obind].
  rewrite arr_map_inv by exact Hinv. exact Hback.
Qed.

(* instances: affine maps with non-zero slope, and Moebius maps (rational, inverse only away from the pole) *)
Lemma affine_inverse (ma mb x : Qc) : ma <> 0%Qc -> ((ma * x + mb - mb) / ma)%Qc = x.
Proof. intros H. field. exact H. Qed.

Lemma moebius_inverse (a b c d x : Qc) : (a * d - b * c)%Qc <> 0%Qc -> (c * x + d)%Qc <> 0%Qc ->
  let y := ((a * x + b) / (c * x + d))%Qc in ((d * y - b) / (- c * y + a))%Qc = x.
Proof.
  intros Hdet Hden y. unfold y.
  assert (N1 : (d * ((a * x + b) / (c * x + d)) - b)%Qc = ((a * d - b * c) * x / (c * x + d))%Qc) by (field; exact Hden).
  assert (N2 : (- c * ((a * x + b) / (c * x + d)) + a)%Qc = ((a * d - b * c) / (c * x + d))%Qc) by (field; exact Hden).
  rewrite N1, N2. field. split; assumption.
Qed.

(* fun2par(par2fun(p)) = p : a vector (k = 1) for every geometry, a batch of k columns for the column-wise ones *)
Theorem g_roundtrip g : forall k (a : arr Qc), g_ok g -> (k = 1%nat \/ g_colwise g = true) ->
  shp a = vb_shape (g_par_dim g) k -> length (dat a) = (g_par_dim g * k)%nat ->
  obind (g_par2fun g a) (g_fun2par g) = Some a.
Proof.
  induction g as [n|n|n1 n2|r c o v|g IH fm fi|g IH M Mi|N nm coefs tau dstM idstM|N idx pr]; intros k a Hok Hk Hs Hl;
    unfold g_par_dim in Hs, Hl; cbn [g_par_shape g_par2fun g_fun2par] in *; try reflexivity.
  - (* Continuous2D *)
    replace (prodn [(n1 * n2)%nat]) with (n1 * n2)%nat in Hs by (cbn; lia).
    apply (cont2d_roundtrip 0%Qc n1 n2 k); assumption.
  - (* Image2D *)
    destruct v; [reflexivity|]. destruct Hk as [->|Hk]; [|cbn in Hk; discriminate].
    replace (prodn [(r * c)%nat]) with (r * c)%nat in Hs, Hl by (cbn; lia).
    apply image_roundtrip_par; [exact Hok | exact Hs | lia].
  - (* MappedGeometry *)
    destruct Hok as [[f' [-> Hinv]] Hok]. cbn [g_colwise] in Hk. specialize (IH k a Hok Hk Hs Hl).
    destruct (g_par2fun g a) as [b|]; [|discriminate]. cbn [option_map obind] in *.
    rewrite arr_map_inv by (apply Forall_forall; intros v _; apply Hinv). exact IH.
  - (* MappedGeometry with a matrix map *)
    destruct Hok as [[R [-> [HR1 [HR2 Hinv]]]] [H1d [Hsh [Hfs Hok]]]]. cbn [g_colwise] in Hk.
    specialize (IH k a Hok Hk Hs Hl).
    destruct (g_par2fun g a) as [b|] eqn:Eb; [|discriminate]. cbn [obind] in *.
    destruct (g_par2fun_vb g H1d Hsh k a b Hs Hl Eb) as [Sb Lb]. unfold fdim in Sb, Lb. rewrite Hfs in Sb, Lb.
    replace (prodn [mat_cols M]) with (mat_cols M) in Sb, Lb by (cbn; lia).
    pose proof (matmap_left_inverse M R (mat_cols M) k b eq_refl HR1 HR2 Hinv Sb Lb) as E.
    destruct (matmap M b) as [c|]; [|discriminate]. cbn [obind] in *. rewrite E. cbn [obind]. exact IH.
  - (* KLExpansion *)
    destruct Hok as [Hm [Hc [Hnz [Ht [Hil Hlaw]]]]].
    replace (prodn [kl_modes N nm]) with (kl_modes N nm) in Hs, Hl by (cbn; lia).
    apply (kl_roundtrip (qmatvec dstM) (qmatvec idstM) N) with (k := k); try assumption.
    + intros x _. unfold qmatvec. rewrite matvec_length. exact Hil.
    + apply kl_modes_le.
  - (* StepExpansion *)
    destruct Hok as [Hwf [HN Hn]].
    replace (prodn [length idx]) with (length idx) in Hs, Hl by (cbn; lia).
    apply (step_roundtrip N idx pr k); assumption.
Qed.

(* par2fun(fun2par(par2fun(p))) = par2fun(p): fun2par is a projection onto the range of par2fun *)
Theorem g_projection g k (a : arr Qc) : g_ok g -> (k = 1%nat \/ g_colwise g = true) ->
  shp a = vb_shape (g_par_dim g) k -> length (dat a) = (g_par_dim g * k)%nat ->
  obind (obind (g_par2fun g a) (g_fun2par g)) (g_par2fun g) = g_par2fun g a.
Proof. intros Hok Hk Hs Hl. rewrite (g_roundtrip g k a) by assumption. reflexivity. Qed.

(* mapping back and forth once more changes nothing: whenever fun2par(f) is an admissible parameter array p,
   fun2par(par2fun(p)) = p *)
Theorem g_fun2par_idempotent g k (f p : arr Qc) : g_ok g -> (k = 1%nat \/ g_colwise g = true) ->
  g_fun2par g f = Some p -> shp p = vb_shape (g_par_dim g) k -> length (dat p) = (g_par_dim g * k)%nat ->
  obind (obind (g_fun2par g f) (g_par2fun g)) (g_fun2par g) = g_fun2par g f.
Proof. intros Hok Hk Hf Hs Hl. rewrite Hf. cbn [obind]. apply (g_roundtrip g k p); assumption. Qed.

(* ---------------- reported shapes (theorems) ---------------- *)
(* par2fun of a parameter vector of the reported par_shape has the reported fun_shape *)
Theorem g_par2fun_shape g : forall (a : arr Qc), g_shape_ok g -> shp a = g_par_shape g -> length (dat a) = g_par_dim g ->
  exists b, g_par2fun g a = Some b /\ shp b = fshape g /\ length (dat b) = prodn (fshape g).
Proof.
  induction g as [n|n|n1 n2|r c o v|g IH fm fi|g IH M Mi|N nm coefs tau dstM idstM|N idx pr]; intros a Hok Hs Hl;
    unfold g_par_dim in Hl; cbn [g_par_shape g_par2fun fshape g_shape_ok] in *.
  - exists a. rewrite Hs. repeat split; assumption.
  - exists a. rewrite Hs. repeat split; assumption.
  - destruct Hok as [H1 H2]. exists (mkArr [n1; n2] (dat a)).
    split; [apply cont2d_par2fun_vec; assumption|]. split; [reflexivity|]. cbn [dat]. rewrite Hl. cbn; lia.
  - destruct v.
    + exists a. cbn [image_par2fun]. rewrite Hs. repeat split; assumption.
    + replace (prodn [(r * c)%nat]) with (r * c)%nat in Hl by (cbn; lia).
      rewrite image_par2fun_vec by assumption. eexists. split; [reflexivity|]. split; [reflexivity|]. cbn [dat].
      replace (prodn [r; c]) with (r * c)%nat by (cbn; lia).
      destruct o; [exact Hl|]. rewrite from_F_length. cbn; lia.
  - destruct (IH a Hok Hs Hl) as [b [E1 [E2 E3]]]. rewrite E1. cbn [option_map].
    eexists. split; [reflexivity|]. unfold arr_map. cbn [shp dat]. rewrite map_length. split; assumption.
  - destruct Hok as [Hok HM]. destruct (IH a Hok Hs Hl) as [b [E1 [E2 E3]]]. rewrite E1. cbn [obind].
    rewrite matmap_vec by (rewrite E2; exact HM). eexists. split; [reflexivity|]. split; [reflexivity|]. cbn [dat].
    rewrite qmatvec_length. cbn [prodn fold_right]. rewrite Nat.mul_1_r. reflexivity.
  - destruct Hok as [Hm [HN Hil]].
    replace (prodn [kl_modes N nm]) with (kl_modes N nm) in Hl by (cbn; lia).
    assert (Hidst : forall x, length x = N -> length (qmatvec idstM x) = N) by (intros x _; unfold qmatvec; rewrite matvec_length; exact Hil).
    rewrite kl_par2fun_colwise by lia.
    rewrite colwise_vec; try assumption; try lia.
    + eexists. split; [reflexivity|]. split; [reflexivity|]. cbn [dat].
      rewrite kl_col_length; [cbn; lia | exact Hidst | rewrite Hl; apply kl_modes_le].
    + apply kl_col_length; [exact Hidst | rewrite Hl; apply kl_modes_le].
  - replace (prodn [length idx]) with (length idx) in Hl by (cbn; lia).
    rewrite step_par2fun_colwise. rewrite colwise_vec; try assumption; try apply step_par2fun_col_length.
    eexists. split; [reflexivity|]. split; [reflexivity|]. cbn [dat]. rewrite step_par2fun_col_length. cbn; lia.
Qed.

Lemma ones_ok s : shp (ones s) = s /\ length (dat (ones s)) = prodn s.
Proof. unfold ones. cbn [shp dat]. rewrite repeat_length. split; reflexivity. Qed.

(* fun_shape (declared, or inferred from par2fun(ones) for MappedGeometry) is the shape par2fun produces *)
Theorem g_fun_shape_eq g : g_shape_ok g -> g_fun_shape g = Some (fshape g).
Proof.
  intros Hok.
  assert (Hgen : forall g0, g_shape_ok g0 -> option_map shp (g_par2fun g0 (ones [prodn (g_par_shape g0)])) = Some (fshape g0)).
  { intros g0 H0. pose proof (ones_ok [prodn (g_par_shape g0)]) as [O1 O2].
    destruct (g_par2fun_shape g0 (ones [prodn (g_par_shape g0)])) as [b [E1 [E2 E3]]].
    - exact H0.
    - rewrite O1. symmetry. apply g_par_shape_1d.
    - rewrite O2. unfold g_par_dim. cbn; lia.
    - rewrite E1. cbn [option_map]. rewrite E2. reflexivity. }
  destruct g; cbn [g_fun_shape]; try reflexivity; apply Hgen; exact Hok.
Qed.

(* fun2vec / vec2fun are the identity when the function shape is one-dimensional *)
Lemma g_vec2fun_1d g (b : arr Qc) : g_shape_ok g -> (length (fshape g) <= 1)%nat -> g_vec2fun g b = Some b.
Proof.
  induction g; cbn [fshape g_vec2fun g_shape_ok]; intros Hok H; try reflexivity.
  - cbn in H. lia.
  - destruct visual; [reflexivity | cbn in H; lia].
  - apply IHg; assumption.
  - destruct Hok as [Hok HM]. apply IHg; [exact Hok | rewrite HM; cbn; lia].
Qed.

(* Image2D: vec2fun / fun2vec are mutually inverse (single image) *)
Theorem g_vec_roundtrip_image r c o v (a : arr Qc) : (0 < r * c)%nat -> shp a = [(r * c)%nat] -> length (dat a) = (r * c)%nat ->
  obind (g_vec2fun (GImage r c o v) a) (g_fun2vec (GImage r c o v)) = Some a.
Proof. intros. cbn [g_vec2fun g_fun2vec]. apply image_roundtrip_par; assumption. Qed.

(* ---------------- Samples ---------------- *)
Lemma sample_slice_app pre Ns X i : sample_slice (mkArr (pre ++ [Ns]) X) i = mkArr pre (col_of 0%Qc (prodn pre) Ns i X).
Proof. unfold sample_slice. cbn [shp dat]. rewrite last_last, removelast_last. reflexivity. Qed.

Lemma bcast_rev_refl l : bcast_rev l l = true.
Proof. induction l as [|a l IH]; [reflexivity|]. cbn [bcast_rev]. rewrite Nat.eqb_refl, IH. reflexivity. Qed.
Lemma bcast_ok_refl s : bcast_ok s s = true.
Proof. unfold bcast_ok. rewrite bcast_rev_refl, Nat.eqb_refl. reflexivity. Qed.

Lemma convert_all_spec conv tgt pre Ns X (G : nat -> list Qc) :
  (forall i, (i < Ns)%nat -> exists r, conv (mkArr pre (col_of 0%Qc (prodn pre) Ns i X)) = Some r /\ shp r = tgt /\ dat r = G i) ->
  convert_all conv tgt (mkArr (pre ++ [Ns]) X) = Some (mkArr (tgt ++ [Ns]) (of_cols 0%Qc (prodn tgt) (map G (seq 0 Ns)))).
Proof.
  intros H. unfold convert_all. cbn [shp]. rewrite last_last.
  rewrite (omap_list_some _ G).
  - cbn [option_map]. unfold stack_last. rewrite map_length, seq_length. reflexivity.
  - intros i Hi. apply in_seq in Hi. rewrite sample_slice_app. destruct (H i ltac:(lia)) as [r [E1 [E2 E3]]].
    rewrite E1. cbn [obind]. rewrite E2, bcast_ok_refl, E3. reflexivity.
Qed.

(* parameter samples -> function-value samples -> parameter samples: lossless, and sample i of the function
   values is par2fun of sample i (any geometry whose per-sample maps satisfy the round trip) *)
Theorem samples_lossless g m fs Ns X :
  g_par_shape g = [m] -> g_fun_shape g = Some fs -> length X = (m * Ns)%nat ->
  (forall p, length p = m -> exists b, g_par2fun g (mkArr [m] p) = Some b /\ shp b = fs /\ length (dat b) = prodn fs /\
        g_fun2par g b = Some (mkArr [m] p) /\ ((length fs <= 1)%nat -> g_vec2fun g b = Some b)) ->
  let S := mkS (mkArr [m; Ns] X) true true in
  exists F, samples_funvals g S = Some F /\ s_is_par F = false /\ shp (s_arr F) = fs ++ [Ns] /\
    (forall i, (i < Ns)%nat -> g_par2fun g (sample_slice (s_arr S) i) = Some (sample_slice (s_arr F) i)) /\
    samples_parameters g F = Some S.
Proof.
  intros Hps Hfs HX Hper S.
  set (P := fun i => col_of 0%Qc m Ns i X).
  assert (HPl : forall i, length (P i) = m) by (intros i; apply col_of_length).
  set (G := fun i => match g_par2fun g (mkArr [m] (P i)) with Some b => dat b | None => [] end).
  assert (HG : forall i, exists b, g_par2fun g (mkArr [m] (P i)) = Some b /\ shp b = fs /\ dat b = G i /\ length (G i) = prodn fs /\
                 g_fun2par g b = Some (mkArr [m] (P i)) /\ ((length fs <= 1)%nat -> g_vec2fun g b = Some b)).
  { intros i. destruct (Hper (P i) (HPl i)) as [b [E1 [E2 [E3 [E4 E5]]]]]. exists b. unfold G. rewrite E1.
    repeat split; assumption. }
  assert (Hm1 : prodn [m] = m) by (cbn; lia).
  set (D := of_cols 0%Qc (prodn fs) (map G (seq 0 Ns))).
  assert (Hfun : convert_all (g_par2fun g) fs (mkArr ([m] ++ [Ns]) X) = Some (mkArr (fs ++ [Ns]) D)).
  { apply convert_all_spec. intros i Hi. rewrite Hm1. destruct (HG i) as [b [E1 [E2 [E3 _]]]]. exists b. repeat split; assumption. }
  exists (mkS (mkArr (fs ++ [Ns]) D) false (length (fs ++ [Ns]) <=? 2)%nat).
  assert (Hslice : forall i, (i < Ns)%nat -> forall b, shp b = fs -> dat b = G i -> sample_slice (mkArr (fs ++ [Ns]) D) i = b).
  { intros i Hi b E2 E3. rewrite sample_slice_app. unfold D.
    pose proof (col_of_of_cols 0%Qc (prodn fs) (map G (seq 0 Ns)) i) as E.
    rewrite map_length, seq_length in E. rewrite E.
    - rewrite nth_map_seq by exact Hi. destruct b as [s x]; cbn [shp dat] in *; subst. reflexivity.
    - exact Hi.
    - rewrite nth_map_seq by exact Hi. destruct (HG i) as [_ [_ [_ [_ [E4 _]]]]]. exact E4. }
  split; [|split; [reflexivity|split; [reflexivity|split]]].
  - unfold samples_funvals, S. cbn [s_is_par s_is_vec s_arr negb andb]. rewrite Hfs.
    change [m; Ns] with ([m] ++ [Ns]). rewrite Hfun. reflexivity.
  - intros i Hi. unfold S. cbn [s_arr]. change [m; Ns] with ([m] ++ [Ns]). rewrite sample_slice_app, Hm1.
    destruct (HG i) as [b [E1 [E2 [E3 _]]]]. fold (P i). rewrite E1. f_equal. symmetry. apply Hslice; assumption.
  - unfold samples_parameters. cbn [s_is_par s_is_vec s_arr].
    rewrite Hps, Hm1.
    rewrite (convert_all_spec _ [m] fs Ns D P).
    + cbn [option_map]. unfold S. f_equal. f_equal. f_equal. cbn [app]. rewrite Hm1.
      change (map P (seq 0 Ns)) with (cols_of 0%Qc m Ns X). apply of_cols_cols_of. exact HX.
    + intros i Hi. destruct (HG i) as [b [E1 [E2 [E3 [E4 [E5 E6]]]]]].
      pose proof (Hslice i Hi b E2 E3) as Es. rewrite sample_slice_app in Es. rewrite Es.
      exists (mkArr [m] (P i)). split; [|split; reflexivity].
      destruct (length (fs ++ [Ns]) <=? 2)%nat eqn:Ev; [|exact E5].
      apply Nat.leb_le in Ev. rewrite app_length in Ev. cbn [length] in Ev.
      rewrite E6 by lia. cbn [obind]. exact E5.
Qed.

(* the hypothesis of samples_lossless holds for every geometry inside both guards *)
Theorem g_per_sample g : g_ok g -> g_shape_ok g -> forall p, length p = g_par_dim g ->
  exists b, g_par2fun g (mkArr [g_par_dim g] p) = Some b /\ shp b = fshape g /\ length (dat b) = prodn (fshape g) /\
    g_fun2par g b = Some (mkArr [g_par_dim g] p) /\ ((length (fshape g) <= 1)%nat -> g_vec2fun g b = Some b).
Proof.
  intros Hok Hsh p Hp.
  destruct (g_par2fun_shape g (mkArr [g_par_dim g] p)) as [b [E1 [E2 E3]]]; cbn [shp dat]; try assumption.
  - symmetry. apply g_par_shape_1d.
  - exists b. split; [exact E1|]. split; [exact E2|]. split; [exact E3|]. split; [|intros H; apply g_vec2fun_1d; assumption].
    pose proof (g_roundtrip g 1 (mkArr [g_par_dim g] p) Hok (or_introl eq_refl)) as R. cbn [shp dat] in R.
    rewrite E1 in R. cbn [obind] in R. apply R; [reflexivity | lia].
Qed.

Theorem g_samples_lossless g Ns X : g_ok g -> g_shape_ok g -> length X = (g_par_dim g * Ns)%nat ->
  let S := mkS (mkArr [g_par_dim g; Ns] X) true true in
  exists F, samples_funvals g S = Some F /\ s_is_par F = false /\ shp (s_arr F) = fshape g ++ [Ns] /\
    (forall i, (i < Ns)%nat -> g_par2fun g (sample_slice (s_arr S) i) = Some (sample_slice (s_arr F) i)) /\
    samples_parameters g F = Some S.
Proof.
  intros Hok Hsh HX. apply samples_lossless; try assumption.
  - apply g_par_shape_1d.
  - apply g_fun_shape_eq. exact Hsh.
  - apply g_per_sample; assumption.
Qed.

(* ---------------- CUQIarray ---------------- *)
Theorem cuqiarray_lossless g (a : arr Qc) : g_ok g -> shp a = [g_par_dim g] -> length (dat a) = g_par_dim g ->
  exists f, cuqiarray_funvals g a true = Some (f, false) /\ g_par2fun g a = Some f /\
            cuqiarray_parameters g f false = Some (a, true).
Proof.
  intros Hok Hs Hl.
  pose proof (g_roundtrip g 1 a Hok (or_introl eq_refl)) as R. unfold vb_shape in R. cbn [Nat.eqb] in R.
  specialize (R Hs ltac:(lia)).
  destruct (g_par2fun g a) as [f|] eqn:Ef; [|discriminate]. cbn [obind] in R.
  exists f. unfold cuqiarray_funvals, cuqiarray_parameters. rewrite Ef. cbn [option_map]. split; [reflexivity|]. split; [reflexivity|].
  rewrite R. cbn [obind]. rewrite Hs. reflexivity.
Qed.
