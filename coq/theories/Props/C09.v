(* C09 -- Gibbs sweeps draw each block from its conditional given the current other blocks.
   Property theorems only: each is closed by `exact <lemma>` and followed by Print Assumptions.

   Reading guide (Model/C09_Gibbs.v).  `joint : list V -> L` is ANY joint target as a function of the full assignment
   of the blocks (par_names order); `cond joint cur i` is the joint conditioned on all other current values;
   `point/reinit/trans/tune` is ANY block-sampler interface (current point, HybridGibbs' re-targeting dance, one
   transition incl. the acceptance bookkeeping, tuning); `nst i` the configured number of transitions of block i;
   `rs i j` the j-th random item handed to block i in the sweep.  `sweep` = HybridGibbs.step; it returns the new state
   and one event per sampler.step() call: block, transition number, current_samples at that moment, the target
   the sampler holds and the sampler's state just before the transition.  The legacy cuqi.sampler.Gibbs is the
   instance with stateless samplers (`lsweep`).  All statements are for every number of blocks, every assignment of
   samplers and step counts, every script and every history. *)
From CV Require Import Base.Tac Base.Cmp Model.C09_Gibbs Proofs.C09_Wiring Proofs.C09_Run Proofs.C09_Legacy Proofs.C09_Finite Proofs.C09_Cache Proofs.C09_Real Proofs.C09_Examples.
From Coq Require Import QArith Qcanon.
Local Open Scope nat_scope.

(* At every transition of block i in a sweep from `st` (old values) to `new`: current_samples are new_0..new_{i-1},
   old_i..old_{k-1}, and the target the sampler holds is what the conditioning operation returns for exactly those other
   values (the already updated blocks new, the rest old).  `condf cur i` is the log-density of the object
   self.target(others) returns; UNDER THE C01 ONE-STEP LAW for that operation (hypothesis: conditioning the joint on the
   others and evaluating at v = evaluating the joint at the full assignment; C01 proves it for its model of
   JointDistribution) the target is the joint at (new blocks before i, v, old blocks after i). *)
Theorem C09_target_is_current_conditional : forall (V L St R : Type) (condf : list V -> nat -> V -> L) (joint : list V -> L)
    (point : St -> V) (reinit : nat -> (V -> L) -> St -> St)
    (trans : nat -> (V -> L) -> St -> R -> St) (nst : nat -> nat),
  (forall cur i x, nth_error cur i = Some x -> forall v, condf cur i v = joint (upd cur i v)) ->
  forall (rs : nat -> nat -> R) (st : @gst V St),
  length (g_ss st) = length (g_cur st) ->
  forall e, In e (snd (sweep condf point reinit trans nst rs st)) ->
    let i := e_blk e in
    let new := g_cur (fst (sweep condf point reinit trans nst rs st)) in
    i < length (g_cur st) /\
    e_cur e = firstn i new ++ skipn i (g_cur st) /\
    e_tgt e = condf (e_cur e) i /\
    forall v, e_tgt e v = joint (firstn i new ++ v :: skipn (S i) (g_cur st)).
Proof.
  intros V L St R condf joint point reinit trans nst Hc01 rs st Hwf e He.
  destruct (sweep_target_is_current_conditional condf point reinit trans nst rs st Hwf e He) as (H1 & H2 & H3).
  repeat split; auto. exact (sweep_target_is_joint condf point reinit trans nst rs st Hwf joint Hc01 e He).
Qed.
Print Assumptions C09_target_is_current_conditional.

(* ... and this holds at EVERY transition of a whole run (any sequence of sample / warm-up calls, tuning in between): the
   target a block sampler holds is the joint evaluated at current_samples-at-that-moment with the block's own entry replaced *)
Theorem C09_run_targets : forall (V L St R : Type) (condf : list V -> nat -> V -> L) (joint : list V -> L)
    (point : St -> V) (reinit : nat -> (V -> L) -> St -> St)
    (trans : nat -> (V -> L) -> St -> R -> St) (tune : nat -> nat -> nat -> St -> St) (nst : nat -> nat),
  (forall cur i y, nth_error cur i = Some y -> forall v, condf cur i v = joint (upd cur i v)) ->
  forall rnd ops t0 (x : @run V L St),
    length (g_ss (r_st x)) = length (g_cur (r_st x)) -> r_log x = [] ->
    Forall (fun e => e_blk e < length (e_cur e) /\ forall v, e_tgt e v = joint (upd (e_cur e) (e_blk e) v))
           (r_log (run_ops condf point reinit trans tune nst rnd ops t0 x)).
Proof.
  intros V L St R condf joint point reinit trans tune nst Hc01 rnd ops t0 x Hwf Hlog.
  assert (H0 : Forall (ev_conditional condf) (r_log x)) by (rewrite Hlog; constructor).
  pose proof (run_targets condf point reinit trans tune nst rnd ops t0 x Hwf H0) as HA.
  pose proof (run_targets_joint condf point reinit trans tune nst joint rnd ops t0 x Hc01 Hwf H0) as HB.
  apply Forall_forall. intros e He. split.
  - exact (proj2 (proj1 (Forall_forall _ _) HA e He)).
  - exact (proj1 (Forall_forall _ _) HB e He).
Qed.
Print Assumptions C09_run_targets.

(* Every block is visited exactly once per sweep, in par_names order, and block b receives exactly nst b transitions,
   numbered 0 .. nst b - 1 (the whole sequence of sampler.step() calls of the sweep is determined). *)
Theorem C09_all_visited_once : forall (V L St R : Type) (condf : list V -> nat -> V -> L) (point : St -> V) (reinit : nat -> (V -> L) -> St -> St)
    (trans : nat -> (V -> L) -> St -> R -> St) (tune : nat -> nat -> nat -> St -> St) (nst : nat -> nat),
  forall (rs : nat -> nat -> R) (st : @gst V St),
  length (g_ss st) = length (g_cur st) ->
  map (fun e => (e_blk e, e_j e)) (snd (sweep condf point reinit trans nst rs st))
  = flat_map (fun b => map (pair b) (seq 0 (nst b))) (seq 0 (length (g_cur st))).
Proof. intros V L St R condf point reinit trans tune nst. exact (sweep_all_visited_once condf point reinit trans nst). Qed.
Print Assumptions C09_all_visited_once.

(* The first transition of every block update starts from that block's current value -- for block samplers whose
   re-targeting keeps the current point, when the samplers sit at the current values (C09_sync_invariant: they always do) *)
Theorem C09_starts_from_current : forall (V L St R : Type) (condf : list V -> nat -> V -> L) (point : St -> V) (reinit : nat -> (V -> L) -> St -> St)
    (trans : nat -> (V -> L) -> St -> R -> St) (tune : nat -> nat -> nat -> St -> St) (nst : nat -> nat),
  forall (rs : nat -> nat -> R) (st : @gst V St),
  length (g_ss st) = length (g_cur st) ->
  (forall i t s, point (reinit i t s) = point s) ->
  (forall i s, nth_error (g_ss st) i = Some s -> nth_error (g_cur st) i = Some (point s)) ->
  forall e, In e (snd (sweep condf point reinit trans nst rs st)) -> e_j e = 0 ->
    nth_error (g_cur st) (e_blk e) = Some (point (e_s e)).
Proof. intros V L St R condf point reinit trans tune nst. exact (sweep_starts_from_current condf point reinit trans nst). Qed.
Print Assumptions C09_starts_from_current.

Theorem C09_sync_invariant : forall (V L St R : Type) (condf : list V -> nat -> V -> L) (point : St -> V) (reinit : nat -> (V -> L) -> St -> St)
    (trans : nat -> (V -> L) -> St -> R -> St) (tune : nat -> nat -> nat -> St -> St) (nst : nat -> nat),
  (forall i t s, point (reinit i t s) = point s) ->
  (forall i a b s, point (tune i a b s) = point s) ->
  forall rnd ops t0 (x : @run V L St),
    insync point (r_st x) -> insync point (r_st (run_ops condf point reinit trans tune nst rnd ops t0 x)).
Proof. intros V L St R condf point reinit trans tune nst. exact (run_ops_insync condf point reinit trans tune nst). Qed.
Print Assumptions C09_sync_invariant.

(* k transitions: the sampler state at transition number j of block i is the block's own (old) sampler, re-targeted to
   the current conditional, advanced j times on that conditional with the block's random items 0..j-1; after the sweep
   the block's sampler has made exactly nst i transitions and the block's new value is that sampler's point. *)
Theorem C09_k_transitions : forall (V L St R : Type) (condf : list V -> nat -> V -> L) (point : St -> V) (reinit : nat -> (V -> L) -> St -> St)
    (trans : nat -> (V -> L) -> St -> R -> St) (tune : nat -> nat -> nat -> St -> St) (nst : nat -> nat),
  forall (rs : nat -> nat -> R) (st : @gst V St),
  length (g_ss st) = length (g_cur st) ->
  (forall e, In e (snd (sweep condf point reinit trans nst rs st)) ->
     let i := e_blk e in
     exists s, nth_error (g_ss st) i = Some s /\ e_j e < nst i /\
               e_s e = iter_trans trans i (e_tgt e) (e_j e) 0 (rs i) (reinit i (e_tgt e) s)) /\
  (forall i s, nth_error (g_ss st) i = Some s ->
     let new := g_cur (fst (sweep condf point reinit trans nst rs st)) in
     let t := condf (firstn i new ++ skipn i (g_cur st)) i in
     let s' := iter_trans trans i t (nst i) 0 (rs i) (reinit i t s) in
     nth_error (g_ss (fst (sweep condf point reinit trans nst rs st))) i = Some s' /\ nth_error new i = Some (point s')).
Proof.
  intros V L St R condf point reinit trans tune nst rs st H. split.
  - exact (sweep_k_transitions condf point reinit trans nst rs st H).
  - exact (sweep_result condf point reinit trans nst rs st H).
Qed.
Print Assumptions C09_k_transitions.

(* sample(n) appends exactly n entries to the stored samples, touches no earlier entry, entry m is the tuple of
   values after sweep m, and the last stored entry is the current state (what a later call continues from) *)
Theorem C09_stored_is_post_sweep : forall (V L St R : Type) (condf : list V -> nat -> V -> L) (point : St -> V) (reinit : nat -> (V -> L) -> St -> St)
    (trans : nat -> (V -> L) -> St -> R -> St) (tune : nat -> nat -> nat -> St -> St) (nst : nat -> nat),
  forall rnd n t0 (x : @run V L St),
  length (r_stored (sample_n condf point reinit trans nst rnd n t0 x)) = length (r_stored x) + n /\
  firstn (length (r_stored x)) (r_stored (sample_n condf point reinit trans nst rnd n t0 x)) = r_stored x /\
  (forall m, m < n -> nth_error (r_stored (sample_n condf point reinit trans nst rnd n t0 x)) (length (r_stored x) + m)
                      = Some (g_cur (r_st (sample_n condf point reinit trans nst rnd (S m) t0 x)))) /\
  (0 < n -> last_col (r_stored (sample_n condf point reinit trans nst rnd n t0 x)) = Some (g_cur (r_st (sample_n condf point reinit trans nst rnd n t0 x)))).
Proof.
  intros V L St R condf point reinit trans tune nst rnd n t0 x.
  destruct (stored_is_post_sweep condf point reinit trans nst rnd n t0 x) as (H1 & H2 & H3).
  repeat split; auto. exact (last_stored_is_current condf point reinit trans nst rnd n t0 x).
Qed.
Print Assumptions C09_stored_is_post_sweep.

(* continuation (HybridGibbs): any sequence of sample / warm-up calls followed by another is the run of the
   concatenated sequence; in particular sample(n) then sample(m) is sample(n+m): same state, stored samples, transitions *)
Theorem C09_continuation : forall (V L St R : Type) (condf : list V -> nat -> V -> L) (point : St -> V) (reinit : nat -> (V -> L) -> St -> St)
    (trans : nat -> (V -> L) -> St -> R -> St) (tune : nat -> nat -> nat -> St -> St) (nst : nat -> nat),
  forall rnd (ops1 ops2 : list op) t0 (x : @run V L St) n m,
  run_ops condf point reinit trans tune nst rnd (ops1 ++ ops2) t0 x = run_ops condf point reinit trans tune nst rnd ops2 (t0 + ops_len ops1) (run_ops condf point reinit trans tune nst rnd ops1 t0 x) /\
  run_ops condf point reinit trans tune nst rnd [OSample n; OSample m] t0 x = run_ops condf point reinit trans tune nst rnd [OSample (n + m)] t0 x.
Proof.
  intros V L St R condf point reinit trans tune nst rnd ops1 ops2 t0 x n m. split.
  - exact (run_ops_app condf point reinit trans nst tune rnd ops1 ops2 t0 x).
  - exact (sample_twice condf point reinit trans nst tune rnd n m t0 x).
Qed.
Print Assumptions C09_continuation.

(* cached target evaluations, abstractly: for a class `ok` of block samplers closed under the sampler operations, if
   re-targeting establishes "the cached evaluations are those of the target held" and a transition preserves it, then it
   holds at every transition of every run.  (Samplers that cache nothing: consistent := True.  Re-initialised samplers:
   c_re by construction.  HybridGibbs' state restore breaks c_re for MH-type samplers: C09_block_cache_consistent_refuted.) *)
Theorem C09_cache_consistent_generic : forall (V L St R : Type) (condf : list V -> nat -> V -> L) (point : St -> V) (reinit : nat -> (V -> L) -> St -> St)
    (trans : nat -> (V -> L) -> St -> R -> St) (tune : nat -> nat -> nat -> St -> St) (nst : nat -> nat),
  forall (ok : St -> Prop) (consistent : (V -> L) -> St -> Prop),
  (forall i t s, ok s -> ok (reinit i t s)) -> (forall i t s r, ok s -> ok (trans i t s r)) ->
  (forall i a b s, ok s -> ok (tune i a b s)) ->
  (forall i t s, ok s -> consistent t (reinit i t s)) ->
  (forall i t s r, ok s -> consistent t s -> consistent t (trans i t s r)) ->
  forall rnd ops t0 (x : @run V L St),
    length (g_ss (r_st x)) = length (g_cur (r_st x)) -> Forall ok (g_ss (r_st x)) ->
    Forall (fun e => consistent (e_tgt e) (e_s e)) (r_log x) ->
    Forall (fun e => consistent (e_tgt e) (e_s e)) (r_log (run_ops condf point reinit trans tune nst rnd ops t0 x)).
Proof. intros V L St R condf point reinit trans tune nst. exact (run_cache_consistent condf point reinit trans tune nst). Qed.
Print Assumptions C09_cache_consistent_generic.

(* ---- legacy cuqi.sampler.Gibbs: the instance with a fresh, stateless sampler per update ---- *)
Theorem C09_legacy_sweep : forall (V L R : Type) (condf : list V -> nat -> V -> L) (joint : list V -> L)
    (ltrans : nat -> (V -> L) -> V -> R -> V),
  (forall cur i x, nth_error cur i = Some x -> forall v, condf cur i v = joint (upd cur i v)) ->
  forall (rs : nat -> nat -> R) (cur : list V) e,
  In e (snd (lsweep condf ltrans rs cur)) ->
  let i := e_blk e in
  let new := fst (lsweep condf ltrans rs cur) in
  i < length cur /\ e_j e = 0 /\
  e_cur e = firstn i new ++ skipn i cur /\
  (forall v, e_tgt e v = joint (firstn i new ++ v :: skipn (S i) cur)) /\
  nth_error cur i = Some (e_s e) /\                       (* the step starts from the block's current value *)
  nth_error new i = Some (ltrans i (e_tgt e) (e_s e) (rs i 0)) /\
  map (@e_blk V L V) (snd (lsweep condf ltrans rs cur)) = seq 0 (length cur).
Proof. intros V L R condf joint ltrans H. exact (@legacy_sweep_spec V L R condf joint H ltrans). Qed.
Print Assumptions C09_legacy_sweep.

(* continuation (legacy): a second call sample(ns2) resumes from the last stored sweep -- same samples and the same
   transitions as a single call sample(ns1 + ns2, nb) *)
Theorem C09_continuation_legacy : forall (V L R : Type) (condf : list V -> nat -> V -> L) (ltrans : nat -> (V -> L) -> V -> R -> V)
    rnd init0 ns1 ns2 nb t0 st1 lg1,
  0 < ns1 ->
  lsample condf ltrans rnd init0 ns1 nb t0 (mkL None None) = LOk st1 lg1 ->
  exists st2 lg2,
    lsample condf ltrans rnd init0 ns2 0 (t0 + nb + ns1) st1 = LOk st2 lg2 /\
    lsample condf ltrans rnd init0 (ns1 + ns2) nb t0 (mkL None None) = LOk (mkL (l_samples st2) (l_warm st1)) (lg1 ++ lg2).
Proof. exact (@legacy_continuation). Qed.
Print Assumptions C09_continuation_legacy.

(* ... and a call that only warms up (ns = 0, nb > 0) is continued from its last warm-up sweep c: the second call's
   samples and transitions are those of ns2 sweeps started from c (repo commit 2dba9ab; before it, the call raised) *)
Theorem C09_continuation_legacy_after_warmup : forall (V L R : Type) (condf : list V -> nat -> V -> L)
    (ltrans : nat -> (V -> L) -> V -> R -> V) rnd init0 ns2 nb t0,
  0 < nb ->
  exists st1 lg1 st2 lg2 c,
    lsample condf ltrans rnd init0 0 nb t0 (mkL None None) = LOk st1 lg1 /\
    last_col (fst (lsweeps condf ltrans rnd nb t0 init0)) = Some c /\
    lsample condf ltrans rnd init0 ns2 0 (t0 + nb) st1 = LOk st2 lg2 /\
    l_samples st2 = Some (fst (lsweeps condf ltrans rnd ns2 (t0 + nb) c)) /\
    lg2 = snd (lsweeps condf ltrans rnd ns2 (t0 + nb) c).
Proof. exact (@legacy_continuation_after_warmup). Qed.
Print Assumptions C09_continuation_legacy_after_warmup.

(* ---- invariance on finite state spaces, exact probabilities ---- *)
(* If each block kernel leaves the conditional of its block invariant for every value of the other blocks
   (sum_v pi(others,v) K((others,v),v') = pi(others,v')), then the sweep -- block kernels in order, block b applied
   fb_n b times -- leaves the joint weights pi invariant on the whole finite state space.  Any number of blocks, any
   finite value sets, unnormalised pi. *)
Theorem C09_sweep_invariant_finite : forall (V : Type) (veqb : V -> V -> bool) (d : V)
    (all : list (list V)) (pi : list V -> Qc) (blocks : list (@fblock V)),
  (forall x y, veqb x y = true <-> x = y) -> NoDup all ->
  Forall (fblock_ok d all pi) blocks ->
  forall a', In a' all ->
    push_sweep all pi (map (fun b => (lift veqb (fb_i b) (fb_K b) d, fb_n b)) blocks) a' = pi a'.
Proof. intros V veqb d all pi blocks H1 H2. exact (sweep_invariant_finite veqb H1 d all pi H2 blocks). Qed.
Print Assumptions C09_sweep_invariant_finite.

(* ---- cached target evaluations of the concrete block samplers ---- *)
(* GUARD = exact complement of the refuted class: either the repaired HybridGibbs (fresh = true: cached evaluations
   are recomputed when the target is re-conditioned; fixes/C09_refresh_cached_target_evaluations.diff), or, for the
   state-restoring code (fresh = false), no block sampler whose cached evaluations are restored (no KMH, no KOpq =
   MH/CWMH/MALA/ULA/PCN; the recording samplers, Direct, Conjugate, LinearRTO cache nothing, and the NUTS branch is
   re-initialised at the current point: its cached log-density AND gradient are part of the statement).  cache_ok covers
   the log-density (MH) and log-density + gradient (KOpq, KNuts). *)
Theorem C09_block_cache_consistent : forall (fresh : bool) (condf : list vec -> nat -> vec -> Q) nst rnd ops t0 (x : @run vec Q sst),
  (fresh = true \/ Forall no_restored_cache (g_ss (r_st x))) ->
  length (g_ss (r_st x)) = length (g_cur (r_st x)) ->
  Forall (fun e => cache_ok (e_tgt e) (e_s e)) (r_log x) ->
  Forall (fun e => cache_ok (e_tgt e) (e_s e))
         (r_log (run_ops condf s_pt (creinit fresh) ctrans ctune nst rnd ops t0 x)).
Proof.
  intros fresh condf nst rnd ops t0 x [->|Hk] Hwf Hlog.
  - exact (cache_consistent_fresh condf nst rnd ops t0 x Hwf Hlog).
  - destruct fresh.
    + exact (cache_consistent_fresh condf nst rnd ops t0 x Hwf Hlog).
    + exact (cache_consistent_restoring condf nst rnd ops t0 x Hwf Hk Hlog).
Qed.
Print Assumptions C09_block_cache_consistent.

(* inside the excluded class (code as it is, MH blocks): log p(x,s) = (sx - x^2) + (s - s^2), MH on both blocks from
   x = 1, s = 2.  After s moved to -2 the x sampler still holds the evaluation made under s = 2; its proposal x* = -1,
   whose MH log-ratio under the current conditional is +4 (accept for every u), is rejected at log u = -1/16.  With
   refreshed caches the same script accepts it: the stored sweeps differ. *)
Theorem C09_block_cache_consistent_refuted :
  exists fs kinds inits scales sc ops,
    In KMH kinds /\
    cache_consistent (r_log (hybrid_run false (qjoint fs) kinds inits scales [] sc ops)) = false /\
    cache_consistent (r_log (hybrid_run true (qjoint fs) kinds inits scales [] sc ops)) = true /\
    r_stored (hybrid_run false (qjoint fs) kinds inits scales [] sc ops) = [[[1]; [-2]]; [[1]; [-2]]]%Q /\
    r_stored (hybrid_run true (qjoint fs) kinds inits scales [] sc ops) = [[[1]; [-2]]; [[-1]; [-2]]]%Q.
Proof.
  exists w_fs, [KMH; KMH], [[1]; [2]]%Q, [1; 1]%Q, w_sc, [OSample 2].
  split; [left; reflexivity | exact witness_refutes].
Qed.
Print Assumptions C09_block_cache_consistent_refuted.

(* ---- the model's kernels for the real exact samplers ---- *)
(* Conjugate (Gaussian-Gamma pair): for a scalar block whose target is  t [p] = c - B p  up to terms not depending on p
   (B = rate of the conditional Gamma; the k log p term is one of those the model's joint omits), the value the model's
   KConj transition computes from the scripted standard variate z is z / B: the Gamma(shape, rate B) draw. *)
Theorem C09_conjugate_draw : forall (t : vec -> Q) (B c p0 z : Q),
  (forall p, t [p] == c - B * p)%Q -> ~ (p0 == 0)%Q -> ~ (B == 0)%Q ->
  (z / ((t [p0] - t [2 * p0]) / p0) == z / B)%Q.
Proof. exact conj_draw. Qed.
Print Assumptions C09_conjugate_draw.

(* the gradient the model keeps for samplers that cache one (exact central differences): entry j is the derivative at p
   along coordinate j whenever the target restricted to that coordinate line is a quadratic polynomial *)
Theorem C09_gradq_exact : forall (t : vec -> Q) (h : Q) (p : vec) (j : nat) (g a : Q),
  j < length p -> ~ (h == 0)%Q ->
  (forall d, t (bump p j d) == t (bump p j 0) + g * d + a * d * d)%Q ->
  exists v, nth_error (gradq t h p) j = Some v /\ (v == g)%Q.
Proof. exact gradq_exact. Qed.
Print Assumptions C09_gradq_exact.

(* non-vacuity: (1) a concrete run meets the hypotheses of the wiring and cache theorems; (2) the concrete sampler kinds
   keep their point under re-targeting and tuning; (3) a 2x2 lattice with weights 1,2,3,4 and the exact Gibbs kernels meets those of the invariance theorem *)
Example C09_example :
  (let x := hybrid_run true (qjoint w_fs) [KMH; KMH] [[1]; [2]]%Q [1; 1]%Q [] w_sc [] in
   length (g_ss (r_st x)) = length (g_cur (r_st x)) /\ insync s_pt (r_st x) /\ r_log x = []) /\
  ((forall f i t s, s_pt (creinit f i t s) = s_pt s) /\ (forall i a b s, s_pt (ctune i a b s) = s_pt s)) /\
  (* the C01 one-step hypothesis holds for the conditioning operation the executable instance runs with *)
  (forall (jt : list vec -> Q) cur i (y : vec), nth_error cur i = Some y -> forall v, cond jt cur i v = jt (upd cur i v)) /\
  (* a target of the form required by C09_conjugate_draw / C09_gradq_exact *)
  (forall p, (fun v : vec => match v with [q] => 3 - 2 * q | _ => 0 end)%Q [p] == 3 - 2 * p)%Q /\
  Forall (fblock_ok 0%Z ex_all ex_pi) ex_blocks.
Proof. split; [exact ex_run_ok | split; [exact ex_points_kept | split; [intros; reflexivity | split; [intros; reflexivity | exact ex_blocks_ok]]]]. Qed.

(* ---- block samplers that precompute a stacked least-squares system from their target: LinearRTO (any noise) and UGLA ---- *)
From CV Require Import Base.QcLin Model.C09_Rto Model.C09_Gibbs2 Proofs.C09_Rto Proofs.C09_Gibbs2.

(* "each block is drawn from its conditional given the current other blocks", for the model's LinearRTO / UGLA draw.
   rows re: one per scalar Gaussian factor of the conditional  q(y) = -1/2 sum_r w_r (c_r - <a_r, y>)^2  (qcond), paired with
   the scripted standard normal e_r; s_r the square-root certificate.  If the model's draw returns x (and m with all
   normals 0) then: (1) x solves the perturbed normal equations A^T W A x = A^T (W c + S e); (2) the conditional IS the
   Gaussian with mean m and precision form B(v,v') = v^T A^T W A v' (completed square, every y), and with w >= 0 m is its
   mode; (3) x - m is the linear image of the noise: B(x,v) - B(m,v) = v^T A^T S e for every v; (4) with s_r^2 = w_r the
   covariance form of that noise functional under independent unit-variance normals, sum_r (s_r <a_r,v>)(s_r <a_r,v'>), IS
   B(v,v'): the draw has the conditional's mean and precision.
   NOT covered: that the normals are independent standard normals (law of numpy's generator); for the correspondence
   s_r is a float certificate (s_r^2 = w_r to 1e-12), here (4) assumes it exact. *)
Theorem C09_rto_draw_conditional : forall (n : nat) (re : noisy) (x m : list Qc),
  rows_wf n re -> rto_draw n re = Some x -> rto_draw n (quiet re) = Some m ->
  (length x = n /\ nrm_lhs n re x = nrm_rhs n re) /\
  (forall y, length y = n ->
     qcond re y = qcond re m - (Q2Qc (1 # 2)) * rsum (fun p => ls_w (fst p) * ((QcLin.qdot (ls_a (fst p)) y - QcLin.qdot (ls_a (fst p)) m)
                                                                          * (QcLin.qdot (ls_a (fst p)) y - QcLin.qdot (ls_a (fst p)) m))) re)%Qc /\
  (Forall (fun p => 0 <= ls_w (fst p))%Qc re -> forall y, length y = n -> (qcond re y <= qcond re m)%Qc) /\
  (forall v, length v = n -> Bform re x v - Bform re m v = Nform re v)%Qc /\
  (Forall (fun p => ls_s (fst p) * ls_s (fst p) = ls_w (fst p))%Qc re ->
   forall v v', rsum (fun p => (ls_s (fst p) * QcLin.qdot (ls_a (fst p)) v) * (ls_s (fst p) * QcLin.qdot (ls_a (fst p)) v'))%Qc re = Bform re v v').
Proof.
  intros n re x m Hwf Hx Hm.
  destruct (rto_draw_sound n re x Hwf Hx) as (H1 & H2 & _).
  split; [split; assumption | ].
  split; [exact (rto_mean_precision n re m Hwf Hm) | ].
  split; [intros Hw; exact (rto_mean_is_mode n re m Hwf Hw Hm) | ].
  split; [exact (rto_draw_minus_mean n re x m Hwf Hx Hm) | ].
  intros Hs v v'. exact (rto_noise_covariance re v v' Hs).
Qed.
Print Assumptions C09_rto_draw_conditional.

(* ... and inside the Gibbs state machine (the instance the correspondence runs for LinearRTO / UGLA blocks): at EVERY
   transition of every run the stacked system of a least-squares block is built (rto_step -> ls_rows) from current_samples
   at that moment -- the weights are the CURRENT noise / prior precisions, nothing precomputed from an earlier conditional
   survives a re-targeting -- with the block's own entry = the sampler's current point (UGLA's Laplace weights). *)
Theorem C09_ls_block_rows_current : forall tol fresh (jt : list vec -> Q) specs nst rnd ops t0 (x : @run vec tgt2 sst),
  length (g_ss (r_st x)) = length (g_cur (r_st x)) -> r_log x = [] ->
  Forall (fun e => e_blk e < length (e_cur e) /\
                   forall sp r, nth (e_blk e) specs None = Some sp ->
                     ctrans2 tol specs (e_blk e) (e_tgt e) (e_s e) r
                     = rto_step tol sp (e_blk e) (upd (e_cur e) (e_blk e) (s_pt (e_s e))) (e_s e) r)
         (r_log (run_ops (cond (jt2 jt)) s_pt (creinit2 fresh) (ctrans2 tol specs) ctune nst rnd ops t0 x)).
Proof. exact ls_block_rows_current. Qed.
Print Assumptions C09_ls_block_rows_current.

(* non-vacuity of C09_rto_draw_conditional: rows with exact square-root certificates for which both draws succeed *)
Example C09_example_rto :
  rows_wf 2 ex_re /\ Forall (fun p => 0 <= ls_w (fst p))%Qc ex_re /\ Forall (fun p => ls_s (fst p) * ls_s (fst p) = ls_w (fst p))%Qc ex_re /\
  (exists x, rto_draw 2 ex_re = Some x) /\ (exists m, rto_draw 2 (quiet ex_re) = Some m).
Proof. exact ex_re_ok. Qed.

(* the stacked rows ARE the conditional: for every factor list sp (the Gaussian factors of the joint that involve block i, in
   the sampler's stacking order), every assignment a, block i whose value does not enter a precision, and every value p of
   the block:  -1/2 sum_r W_r (c_r - <a_r, p>)^2 over the rows ls_rows builds at a  =  the sum of those factors of the
   surrogate joint (Model/C09_Gibbs.v gfac_val) at (the other blocks of a, block i := p).  Together with
   C09_ls_block_rows_current (a = current_samples at the transition) and C09_rto_draw_conditional (the draw has the mean and
   precision of qcond over these rows): a LinearRTO block is drawn from the joint's conditional given the current other
   blocks.  (That sp lists exactly the joint's factors involving block i is checked per case at the probe points: ls_tied;
   UGLA's Laplace rows approximate a non-Gaussian factor by design and are outside this statement.) *)
From CV Require Import Proofs.C09_LsTie.
Theorem C09_ls_rows_conditional : forall (sp : lsspec) (i : nat) (a : list vec) (p : vec),
  i < length a -> length p = length (nth i a []) ->
  (forall gl, In gl sp -> g_w (fst gl) <> inl i) ->
  (ls_q (ls_rows sp i a) p == fold_right (fun gl acc => gfac_val (upd a i p) (fst gl) + acc) 0 sp)%Q.
Proof. exact ls_rows_conditional. Qed.
Print Assumptions C09_ls_rows_conditional.

Example C09_example_ls :
  let sp : lsspec := [(mkGF (inl 1%nat) [mkRow 1%Q [[1%Q]; []]], None)] in
  let a : list vec := [[0]; [2]]%Q in
  0 < length a /\ length ([3]%Q : vec) = length (nth 0 a []) /\ (forall gl, In gl sp -> g_w (fst gl) <> inl 0).
Proof. cbn. split; [lia | split; [reflexivity | ]]. intros gl [<- | []]. cbn. discriminate. Qed.

(* RegularizedLinearRTO with the non-negativity constraint (implicit prior: the conditional is DEFINED as the law of the
   constrained perturbed least-squares solution): if the model's constrained draw nnls_draw -- the function the
   correspondence evaluates for these blocks -- returns x, then x >= 0 and x minimises the perturbed objective
   pobj(y) = 1/2 sum_r w_r (c_r - <a_r,y>)^2 - sum_r s_r e_r <a_r,y>   ( = 1/2 |S (A y - c) - e|^2 + const when s_r^2 = w_r )
   over ALL y >= 0, for every row list with non-negative precisions, every size and every noise vector.
   (The sampler's FISTA iteration is not modelled: its result is compared with this exact minimiser to 1e-5.) *)
From CV Require Import Model.C09_Nnls Proofs.C09_Nnls.
Theorem C09_nnls_draw_optimal : forall (n : nat) (re : noisy) (x : list Qc),
  rows_wf n re -> Forall (fun p => 0 <= ls_w (fst p))%Qc re -> nnls_draw n re = Some x ->
  length x = n /\ (forall a, In a x -> (0 <= a)%Qc) /\
  forall y, length y = n -> (forall a, In a y -> (0 <= a)%Qc) -> (pobj re x <= pobj re y)%Qc.
Proof. exact nnls_draw_optimal. Qed.
Print Assumptions C09_nnls_draw_optimal.

(* non-vacuity: rows for which the constrained draw exists and differs from the unconstrained one *)
Example C09_example_nnls : rows_wf 2 ex_nn /\ Forall (fun p => 0 <= ls_w (fst p))%Qc ex_nn /\
  (exists x, nnls_draw 2 ex_nn = Some x /\ rto_draw 2 ex_nn <> Some x).
Proof. exact ex_nn_ok. Qed.

(* ---- the C01 one-step law as a PROVED fact for the executable instances (it is a hypothesis of the generic theorems):
   for every joint, every assignment of sampler kinds, initial points, step counts, script and call sequence the
   correspondence can run, every logged transition of hybrid_run holds the joint conditioned on current_samples at that
   moment; for hybrid_run2 in addition the target object carries exactly those values, and a least-squares block builds its
   stacked system from them (rto_step at upd current_samples i current_point). *)
Theorem C09_hybrid_run_targets : forall fresh (jt : list vec -> Q) kinds inits scales ns sc ops,
  length kinds = length inits -> length scales = length inits ->
  Forall (fun e => e_blk e < length (e_cur e) /\ forall v, e_tgt e v = jt (upd (e_cur e) (e_blk e) v))
         (r_log (hybrid_run fresh jt kinds inits scales ns sc ops)).
Proof. exact hybrid_run_targets. Qed.
Print Assumptions C09_hybrid_run_targets.

Theorem C09_hybrid_run2_targets : forall tol fresh (jt : list vec -> Q) specs kinds inits scales ns sc ops,
  length kinds = length inits -> length scales = length inits ->
  Forall (fun e => e_blk e < length (e_cur e) /\
                   (forall v, e_tgt e v = (jt (upd (e_cur e) (e_blk e) v), upd (e_cur e) (e_blk e) v)) /\
                   forall sb r, nth (e_blk e) specs None = Some sb ->
                     ctrans2 tol specs (e_blk e) (e_tgt e) (e_s e) r
                     = rto_step tol sb (e_blk e) (upd (e_cur e) (e_blk e) (s_pt (e_s e))) (e_s e) r)
         (r_log (hybrid_run2 tol fresh jt specs kinds inits scales ns sc ops)).
Proof. exact hybrid_run2_targets. Qed.
Print Assumptions C09_hybrid_run2_targets.

(* closing the chain between the rational joint and the Qc-valued rows handed to rto_draw: for an unconstrained block without
   Laplace rows (LinearRTO), at the assignment a (in a run: current_samples with the block's entry = its current point,
   C09_hybrid_run2_targets), with the certificates dd = 1 the transition requires for such rows: the conditional qcond of the
   rows to_noisy builds -- the object C09_rto_draw_conditional speaks about (mean m, precision form, noise covariance) --
   equals, at every value p of the block, the sum of the joint's Gaussian factors of the spec at (other blocks of a, p). *)
From CV Require Import Proofs.C09_LsChain.
Theorem C09_ls_block_conditional_is_qcond : forall (sp : lsspec) (i : nat) (a : list vec) (es ss dds : list Q) (p : vec),
  i < length a -> length p = length (nth i a []) ->
  (forall gl, In gl sp -> g_w (fst gl) <> inl i) ->
  let z := zip4 (ls_rows sp i a) es ss dds in
  length z = length (ls_rows sp i a) -> (forall q, In q z -> (snd q == 1)%Q) ->
  (this (qcond (to_noisy z) (qvec p)) == fold_right (fun gl acc => gfac_val (upd a i p) (fst gl) + acc) 0 sp)%Q.
Proof. exact ls_block_conditional_is_qcond. Qed.
Print Assumptions C09_ls_block_conditional_is_qcond.

Example C09_example_chain :
  (let sp : lsspec := [(mkGF (inl 1%nat) [mkRow 1%Q [[1%Q]; []]], None)] in
   let a : list vec := [[0%Q]; [2%Q]] in
   let z := zip4 (ls_rows sp 0 a) [1 # 2]%Q [2]%Q [1]%Q in
   length z = length (ls_rows sp 0 a) /\ (forall q, In q z -> (snd q == 1)%Q)) /\
  (length [KMH; KMH] = length ([[1]; [2]]%Q : list vec) /\ length ([1; 1]%Q : list Q) = length ([[1]; [2]]%Q : list vec)).
Proof. split; [split; [reflexivity | intros q [<- | []]; reflexivity] | split; reflexivity]. Qed.

(* legacy cuqi.sampler.Gibbs with a modelled LinearRTO block (the instance the correspondence runs for the legacy real cells,
   Model/C09_Legacy2.v): in every sweep the value stored for a least-squares block is the draw ls_draw (-> rto_draw /
   nnls_draw: C09_rto_draw_conditional) computed from the stacked system at (blocks already updated in this sweep: new; the
   block's own previous value; the previous values of the rest) -- the fresh sampler object of an update cannot carry a
   system of an earlier conditional.  No C01 hypothesis: the conditioning of the instance is partial application. *)
From CV Require Import Model.C09_Legacy2 Proofs.C09_Legacy2.
Theorem C09_legacy_ls_draw_current : forall tol (jt : list vec -> Q) ks floors (rs : nat -> nat -> rnd) (cur : list vec) e,
  In e (snd (lsweep (cond (jt2 jt)) (cltrans2 tol ks floors) rs cur)) ->
  let i := e_blk e in
  let new := fst (lsweep (cond (jt2 jt)) (cltrans2 tol ks floors) rs cur) in
  i < length cur /\
  e_cur e = firstn i new ++ skipn i cur /\
  forall sb, nth i ks L2Opq = L2Ls sb ->
    nth_error new i = Some (match ls_draw tol sb i (firstn i new ++ e_s e :: skipn (S i) cur) (length (e_s e)) (rs i 0) with
                            | Some m => adoptv (nth i floors 0%Q) m (firstn (length (e_s e)) (r_vec (rs i 0)))
                            | None => [1; 1; 1; 1; 1; 1; 1]%Q
                            end).
Proof. exact legacy_ls_draw_current. Qed.
Print Assumptions C09_legacy_ls_draw_current.

(* what a passing comparison certifies about ONE transition of a least-squares block (LinearRTO / UGLA / RegularizedLinearRTO)
   of the executable instance: if the block's state after rto_step is accepted by the checker (draw_ok), then the certificates
   passed, the model's exact draw m = rto_draw / nnls_draw on the rows built at the assignment a exists, the run continues from
   the implementation's point, and that point agrees with m to 1e-5 (scale-free, floor = the block's scale). *)
Theorem C09_rto_step_certifies : forall tol (sb : lsblock) i a s r,
  s_kind s = KLrto -> s_grad s = [] -> draw_ok (rto_step tol sb i a s r) = true ->
  let n := length (s_pt s) in
  let rows := ls_rows (fst sb) i a in
  let k := length rows in
  let obs := firstn n (r_vec r) in
  let z := zip4 rows (firstn k (skipn n (r_vec r))) (firstn k (skipn (n + k) (r_vec r))) (firstn k (skipn (n + k + k) (r_vec r))) in
  length z = k /\
  forallb (fun q => cert_ok tol (fst (fst (fst q))) (snd (fst q)) (snd q)) z = true /\
  exists m, (if snd sb then nnls_draw n (to_noisy z) else rto_draw n (to_noisy z)) = Some m /\
            s_pt (rto_step tol sb i a s r) = obs /\
            length (map (fun c : Qc => this c) m) = length obs /\
            (vmaxabs (vsub (map (fun c : Qc => this c) m) obs)
              <= tol7 * (vmaxabs (map (fun c : Qc => this c) m) + vmaxabs obs + s_scale s))%Q.
Proof. exact rto_step_certifies. Qed.
Print Assumptions C09_rto_step_certifies.

Example C09_example_certifies :
  let sb : lsblock := ([(mkGF (inr 1%Q) [mkRow 1%Q [[1%Q]]], None)], false) in
  let s0 := cinit KLrto [0%Q] 1%Q (fun _ => 0%Q) in
  s_kind s0 = KLrto /\ s_grad s0 = [] /\
  draw_ok (rto_step (1 # 1000000000000)%Q sb 0 [[0%Q]] s0 (mkR [1; 0; 1; 1]%Q 0%Q 1%Z)) = true.
Proof. split; [reflexivity | split; [reflexivity | vm_compute; reflexivity]]. Qed.

Example C09_example_legacy_ls :
  let sb : lsblock := ([(mkGF (inr 1%Q) [mkRow 1%Q [[1%Q]]], None)], false) in
  let jt : list vec -> Q := gjoint [mkGF (inr 1%Q) [mkRow 1%Q [[1%Q]]]] [] in
  let rs : nat -> nat -> rnd := fun _ _ => mkR [1; 0; 1; 1]%Q 0%Q 1%Z in
  exists e, In e (snd (lsweep (cond (jt2 jt)) (cltrans2 (1 # 1000000000000)%Q [L2Ls sb] [1%Q]) rs [[0%Q]])) /\
            nth (e_blk e) [L2Ls sb] L2Opq = L2Ls sb /\
            fst (lsweep (cond (jt2 jt)) (cltrans2 (1 # 1000000000000)%Q [L2Ls sb] [1%Q]) rs [[0%Q]]) = [[1%Q]].
Proof. eexists. split; [left; reflexivity | split; [reflexivity | vm_compute; reflexivity]]. Qed.
