(* C04 -- proofs, part 12: with the Gaussian integral (Proofs/C04_GaussInt.v) the conditional n-dimensional statements of
   Proofs/C04_Box.v become unconditional: the Normal / diagonal Gaussian density and the Lognormal density integrate to one,
   every dimension, scalar-broadcast or vector parameters. *)
From CV Require Import Base.Tac Model.C04_Dens Model.C04_Cdf Proofs.C04_Dens Proofs.C04_More Proofs.C04_Cdf Proofs.C04_Cdf2
  Proofs.C04_Box Proofs.C04_GaussInt.
From Coq Require Import Reals Lra.
From Coquelicot Require Import Coquelicot.
Local Open Scope R_scope.

Theorem normal_centred_normalised mean std (n : nat) : List.Forall (fun s => 0 < s) std ->
  is_lim (fun T => rprod (map (ls_mass1 normal_cdf1)
                              (combine (zip2 (bc n mean) (bc n std)) (centred_box2 T (zip2 (bc n mean) (bc n std))))))
         p_infty 1.
Proof. apply normal_centred_normalised_given; [apply std_normal_cdf_lim_p | apply std_normal_cdf_lim_m]. Qed.

Theorem lognormal_box_normalised (V mean : list R) : List.Forall (fun c => 0 < c) V ->
  is_lim (fun v => rprod (map (fun p => normal_cdf1 (fst p, snd p, v) - normal_cdf1 (fst p, snd p, - v))
                              (zip2 (bc (length V) mean) (map sqrt V)))) p_infty 1.
Proof. apply lognormal_box_normalised_given; [apply std_normal_cdf_lim_p | apply std_normal_cdf_lim_m]. Qed.

(* 1-d Lognormal: the mass of [exp(-v), exp(v)] tends to 1, no assumption left *)
Theorem lognormal_normalised m s : 0 < s -> is_lim (fun v => RInt (lognormal_pdf1 m s) (exp (- v)) (exp v)) p_infty 1.
Proof.
  intros Hs. destruct (normal_cdf1_limits m s Hs) as [Hp Hm]. apply lognormal_normalised_given_normal; assumption.
Qed.

(* 1-d Normal: the mass of [m - T, m + T] tends to 1 *)
Theorem normal_normalised m s : 0 < s -> is_lim (fun T => RInt (fun t => normal_pdf1 (m, s, t)) (m - T) (m + T)) p_infty 1.
Proof.
  intros Hs. destruct (normal_cdf1_limits m s Hs) as [Hp Hm].
  apply is_lim_ext with (f := fun T => normal_cdf1 (m, s, m + T) - normal_cdf1 (m, s, m - T)).
  { intros T. symmetry. apply is_RInt_unique. apply normal_cdf1_is_integral. exact Hs. }
  evar_last.
  - apply is_lim_minus'.
    + apply (is_lim_comp (fun u => normal_cdf1 (m, s, u)) (fun T => m + T) p_infty 1 p_infty); [exact Hp | |].
      * apply (is_lim_plus (fun _ => m) (fun T => T) p_infty m p_infty p_infty); [apply is_lim_const | apply is_lim_id |].
        unfold is_Rbar_plus; cbn. reflexivity.
      * exists 0. intros y _. discriminate.
    + apply (is_lim_comp (fun u => normal_cdf1 (m, s, u)) (fun T => m - T) p_infty 0 m_infty); [exact Hm | |].
      * apply (is_lim_minus (fun _ => m) (fun T => T) p_infty m p_infty m_infty); [apply is_lim_const | apply is_lim_id |].
        unfold is_Rbar_minus, is_Rbar_plus; cbn. reflexivity.
      * exists 0. intros y _. discriminate.
  - cbn. f_equal. lra.
Qed.
