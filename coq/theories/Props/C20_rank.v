(* C20 -- rank-nullity (mathcomp): the rank over Q of the precision of every Gaussian field, as a theorem
   about `\rank`, derived from the explicit null-space bases of the executable list model through the
   refinement mc/C20_Rank.v (mxZ: list matrix -> 'M[Z];  zq : Z -> rat;  precQ dim g = the precision
   of the field over rat). *)
From Coq Require Import ZArith.
From CV Require Import Base.LinAlg Base.QcLin Model.C20_Diff Model.C20_Spec Proofs.C20_Gmrf Proofs.C20_Nullity.
From mathcomp Require Import all_ssreflect all_algebra ssrZ.
From CV Require Import Proofs.C20_Running.
From CVmc Require Import C20_Rank C20_RankRunning.
Set Implicit Arguments.
Unset Strict Implicit.
Unset Printing Implicit Defensive.
Import GRing.Theory.
Local Open Scope ring_scope.

(* rank-nullity for integer matrices: members + spanning + independent (all over Z) => rank over Q *)
Theorem C20_rank_nullity_Z : forall n k (P : 'M[Z]_n) (B : 'M[Z]_(k, n)),
  B *m P^T = 0 ->
  (forall x : 'rV[Z]_n, x *m P^T = 0 -> exists c : 'rV[Z]_k, x = c *m B) ->
  (forall c : 'rV[Z]_k, c *m B = 0 -> c = 0) ->
  \rank (map_mx zq P) = (n - k)%N.
Proof. exact: rank_of_Z_null_basis. Qed.
Print Assumptions C20_rank_nullity_Z.

(* the same for the list matrices of the model and Model/C20_Spec.null_basis *)
Theorem C20_rank_of_null_basis : forall n (P B : list (list Z)),
  List.length P = n -> wf_mat n P -> null_basis P n B ->
  \rank (map_mx zq (mxZ n n P)) = (n - List.length B)%N.
Proof. exact: rank_of_null_basis_lists. Qed.
Print Assumptions C20_rank_of_null_basis.

(* the true rank of the precision of every field: dim - (0 | 1 | 2) in 1-d, dim - (0 | 1 | 4) in 2-d *)
Theorem C20_true_rank_1d : forall dim b order g,
  gmrf_init 1 dim b order = Some g ->
  periodic_too_small (eff_order order) (eff_bc order b) dim = false ->
  \rank (precQ dim g) = (dim - nullity_1d order b)%N.
Proof. exact: gmrf_true_rank_1d. Qed.
Print Assumptions C20_true_rank_1d.

Theorem C20_true_rank_2d : forall N b order g,
  gmrf_init 2 (N * N) b order = Some g ->
  periodic_too_small (eff_order order) (eff_bc order b) N = false ->
  \rank (precQ (N * N) g) = (N * N - nullity_1d order b * nullity_1d order b)%N.
Proof. exact: gmrf_true_rank_2d. Qed.
Print Assumptions C20_true_rank_2d.

(* the rank GMRF.__init__ reports IS the rank of its precision outside the finding classes ... *)
Theorem C20_coded_rank_is_rank_1d : forall dim b order g,
  gmrf_init 1 dim b order = Some g -> gmrf_rank_defect order b dim = false ->
  \rank (precQ dim g) = g_rank g.
Proof. exact: gmrf_coded_rank_1d. Qed.
Print Assumptions C20_coded_rank_is_rank_1d.

Theorem C20_coded_rank_is_rank_2d : forall N b order g,
  gmrf_init 2 (N * N) b order = Some g -> gmrf_rank_defect order b N = false ->
  \rank (precQ (N * N) g) = g_rank g.
Proof. exact: gmrf_coded_rank_2d. Qed.
Print Assumptions C20_coded_rank_is_rank_2d.

(* ... and is not inside them, for every size *)
Theorem C20_coded_rank_order0_refuted : forall dim b, (2 <= dim)%N -> b = Periodic \/ b = Neumann ->
  exists g, gmrf_init 1 dim b 0 = Some g /\ \rank (precQ dim g) = dim /\ g_rank g = dim.-1.
Proof. exact: gmrf_coded_rank_order0_wrong. Qed.
Print Assumptions C20_coded_rank_order0_refuted.

Theorem C20_coded_rank_order2_neumann_refuted : forall dim, (2 <= dim)%N ->
  exists g, gmrf_init 1 dim Neumann 2 = Some g /\ \rank (precQ dim g) = dim.-2 /\ g_rank g = dim.-1.
Proof. exact: gmrf_coded_rank_order2_neumann_wrong. Qed.
Print Assumptions C20_coded_rank_order2_neumann_refuted.

(* the model instance that RUNS against the repaired tree (accumulating periodic patches fd_matrix_acc, repaired rank
   rule): the reported rank is \rank of the precision for EVERY field it builds -- no guard left *)
Theorem C20_running_rank_is_rank_1d : forall dim b order g,
  gmrf_init_gen fd_matrix_acc true 1 dim b order = Some g -> \rank (precQ dim g) = g_rank g.
Proof. exact: running_rank_is_rank_1d. Qed.
Print Assumptions C20_running_rank_is_rank_1d.

Theorem C20_running_rank_is_rank_2d : forall N b order g,
  gmrf_init_gen fd_matrix_acc true 2 (N * N) b order = Some g -> \rank (precQ (N * N) g) = g_rank g.
Proof. exact: running_rank_is_rank_2d. Qed.
Print Assumptions C20_running_rank_is_rank_2d.
