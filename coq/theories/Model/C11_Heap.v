(* C11 -- conditioning, evaluating and sampling never alter the objects they start from.

   Executable model: a Python-object heap (loc |-> field |-> value) and the CUQIpy operations written as the same
   sequence of allocations and attribute writes as the code (Density._make_copy, Distribution._condition,
   Distribution.to_likelihood, Likelihood._condition, JointDistribution._condition, _reduce_to_single_density,
   _add_constants_to_density, Model.forward(distribution), Lognormal._normal getter).  NO proofs here.

   What the model abstracts:
   * numbers, arrays and functions are opaque tokens; values computed by numpy (derived matrices, results of evaluated
     callables, sums of constants) are the wildcard token `VTok (-1)`: the model decides WHERE something is written and
     what is shared by reference, not the numeric value (that is C01/C04);
   * cache fields (`_mutable_vars`, and `_variable_name` of a geometry, re-synchronised with the distribution's name on every
     read) are not part of an object's denotation.  Geometry objects ARE heap objects and the `_geometry` slot is a semantic
     field; the only identification made (`norm_obj`, `den_g`) is that for a distribution without unresolved parameters a
     default geometry that is still unset and the default geometry lazily inferred from the parameters read the same;
   * the `_Gaussian` of a Lognormal is a scratch object re-synchronised by the `_normal` getter before every read. *)
From CV Require Import Base.Tac.
From Coq Require String Ascii.
Notation string := String.string.
Import String.StringSyntax.
Open Scope string_scope.
Open Scope list_scope.

Definition loc := nat.

Inductive value :=
| VNone
| VNum (z : Z)
| VStr (s : string)
| VTok (k : Z)                         (* opaque immutable datum, identified by content; -1 = "some computed value" *)
| VArr (ident content : Z)             (* a mutable ndarray stored in `_constant`: identity and content *)
| VRef (l : loc)
| VList (ls : list loc)
| VStrs (ss : list string)
| VClo (args : list string) (k : Z).   (* a callable with its non-default argument names *)

Definition obj := list (string * value).
Definition heap := list obj.

(* ---------- equality ---------- *)
Definition str_eqb := String.eqb.
Fixpoint strs_eqb (a b : list string) : bool :=
  match a, b with [], [] => true | x :: a', y :: b' => str_eqb x y && strs_eqb a' b' | _, _ => false end.
Fixpoint nats_eqb (a b : list nat) : bool :=
  match a, b with [], [] => true | x :: a', y :: b' => Nat.eqb x y && nats_eqb a' b' | _, _ => false end.
Definition value_eqb (a b : value) : bool :=
  match a, b with
  | VNone, VNone => true
  | VNum x, VNum y => Z.eqb x y
  | VStr x, VStr y => str_eqb x y
  | VTok x, VTok y => Z.eqb x y
  | VArr i x, VArr j y => Z.eqb i j && Z.eqb x y
  | VRef x, VRef y => Nat.eqb x y
  | VList x, VList y => nats_eqb x y
  | VStrs x, VStrs y => strs_eqb x y
  | VClo a x, VClo b y => strs_eqb a b && Z.eqb x y
  | _, _ => false
  end.
Fixpoint mem_str (s : string) (l : list string) : bool :=
  match l with [] => false | x :: r => str_eqb s x || mem_str s r end.

(* ---------- objects and heaps ---------- *)
Fixpoint getf (o : obj) (f : string) : option value :=
  match o with [] => None | (g, v) :: r => if str_eqb f g then Some v else getf r f end.
Fixpoint setf (o : obj) (f : string) (v : value) : obj :=
  match o with
  | [] => [(f, v)]
  | (g, w) :: r => if str_eqb f g then (g, v) :: r else (g, w) :: setf r f v
  end.
Definition get (h : heap) (l : loc) : option obj := nth_error h l.
Fixpoint upd (h : heap) (l : loc) (o : obj) : heap :=
  match h, l with
  | [], _ => []
  | _ :: r, O => o :: r
  | x :: r, S l' => x :: upd r l' o
  end.
Definition setattr (h : heap) (l : loc) (f : string) (v : value) : heap :=
  match get h l with Some o => upd h l (setf o f v) | None => h end.
Definition alloc (h : heap) (o : obj) : heap * loc := (h ++ [o], length h).
Definition getattr (h : heap) (l : loc) (f : string) : option value :=
  match get h l with Some o => getf o f | None => None end.

Definition class_of (o : obj) : string := match getf o "__class__" with Some (VStr s) => s | _ => "" end.
Definition class_at (h : heap) (l : loc) : string := match get h l with Some o => class_of o | None => "" end.

(* ---------- what an object's denotation reads ---------- *)
Definition is_cache (f : string) : bool :=
  str_eqb f "_mutable_vars" || str_eqb f "_variable_name".
(* objects the denotation of a density / model never reads through: the re-synchronised inner Gaussian of a Lognormal
   ("Scratch.<class>") and sampler objects ("Sampler.<class>": block samplers held by a Gibbs sampler; they REFER to
   conditioned copies as their targets, no density refers to them) *)
Definition scratch_class (c : string) : bool := String.prefix "Scratch." c || String.prefix "Sampler." c.
Definition is_scratch (o : obj) : bool := scratch_class (class_of o).
Definition sem_obj (o : obj) : obj :=
  if is_scratch o then [("__class__", VStr (class_of o))]
  else filter (fun fv => negb (is_cache (fst fv))) o.

Definition refs_of (v : value) : list loc :=
  match v with VRef l => [l] | VList ls => ls | _ => [] end.

Inductive view :=
| VwV (v : value)
| VwO (fs : list (string * view))
| VwL (vs : list view)
| VwCut.

(* den: the deep reading of an object through its semantic fields (fuel = depth) *)
Fixpoint den (fuel : nat) (h : heap) (l : loc) : view :=
  match fuel with
  | O => VwCut
  | S k =>
    match get h l with
    | None => VwCut
    | Some o => VwO (map (fun fv => (fst fv, match snd fv with
                                              | VRef l' => den k h l'
                                              | VList ls => VwL (map (den k h) ls)
                                              | v => VwV v end)) (sem_obj o))
    end
  end.

(* the random-variable name: read at the root of the `_original_density` chain; a likelihood has its distribution's *)
Fixpoint name_of (fuel : nat) (h : heap) (l : loc) : option string :=
  match fuel with
  | O => None
  | S k =>
    match get h l with
    | None => None
    | Some o =>
      if str_eqb (class_of o) "Likelihood" then
        match getf o "distribution" with Some (VRef d) => name_of k h d | _ => None end
      else match getf o "_original_density" with
           | Some (VRef p) => name_of k h p
           | _ => match getf o "_name" with Some (VStr s) => Some s | _ => None end
           end
    end
  end.

(* ---------- frame relation (decidable version used on observed transitions) ---------- *)
Fixpoint obj_eqb (a b : obj) : bool :=
  match a, b with
  | [], [] => true
  | (f, v) :: a', (g, w) :: b' => str_eqb f g && value_eqb v w && obj_eqb a' b'
  | _, _ => false
  end.

(* values equal, except that with in-place `+=` code the CONTENT of a shared ndarray constant may have changed *)
Definition value_eqb_upto (inplace : bool) (a b : value) : bool :=
  match a, b with
  | VArr i _, VArr j _ => if inplace then Z.eqb i j else value_eqb a b
  | _, _ => value_eqb a b
  end.
Fixpoint obj_eqb_upto (inplace : bool) (a b : obj) : bool :=
  match a, b with
  | [], [] => true
  | (f, v) :: a', (g, w) :: b' => str_eqb f g && value_eqb_upto inplace v w && obj_eqb_upto inplace a' b'
  | _, _ => false
  end.

Fixpoint frame_objs (inplace : bool) (h h' : heap) : bool :=
  match h, h' with
  | [], _ => true
  | o :: r, o' :: r' => obj_eqb_upto inplace (sem_obj o) (sem_obj o') && frame_objs inplace r r'
  | _ :: _, [] => false
  end.

Definition refs_ok (n : nat) (v : value) : bool := forallb (fun l => Nat.ltb l n) (refs_of v).
Definition closed_b (h : heap) : bool :=
  forallb (fun o => forallb (fun fv => refs_ok (length h) (snd fv)) (sem_obj o)) h.

(* check_frame: the observed transition h -> h' satisfies the hypothesis of the frame theorem and stays closed *)
Definition check_frame (inplace : bool) (h h' : heap) : bool :=
  frame_objs inplace h h' && closed_b h && closed_b h'.

(* =====================================================================================================
   The operations
   ===================================================================================================== *)

Definition wild : value := VTok (-1).

(* copy.copy *)
Definition py_copy (h : heap) (l : loc) : heap * loc :=
  match get h l with Some o => alloc h o | None => (h, l) end.

(* Density._make_copy *)
Definition make_copy (h : heap) (self : loc) : heap * loc :=
  let '(h1, n) := py_copy h self in (setattr h1 n "_original_density" (VRef self), n).

Fixpoint lookup (kw : list (string * value)) (k : string) : option value :=
  match kw with [] => None | (g, v) :: r => if str_eqb k g then Some v else lookup r k end.
Definition keys (kw : list (string * value)) : list string := map fst kw.

Definition is_model_class (c : string) : bool :=
  str_eqb c "Model" || str_eqb c "LinearModel" || str_eqb c "PDEModel".
Definition is_nondist_class (c : string) : bool :=      (* tracked objects that are NOT cuqi Distributions *)
  str_eqb c "Likelihood" || str_eqb c "EvaluatedDensity" || is_model_class c || str_eqb c "".
Definition is_joint_class (c : string) : bool :=
  str_eqb c "JointDistribution" || str_eqb c "MultipleLikelihoodPosterior" || str_eqb c "_StackedJointDistribution".

(* getattr(self, key) for a mutable variable: public attribute, else the property's backing field `_key` *)
Definition read_var (o : obj) (key : string) : value :=
  match getf o key with
  | Some v => v
  | None =>
    if str_eqb key "_normal" then match getf o "_Gaussian" with Some v => v | None => VNone end   (* Lognormal._normal *)
    else match getf o (String.append "_" key) with Some v => v | None => VNone end
  end.

(* callable(value) and get_non_default_args(value) *)
Definition callable_args (h : heap) (v : value) : option (list string) :=
  match v with
  | VClo a _ => Some a
  | VRef l =>
    match get h l with
    | Some o => if is_model_class (class_of o)
                then match getf o "_non_default_args" with Some (VStrs a) => Some a | _ => Some [] end
                else if String.prefix "_Default" (class_of o) || String.prefix "Continuous" (class_of o) || String.prefix "Discrete" (class_of o)
                     then None            (* geometries are not callable *)
                     else Some []         (* densities are callable through __call__ with star-args only *)
    | None => None
    end
  | _ => None
  end.

Definition mutable_vars (hints : list (string * list string)) (o : obj) : list string :=
  match getf o "_mutable_vars" with
  | Some (VStrs l) => l
  | _ => match lookup (map (fun p => (fst p, VStrs (snd p))) hints) (class_of o) with Some (VStrs l) => l | _ => [] end
  end.

Fixpoint dedup_app (acc : list string) (l : list string) : list string :=
  match l with [] => acc | x :: r => if mem_str x acc then dedup_app acc r else dedup_app (acc ++ [x]) r end.

(* Distribution.get_conditioning_variables *)
Definition cond_vars (hints : list (string * list string)) (h : heap) (o : obj) : list string :=
  let mv := mutable_vars hints o in
  filter (fun k => match read_var o k with VNone => true | _ => false end) mv
  ++ fold_left (fun acc k => match callable_args h (read_var o k) with Some a => dedup_app acc a | None => acc end) mv [].

(* RegularizedGaussian defers get_conditioning_variables / get_mutable_variables to its inner Gaussian *)
Definition cond_vars' (hints : list (string * list string)) (h : heap) (o : obj) : list string :=
  if str_eqb (class_of o) "RegularizedGaussian" then
    match getf o "_gaussian" with
    | Some (VRef g) => match get h g with Some og => cond_vars hints h og | None => [] end
    | _ => []
    end
  else cond_vars hints h o.

(* which fields a property setter writes; `concrete` = value is neither None nor callable *)
Definition setter_fields (cls key : string) (concrete : bool) : list string :=
  if str_eqb cls "Gaussian" then
    if str_eqb key "mean" then ["_mean"]
    else if str_eqb key "cov" then "_cov" :: (if concrete then ["_prec"; "_sqrtprec"; "_logdet"; "_rank"] else [])
    else if str_eqb key "prec" then "_prec" :: "_cov" :: (if concrete then ["_sqrtprec"; "_logdet"; "_rank"] else [])
    else if str_eqb key "sqrtcov" then "_sqrtcov" :: "_cov" :: (if concrete then ["_prec"; "_sqrtprec"; "_logdet"; "_rank"] else [])
    else if str_eqb key "sqrtprec" then "_sqrtprec" :: "_cov" :: (if concrete then ["_logdet"; "_rank"] else [])
    else [String.append "_" key]
  else if str_eqb key "_normal" then ["_Gaussian"]
  else [String.append "_" key].

Definition is_concrete (h : heap) (v : value) : bool :=
  match v with VNone => false | _ => match callable_args h v with Some _ => false | None => true end end.

Definition default_geom_at (h : heap) (g : loc) : bool := String.prefix "_DefaultGeometry" (class_at h g).
Definition unset_geom_at (h : heap) (g : loc) : bool :=
  default_geom_at h g && match getattr h g "_grid" with Some VNone => true | _ => false end.


(* Distribution.geometry: (1) if the geometry is an unset default and a dimension can be inferred (`dim` = Some grid) a
   fresh default geometry is assigned to self; (2) if the distribution has a name it is written into the geometry object *)
Definition geometry_getter (h : heap) (l : loc) (dim : option value) : heap :=
  match get h l with
  | None => h
  | Some o =>
    match getf o "_geometry" with
    | Some (VRef g) =>
      let '(h1, g1) :=
        match dim with
        | Some d => if unset_geom_at h g
                    then let '(h', gn) := alloc h [("__class__", VStr "_DefaultGeometry1D"); ("_grid", d); ("axis_labels", VNone)] in
                         (setattr h' l "_geometry" (VRef gn), gn)
                    else (h, g)
        | None => (h, g)
        end in
      match getf o "_name" with
      | Some (VStr s) => setattr h1 g1 "_variable_name" (VStr s)
      | _ => h1
      end
    | _ => h
    end
  end.



(* setattr(new, key, v): plain attribute, or property setter writing backing + derived fields *)
Definition py_setattr (h : heap) (n : loc) (key : string) (v : value) : heap :=
  match get h n with
  | None => h
  | Some o =>
    match getf o key with
    | Some _ => setattr h n key v
    | None =>
      let fs := setter_fields (class_of o) key (is_concrete h v) in
      match fs with
      | [] => h
      | f0 :: rest =>
        (* first field: the value itself when it is stored as given (reference or callable), else a converted copy *)
        let v0 := match v with VRef _ | VClo _ _ | VNone => v | _ => wild end in
        let h1 := setattr h n f0 v0 in
        let h2 := fold_left (fun hh f => setattr hh n f (if str_eqb f "_cov" then (if str_eqb key "cov" then v0 else VNone) else wild)) rest h1 in
        (* the matrix setters of a Gaussian read self.dim when the value is concrete: geometry getter on the object itself
           (lazy default geometry if it is still unset -- e.g. the inner Gaussian of a RegularizedGaussian --, name synchronisation) *)
        if str_eqb (class_of o) "Gaussian" && negb (str_eqb key "mean") && is_concrete h v
        then geometry_getter h2 n (Some wild) else h2
      end
    end
  end.

Definition kw_filter (kw : list (string * value)) (names : list string) : list (string * value) :=
  filter (fun p => mem_str (fst p) names) kw.

Fixpoint remove_strs (l rm : list string) : list string :=
  match l with [] => [] | x :: r => if mem_str x rm then remove_strs r rm else x :: remove_strs r rm end.

(* Distribution.to_likelihood on a given (new) distribution *)
Definition to_likelihood (hints : list (string * list string)) (h : heap) (d : loc) (data : value) (name : option string) : heap * loc :=
  match get h d with
  | None => (h, d)
  | Some o =>
    match cond_vars' hints h o with
    | [] => alloc h [("__class__", VStr "EvaluatedDensity"); ("_FD_enabled", VNum 0); ("_FD_epsilon", VNone);
                     ("_constant", VNum 0);
                     ("_name", match name with Some s => VStr s | None => VNone end);
                     ("_original_density", VNone); ("value", wild)]
    | _ => alloc h [("__class__", VStr "Likelihood"); ("data", data); ("distribution", VRef d)]
    end
  end.

Section Cond.
Variable hints : list (string * list string).
Variable inplace : bool.          (* the code contains `density._constant += ...` (augmented assignment) *)

(* get_parameter_names, by class *)
Fixpoint param_names (fuel : nat) (h : heap) (l : loc) : list string :=
  match fuel with
  | O => []
  | S k =>
    match get h l with
    | None => []
    | Some o =>
      let c := class_of o in
      if str_eqb c "EvaluatedDensity" then []
      else if str_eqb c "Likelihood" then
        match getf o "distribution" with
        | Some (VRef d) => match get h d with Some od => cond_vars' hints h od | None => [] end
        | _ => [] end
      else if is_joint_class c then
        match getf o "_densities" with
        | Some (VList ls) =>
          flat_map (fun f => if is_nondist_class (class_at h f) then []
                             else match name_of 50 h f with Some s => [s] | None => ["?"] end) ls
        | _ => [] end
      else if str_eqb c "Posterior" then
        match getf o "prior" with Some (VRef p) => param_names k h p | _ => [] end
      else cond_vars' hints h o ++ match name_of 50 h l with Some s => [s] | None => ["?"] end
    end
  end.

(* _parse_args_add_to_kwargs is done by the harness for positional calls: kwargs arrive by name, with the main
   parameter under the key "_main_parameter" *)

(* density._constant += sum(evaluated densities), on location t *)
Definition add_constants (h : heap) (t : loc) (has_evaluated : bool) : heap :=
  match getattr h t "_constant" with
  | Some (VArr ident c) =>
    if inplace then
      (* in-place ndarray add: every object holding this very array sees the new content *)
      map (fun o => match getf o "_constant" with
                    | Some (VArr i _) => if Z.eqb i ident then setf o "_constant" (VArr ident (if has_evaluated then (-1)%Z else c)) else o
                    | _ => o end) h
    else setattr h t "_constant" wild
  | Some v => if has_evaluated then setattr h t "_constant" wild else h
  | None => h
  end.

Definition count_if (p : loc -> bool) (ls : list loc) : nat := length (filter p ls).
Definition same_set (a b : list string) : bool :=
  forallb (fun x => mem_str x b) a && forallb (fun x => mem_str x a) b.

(* the mutable-variable loop of Distribution._condition, on the fresh copy n of self.
   `app` conditions a density-valued callable variable with no arguments (fuel-decreasing recursive call). *)
Fixpoint cond_loop (app : heap -> loc -> option (heap * loc)) (h : heap) (self n : loc) (o_self : obj)
         (kw : list (string * value)) (mv : list string) (processed : list string) : option (heap * list string) :=
  match mv with
  | [] => Some (h, processed)
  | key :: rest =>
    let '(h1, processed1) := match lookup kw key with
                             | Some v => (py_setattr h n key v, key :: processed)
                             | None => (h, processed) end in
    let var_val := read_var o_self key in
    match callable_args h1 var_val with
    | None => cond_loop app h1 self n o_self kw rest processed1
    | Some accepted =>
      let var_args := kw_filter kw accepted in
      if Nat.eqb (length var_args) (length accepted) then
        match var_val with
        | VRef d =>
          if is_model_class (class_at h1 d) then
            cond_loop app (py_setattr h1 n key wild) self n o_self kw rest (keys var_args ++ processed1)
          else match app h1 d with
               | Some (h2, r) => cond_loop app (py_setattr h2 n key (VRef r)) self n o_self kw rest (keys var_args ++ processed1)
               | None => None end
        | _ => cond_loop app (py_setattr h1 n key wild) self n o_self kw rest (keys var_args ++ processed1)
        end
      else if Nat.ltb 0 (length var_args) then
        cond_loop app (py_setattr h1 n key (VClo (remove_strs accepted (keys var_args)) (-1))) self n o_self kw rest (keys var_args ++ processed1)
      else cond_loop app h1 self n o_self kw rest processed1
    end
  end.

(* the factor loop of JointDistribution._condition: new_joint._densities[i] = density( **cond_kwargs) *)
Fixpoint joint_loop (cond1 : heap -> loc -> list (string * value) -> option (heap * loc)) (pn : heap -> loc -> list string)
         (h : heap) (kw : list (string * value)) (fs : list loc) (done : list loc) : option (heap * list loc) :=
  match fs with
  | [] => Some (h, done)
  | f :: rest =>
    match cond1 h f (kw_filter kw (pn h f)) with
    | Some (h1, r) => joint_loop cond1 pn h1 kw rest (done ++ [r])
    | None => None
    end
  end.

Definition is_dist_at (h : heap) (l : loc) : bool := negb (is_nondist_class (class_at h l)).
Definition is_lik_at (h : heap) (l : loc) : bool := str_eqb (class_at h l) "Likelihood".
Definition is_ed_at (h : heap) (l : loc) : bool := str_eqb (class_at h l) "EvaluatedDensity".

(* Likelihood.model.domain_geometry: the first mutable variable of the data distribution that is a Model *)
Definition lik_domain_geometry (h : heap) (lk : loc) : option loc :=
  match getattr h lk "distribution" with
  | Some (VRef d) =>
    match get h d with
    | Some od =>
      match filter (fun k => match read_var od k with VRef m => is_model_class (class_at h m) | _ => false end) (mutable_vars hints od) with
      | k :: _ => match read_var od k with
                  | VRef m => match getattr h m "domain_geometry" with Some (VRef g) => Some g | _ => None end
                  | _ => None end
      | [] => None
      end
    | None => None
    end
  | _ => None
  end.

(* JointDistribution._reduce_to_single_density on the new joint nj with factor list rs *)
Definition reduce (h : heap) (nj : loc) (rs : list loc) : option (heap * loc) :=
  let nd := count_if (is_dist_at h) rs in
  let nl := count_if (is_lik_at h) rs in
  let has_ed := Nat.ltb 0 (count_if (is_ed_at h) rs) in
  if Nat.ltb 1 nd then Some (h, nj)
  else if Nat.eqb nd 1 && Nat.ltb 1 nl then
    (* MultipleLikelihoodPosterior of the densities: JointDistribution.__init__ refuses parameters without a prior *)
    let names := flat_map (fun f => if is_dist_at h f then match name_of 50 h f with Some s => [s] | None => ["?"] end else []) rs in
    if forallb (fun f => forallb (fun p => mem_str p names) (param_names 50 h f)) rs
    then Some (alloc h [("__class__", VStr "MultipleLikelihoodPosterior"); ("_densities", VList rs)])
    else None
  else if Nat.eqb nd 1 && Nat.eqb nl 1 then
    match filter (is_lik_at h) rs, filter (is_dist_at h) rs with
    | lk :: _, d :: _ =>
      if negb (same_set (param_names 50 h lk) (param_names 50 h d)) then Some (h, nj)
      else if negb (Nat.eqb (length (param_names 50 h lk)) 1) then None     (* Posterior.__init__ refuses *)
      else
        (* Posterior.geometry setter: reads prior.geometry (getter: lazy default + name), then takes the model's domain
           geometry if it is not a default one, else the prior's *)
        (* a RegularizedGaussian prior keeps its geometry in its inner Gaussian (set at construction: name synchronisation only) *)
        let inner := if str_eqb (class_at h d) "RegularizedGaussian"
                     then match getattr h d "_gaussian" with Some (VRef g) => Some g | _ => None end else None in
        let hq := match inner with Some g => geometry_getter h g None | None => geometry_getter h d (Some wild) end in
        let gown := match inner with Some g => g | None => d end in
        let geom := match lik_domain_geometry hq lk with
                    | Some gd => if default_geom_at hq gd
                                 then match getattr hq gown "_geometry" with Some v => v | None => VNone end
                                 else VRef gd
                    | None => match getattr hq gown "_geometry" with Some v => v | None => VNone end
                    end in
        let '(h1, p) := alloc hq [("__class__", VStr "Posterior"); ("_FD_enabled", VNum 0); ("_FD_epsilon", VNone);
                                 ("_constant", VNum 0); ("_geometry", geom);
                                 (* Posterior(lik, prior, name=prior.name): the name is written on the fresh Posterior only *)
                                 ("_name", match name_of 50 hq d with Some s => VStr s | None => VNone end);
                                 ("_original_density", VNone);
                                 ("is_symmetric", VNone); ("likelihood", VRef lk); ("prior", VRef d)] in
        Some (add_constants h1 p has_ed, p)
    | _, _ => None
    end
  else if Nat.eqb nd 1 && Nat.eqb nl 0 then
    match filter (is_dist_at h) rs with
    | d :: _ => Some (add_constants h d has_ed, d)
    | [] => None
    end
  else if Nat.eqb nl 1 && Nat.eqb nd 0 then
    match filter (is_lik_at h) rs with lk :: _ => Some (h, lk) | [] => None end
  else if Nat.eqb nd 0 && Nat.eqb nl 0 then Some (h, nj)
  else None.

(* density( **kwargs ), dispatching on the class of the operand *)
Fixpoint cond (fuel : nat) (h : heap) (self : loc) (kw : list (string * value)) : option (heap * loc) :=
  match fuel with
  | O => None
  | S k =>
    match get h self with
    | None => None
    | Some o =>
      let c := class_of o in
      if str_eqb c "EvaluatedDensity" then Some (h, self)
      else if is_model_class c || str_eqb c "" then None
      else if str_eqb c "Likelihood" then
        (* Likelihood._condition *)
        match getf o "distribution" with
        | Some (VRef d) =>
          let '(h1, nl) := py_copy h self in
          match cond k h1 d kw with
          | Some (h2, nd) =>
            let h3 := setattr h2 nl "distribution" (VRef nd) in
            match get h3 nd with
            | Some ond =>
              match cond_vars' hints h3 ond with
              | [] => Some (to_likelihood hints h3 nd (match getf o "data" with Some v => v | None => VNone end) (name_of 50 h3 nd))
              | _ => Some (h3, nl)
              end
            | None => None
            end
          | None => None
          end
        | _ => None
        end
      else if is_joint_class c then
        (* JointDistribution._condition *)
        match getf o "_densities" with
        | Some (VList fs) =>
          let '(h1, nj) := py_copy h self in
          match joint_loop (cond k) (param_names 50) h1 kw fs [] with
          | Some (h2, rs) => reduce (setattr h2 nj "_densities" (VList rs)) nj rs
          | None => None
          end
        | _ => None
        end
      else if str_eqb c "RegularizedGaussian" then
        (* RegularizedGaussian._condition: copy; the inner Gaussian is conditioned on everything but the own name; if the own
           name is given the copy is turned into a likelihood / evaluated density.  The `gaussian` getter writes the outer name
           into the inner Gaussian: modelled on heaps where it already has that name (all heaps built with explicit names);
           otherwise outside the model (refused) *)
        match getf o "_gaussian", name_of 50 h self with
        | Some (VRef g), Some nm =>
          if negb (match getattr h g "_name" with Some (VStr s) => str_eqb s nm | _ => false end) then None
          else if mem_str "_main_parameter" (keys kw) then None
          else
          let '(h1, n) := make_copy h self in
          match cond k h1 g (filter (fun p => negb (str_eqb (fst p) nm)) kw) with
          | Some (h2, ng) =>
            let h3 := setattr h2 n "_gaussian" (VRef ng) in
            match lookup kw nm with
            | Some v => Some (to_likelihood hints h3 n v (Some nm))
            | None => Some (h3, n)
            end
          | None => None
          end
        | _, _ => None
        end
      else
        (* Distribution._condition *)
        let mv := mutable_vars hints o in
        let cv := cond_vars hints h o in
        if existsb (fun key => mem_str key mv && negb (mem_str key cv)) (keys kw) then None   (* "not a conditioning variable" *)
        else
        let '(h1, n) := make_copy h self in
        match cond_loop (fun hh d => cond k hh d []) h1 self n o kw mv [] with
        | None => None
        | Some (h2, processed) =>
          match lookup kw "_main_parameter" with
          | Some v => Some (to_likelihood hints h2 n v (name_of 50 h2 self))
          | None =>
            let unused := remove_strs (keys kw) processed in
            match unused with
            | [] => Some (h2, n)
            | _ =>
              match name_of 50 h2 self with
              | Some nm =>
                match lookup kw nm with
                | Some v => Some (to_likelihood hints h2 n v (Some nm))
                | None => if forallb (fun key => mem_str key (mv ++ cv ++ [nm])) (keys kw) then Some (h2, n) else None
                end
              | None => None
              end
            end
          end
        end
    end
  end.

End Cond.

(* Model.forward(distribution): shallow copy with renamed argument *)
Definition model_apply (h : heap) (m d : loc) : option (heap * loc) :=
  let hq := geometry_getter h d (Some wild) in          (* `x.dim != self.domain_dim` reads the distribution's geometry *)
  match name_of 50 hq d with
  | Some nm => let '(h1, n) := py_copy hq m in Some (setattr h1 n "_non_default_args" (VStrs [nm]), n)
  | None => None
  end.

(* Lognormal._normal getter: re-synchronise the shared inner Gaussian with self.mean / self.cov before any read *)
Definition lognormal_sync (h : heap) (self : loc) : heap :=
  match get h self with
  | Some o =>
    match getf o "_Gaussian" with
    | Some (VRef g) =>
      let h1 := match getf o "mean", getattr h g "_mean" with
                | Some m, Some gm => if value_eqb m gm then h else setattr h g "_mean" m
                | Some m, None => setattr h g "_mean" m
                | _, _ => h end in
      match getf o "cov", getattr h1 g "_cov" with
      | Some c, Some gc => if value_eqb c gc then h1
                           else fold_left (fun hh f => setattr hh g f wild) ["_prec"; "_sqrtprec"; "_logdet"; "_rank"] (setattr h1 g "_cov" c)
      | Some c, None => setattr h1 g "_cov" c
      | _, _ => h1
      end
    | _ => h
    end
  | None => h
  end.

(* =====================================================================================================
   Comparison of the model's transition with the observed one (correspondence)
   ===================================================================================================== *)

(* wildcard matching: a computed value in the model matches any non-reference value observed *)
Definition vmatch (m o : value) : bool :=
  match m, o with
  | VTok (-1), VRef _ => false
  | VTok (-1), VList _ => false
  | VTok (-1), VNone => false          (* a computed value is a concrete datum: never None, never a callable *)
  | VTok (-1), VClo _ _ => false
  | VTok (-1), _ => true
  | VArr i (-1), VArr j _ => Z.eqb i j
  | VClo a (-1), VClo b _ => strs_eqb a b
  | _, _ => value_eqb m o
  end.

(* tree of a NEW object: old objects (loc < n0) are leaves named by their location, so sharing with the pre-existing
   heap is compared exactly; new objects are expanded (their numbering is irrelevant) *)
Inductive nview :=
| NV (v : value)
| NOld (l : loc)
| NObj (fs : list (string * nview))
| NList (vs : list nview)
| NCut.

Fixpoint nview_of (fuel : nat) (n0 : nat) (h : heap) (l : loc) : nview :=
  if Nat.ltb l n0 then NOld l else
  match fuel with
  | O => NCut
  | S k =>
    match get h l with
    | None => NCut
    | Some o => NObj (map (fun fv => (fst fv, match snd fv with
                                               | VRef l' => nview_of k n0 h l'
                                               | VList ls => NList (map (nview_of k n0 h) ls)
                                               | v => NV v end)) (sem_obj o))
    end
  end.

Fixpoint nlookup (fs : list (string * nview)) (f : string) : option nview :=
  match fs with [] => None | (g, v) :: r => if str_eqb f g then Some v else nlookup r f end.

Fixpoint nmatch (fuel : nat) (m o : nview) : bool :=
  match fuel with
  | O => false
  | S k =>
    match m, o with
    | NV a, NV b => vmatch a b
    | NOld a, NOld b => Nat.eqb a b
    | NCut, NCut => true
    | NList a, NList b =>
      Nat.eqb (length a) (length b) && forallb (fun p => nmatch k (fst p) (snd p)) (combine a b)
    | NObj a, NObj b =>
      Nat.eqb (length a) (length b) &&
      forallb (fun fv => match nlookup b (fst fv) with Some w => nmatch k (snd fv) w | None => false end) a
    | _, _ => false
    end
  end.

(* old part: semantic fields equal as finite maps, with wildcard matching; references from an old object to NEW objects
   (a lazily assigned default geometry) are compared structurally, not by number *)
Definition nview_obj (n0 : nat) (h : heap) (o : obj) : nview :=
  NObj (map (fun fv => (fst fv, match snd fv with
                                 | VRef l' => nview_of 10 n0 h l'
                                 | VList ls => NList (map (nview_of 10 n0 h) ls)
                                 | v => NV v end)) (sem_obj o)).
Fixpoint old_match_from (n0 : nat) (hm ho : heap) (k : nat) (rm ro : heap) : bool :=
  match k, rm, ro with
  | O, _, _ => true
  | S k', m :: rm', o :: ro' => nmatch 40 (nview_obj n0 hm m) (nview_obj n0 ho o) && old_match_from n0 hm ho k' rm' ro'
  | _, _, _ => false
  end.
Definition old_match (n0 : nat) (hm ho : heap) : bool := old_match_from n0 hm ho n0 hm ho.

Definition check_result (n0 : nat) (mres : option (heap * loc)) (ho : heap) (res : loc) : bool :=
  match mres with
  | Some (hm, rm) => old_match n0 hm ho && nmatch 40 (nview_of 20 n0 hm rm) (nview_of 20 n0 ho res)
  | None => false
  end.

Definition check_cond (inplace : bool) (hints : list (string * list string)) (hb : heap) (self : loc)
           (kw : list (string * value)) (ha : heap) (res : loc) : bool :=
  check_result (length hb) (cond hints inplace 12 hb self kw) ha res.

(* the implementation refused the call with one of the refusals the model knows (keyword that is no mutable / conditioning
   variable / parameter name; mutable variable that is not a conditioning variable; Posterior with a likelihood of several
   parameters; parameters without a prior): the model must refuse too *)
Definition check_refused (inplace : bool) (hints : list (string * list string)) (hb : heap) (self : loc)
           (kw : list (string * value)) : bool :=
  match cond hints inplace 12 hb self kw with None => true | Some _ => false end.

Definition check_tolik (hints : list (string * list string)) (hb : heap) (self : loc) (data : value) (ha : heap) (res : loc) : bool :=
  check_result (length hb) (Some (to_likelihood hints hb self data (name_of 50 hb self))) ha res.

Definition check_apply (hb : heap) (m d : loc) (ha : heap) (res : loc) : bool :=
  check_result (length hb) (model_apply hb m d) ha res.

(* =====================================================================================================
   Geometry in the denotation, and the write footprint of evaluation operations
   ===================================================================================================== *)

(* `plain o`: certainly no unresolved parameter -- no callable-valued field, no reference other than the geometry, the
   original, the scratch Gaussian; no None among the fields except the ones that are never parameters.  (Decided on the
   non-cache fields only, so that writing a cache never changes it.)  For such an object the dimension inferred from the
   parameters can never change, so an unset default geometry and the lazily inferred one are interchangeable. *)
Definition none_ok (f : string) : bool :=
  mem_str f ["_FD_epsilon"; "_original_density"; "is_symmetric"; "_name"; "_cov"; "axis_labels"; "_preset"].
Definition ref_ok (f : string) : bool := mem_str f ["_geometry"; "_original_density"; "_Gaussian"].
Definition plain_field (fv : string * value) : bool :=
  is_cache (fst fv) ||
  match snd fv with
  | VClo _ _ => false
  | VRef _ => ref_ok (fst fv)
  | VList _ => false
  | VNone => none_ok (fst fv)
  | _ => true
  end.
Definition plain (o : obj) : bool := forallb plain_field o.

Definition not_geometry (fv : string * value) : bool := negb (str_eqb (fst fv) "_geometry").

(* the geometry slot is dropped from the reading exactly when it is a default geometry of a plain object *)
Definition droppable (h : heap) (o : obj) : bool :=
  negb (is_scratch o) && plain o &&
  match getf o "_geometry" with Some (VRef g) => default_geom_at h g | _ => false end.
Definition norm_obj (h : heap) (o : obj) : obj :=
  if droppable h o then filter not_geometry (sem_obj o) else sem_obj o.

Fixpoint den_g (fuel : nat) (h : heap) (l : loc) : view :=
  match fuel with
  | O => VwCut
  | S k =>
    match get h l with
    | None => VwCut
    | Some o => VwO (map (fun fv => (fst fv, match snd fv with
                                              | VRef l' => den_g k h l'
                                              | VList ls => VwL (map (den_g k h) ls)
                                              | v => VwV v end)) (norm_obj h o))
    end
  end.

(* --- the getters an evaluation (logd, gradient, sample, dim, repr, a sampler run) may run on ANY object it reaches --- *)

(* Distribution.get_mutable_variables: caches the list *)
Definition mutable_vars_getter (h : heap) (l : loc) (vars : list string) : heap :=
  match getattr h l "_mutable_vars" with Some _ => h | None => setattr h l "_mutable_vars" (VStrs vars) end.

(* one getter effect / a sequence of them: the write footprint of every evaluation operation *)
Inductive touch_op :=
| TGeom (l : loc) (dim : option value)
| TVars (l : loc) (vars : list string)
| TSync (l : loc).
Definition touch1 (h : heap) (t : touch_op) : heap :=
  match t with
  | TGeom l d => geometry_getter h l d
  | TVars l vs => mutable_vars_getter h l vs
  | TSync l => lognormal_sync h l
  end.
Definition touch (h : heap) (ts : list touch_op) : heap := fold_left touch1 ts h.

(* side conditions under which a getter effect is invisible (the complement is the finding on lazily cached geometry) *)
Definition touch_ok (h : heap) (t : touch_op) : bool :=
  match t with
  | TGeom l (Some _) =>
    match get h l with
    | Some o => match getf o "_geometry" with
                | Some (VRef g) => negb (unset_geom_at h g) || (negb (is_scratch o) && plain o)
                | _ => true end
    | None => true end
  | TGeom _ None => true
  | TVars _ _ => true
  | TSync l =>
    match get h l with
    | Some o => match getf o "_Gaussian" with
                | Some (VRef g) => match get h g with Some og => is_scratch og | None => true end
                | _ => true end
    | None => true end
  end.

(* --- executable frame checks on observed transitions, with geometry --- *)
Fixpoint frame_objs_g (inplace : bool) (h h' : heap) (hh hh' : heap) : bool :=
  match hh, hh' with
  | [], _ => true
  | o :: r, o' :: r' => obj_eqb_upto inplace (norm_obj h o) (norm_obj h' o') && frame_objs_g inplace h h' r r'
  | _ :: _, [] => false
  end.
Definition closed_g_b (h : heap) : bool :=
  forallb (fun o => forallb (fun fv => refs_ok (length h) (snd fv)) (sem_obj o)) h.
(* strict: the hypothesis of the frame theorem C11_frame_g *)
Definition check_frame_g (inplace : bool) (h h' : heap) : bool :=
  frame_objs_g inplace h h' h h' && closed_g_b h && closed_g_b h'.

(* faithful to the code as it stands: additionally the lazy step of Distribution.geometry may happen on an object that is
   NOT plain (a conditional original): its slot moves from an unset default geometry to a new, set default geometry *)
Definition lazy_geometry_step (h h' : heap) (o o' : obj) : bool :=
  match getf o "_geometry", getf o' "_geometry" with
  | Some (VRef g), Some (VRef g') =>
    unset_geom_at h g && default_geom_at h' g' && negb (unset_geom_at h' g') && Nat.leb (length h) g'
    && obj_eqb (filter not_geometry (sem_obj o)) (filter not_geometry (sem_obj o'))
  | _, _ => false
  end.
Fixpoint frame_objs_code (inplace : bool) (h h' : heap) (hh hh' : heap) : bool :=
  match hh, hh' with
  | [], _ => true
  | o :: r, o' :: r' => (obj_eqb_upto inplace (norm_obj h o) (norm_obj h' o') || lazy_geometry_step h h' o o')
                        && frame_objs_code inplace h h' r r'
  | _ :: _, [] => false
  end.
Definition check_frame_code (inplace : bool) (h h' : heap) : bool :=
  frame_objs_code inplace h h' h h' && closed_g_b h && closed_g_b h'.

(* evaluation operations (logd / gradient / sample / dim, repr / sampler runs): the observed transition must lie inside the
   modelled footprint -- old objects change only by getter effects, and every object allocated and still reachable is a
   default geometry *)
Definition check_eval (inplace : bool) (h h' : heap) : bool :=
  check_frame_code inplace h h' &&
  forallb (fun o => String.prefix "_DefaultGeometry" (class_of o)) (skipn (length h) h').

(* =====================================================================================================
   The translator's facts (harness/tr_writes.py -> coq/gen/Gen_C11.v): every statement of the anchored files that can
   modify an already existing object, as (function, kind, target).  Each must be accounted for:
     * generically, when the translator itself established that the receiver is FRESH in the function (bound only from
       copy(...), _make_copy(), a constructor, a literal/comprehension/slice copy, or a keyword dictionary): these are the
       writes the model performs on locations it has just allocated; writes to `self` in __init__ and in property setters
       (object construction; setters are only invoked on the fresh copy by Distribution._condition);
     * writes of a sampler object to its own state (HybridGibbs / Gibbs), and "sampler-attr": re-binding an attribute OF one of
       the block-sampler objects a Gibbs object holds in `self.samplers` (the translator establishes the provenance: the
       receiver is `self.samplers[...]`, a local bound only from it / from iterating `self.samplers.values()`, or a method
       parameter that receives such a value at every call site).  An attribute store modifies the receiver object only, here
       an object of a sampler class, which no density, likelihood, model or geometry reads (is_scratch; theorem
       C11_frame_sampler_write); a store THROUGH a sampler into something else (`sampler.target.x = ...`) is not of this kind;
     * individually, by the table below (category in the comment).
   ===================================================================================================== *)
Definition write_fact := (string * string * string)%type.      (* (function, kind, target) *)
Definition wf_eqb (a b : write_fact) : bool :=
  str_eqb (fst (fst a)) (fst (fst b)) && str_eqb (snd (fst a)) (snd (fst b)) && str_eqb (snd a) (snd b).
Definition wf_mem (a : write_fact) (l : list write_fact) : bool := existsb (wf_eqb a) l.
Definition generic_kind (k : string) : bool :=
  mem_str k ["sampler-attr"; "aug-local-fresh"; "aug-attr-fresh"; "aug-sub-fresh"; "fresh-attr"; "fresh-sub"; "mutcall-fresh"; "fresh-setattr";
             "self-attr-init"; "self-attr-setter"].
Definition sampler_own_state (w : write_fact) : bool :=
  str_eqb (snd (fst w)) "self-attr" && (String.prefix "HybridGibbs." (fst (fst w)) || String.prefix "Gibbs." (fst (fst w))).
Definition writes_accounted (table extracted : list write_fact) : bool :=
  forallb (fun w => generic_kind (snd (fst w)) || sampler_own_state w || wf_mem w table) extracted.

Definition C11_accounted : list write_fact := [
  (* cache fields the denotation does not read (is_cache), or lazily computed values equal to what a read would compute *)
  ("Density.name", "self-attr", "_name");                                   (* name inference from the Python stack: outside every model *)
  ("Distribution.geometry", "self-attr", "geometry");                       (* lazy default geometry: geometry_getter, norm_obj *)
  ("Distribution.geometry", "alias-attr", "self._geometry._variable_name"); (* re-synchronised with _name on every read, is_cache *)
  ("Distribution.get_mutable_variables", "self-attr", "_mutable_vars");     (* is_cache *)
  ("Gaussian.compute_cov", "self-attr", "_cov");                            (* only by compute_cov()/cdf(): value-preserving expansion *)
  ("LinearModel.get_matrix", "self-attr", "_matrix");                       (* only by get_matrix(): cache of the operator's matrix *)
  ("UserDefinedLikelihood.name", "self-attr", "_name");
  (* scratch objects re-synchronised before every read *)
  ("Lognormal._normal", "alias-attr", "self._Gaussian.mean");               (* lognormal_sync *)
  ("Lognormal._normal", "alias-attr", "self._Gaussian.cov");
  ("RegularizedGaussian.gaussian", "alias-attr", "self._gaussian._name");   (* writes the value it already has once names are fixed *)
  (* explicit mutators: not among the operations of C11 (the user asks for the change) *)
  ("Density.enable_FD", "self-attr", "_FD_enabled"); ("Density.enable_FD", "self-attr", "_FD_epsilon");
  ("Density.disable_FD", "self-attr", "_FD_enabled"); ("Density.disable_FD", "self-attr", "_FD_epsilon");
  ("Likelihood.name", "alias-attr", "self.distribution.name");
  ("RegularizedGaussian.geometry", "alias-attr", "self.gaussian.geometry");
  ("RegularizedGaussian.mean", "alias-attr", "self.gaussian.mean");
  ("RegularizedGaussian.cov", "alias-attr", "self.gaussian.cov");
  ("RegularizedGaussian.prec", "alias-attr", "self.gaussian.prec");
  ("RegularizedGaussian.sqrtprec", "alias-attr", "self.gaussian.sqrtprec");
  ("RegularizedGaussian.sqrtcov", "alias-attr", "self.gaussian.sqrtcov");
  ("RegularizedGaussian._parse_regularization_input_arguments", "self-attr", "_preset");   (* construction *)
  ("RegularizedGaussian._parse_regularization_input_arguments", "self-attr", "_proximal");
  ("RegularizedGaussian._condition", "mutcall-alias", "kwargs.pop");        (* the keyword dictionary of this call *)
  (* construction-time normalisation of argument lists (not a C11 operation) *)
  ("JointGaussianSqrtPrec.__init__", "alias-sub", "means");
  ("JointGaussianSqrtPrec.__init__", "alias-sub", "sqrtprecs");
  (* Gibbs objects mutating containers that belong to sampler state (chains, acceptance lists, bookkeeping dictionaries) *)
  ("HybridGibbs.step", "mutcall-alias", "sampler._acc.append");
  ("HybridGibbs.step", "alias-sub", "self.current_samples");
  ("HybridGibbs._initialize_num_sampling_steps", "alias-sub", "self.num_sampling_steps");
  ("HybridGibbs._store_samples", "mutcall-alias", "self.samples[par_name].append");
  ("Gibbs.__init__", "alias-sub", "self.samplers");
  ("Gibbs.step", "alias-sub", "current_samples");
  ("Gibbs._store_samples", "alias-sub", "samples[par_name]");
  (* the reduced density's constant: the receiver is the parameter `density`, which Proofs/C11_Heap.v shows to be a
     location allocated by the same conditioning.  As an augmented assignment it is an IN-PLACE add when the constant is an
     ndarray shared with the density it was copied from (finding; add_constants with inplace = true); as a plain
     re-binding (proposed fix) it is a write to the fresh location only. *)
  ("JointDistribution._add_constants_to_density", "aug-attr-alias", "density._constant");
  ("JointDistribution._add_constants_to_density", "alias-attr", "density._constant")
].

(* a history of conditionings (what a Gibbs sampler does thousands of times): each on any live object *)
Fixpoint cond_seq (hints : list (string * list string)) (inplace : bool) (fuel : nat) (h : heap)
         (ops : list (loc * list (string * value))) : option heap :=
  match ops with
  | [] => Some h
  | (s, kw) :: r => match cond hints inplace fuel h s kw with
                    | Some (h', _) => cond_seq hints inplace fuel h' r
                    | None => None end
  end.

(* strict variant of check_eval (hypothesis of C11_frame_g + only default geometries allocated) *)
Definition check_eval_g (inplace : bool) (h h' : heap) : bool :=
  check_frame_g inplace h h' &&
  forallb (fun o => String.prefix "_DefaultGeometry" (class_of o)) (skipn (length h) h').
