(* C20 -- the Gaussian field: its precision is D^T D of the documented operator, the rank rule
   of GMRF.__init__ against the true null space, and how the three priors use the operators. *)
From CV Require Import Base.Tac Base.Cmp Base.LinAlg Base.QcLin Model.C20_Diff Model.C20_Spec
  Proofs.C20_Lin Proofs.C20_Stencil Proofs.C20_Null.
From Coq Require Import QArith.
Local Open Scope Z_scope.

(* ---------------- integer combinations ---------------- *)
Lemma zvscale_repeat c a n : zvscale c (repeat a n) = repeat (c * a) n.
Proof. unfold zvscale, vscale. induction n as [|n IH]; [reflexivity|]. cbn [repeat map]. rewrite IH. reflexivity. Qed.

Lemma zvadd_zeros_r x n : length x = n -> zvadd x (zeros n) = x.
Proof. apply (vadd_vzero_r Z 0 1 Z.add Z.mul Z.sub Z.opp Zth). Qed.

Lemma zvadd_length x y : length x = length y -> length (zvadd x y) = length x.
Proof. apply (vadd_length Z Z.add). Qed.

Lemma zvscale_length c x : length (zvscale c x) = length x.
Proof. apply (vscale_length Z Z.mul). Qed.

Lemma nth_zvadd u v j : length u = length v -> nth j (zvadd u v) 0 = nth j u 0 + nth j v 0.
Proof. intros H. apply (nth_vadd Z 0 1 Z.add Z.mul Z.sub Z.opp Zth). exact H. Qed.

Lemma nth_zvscale c u j : nth j (zvscale c u) 0 = c * nth j u 0.
Proof. apply (nth_vscale Z 0 1 Z.add Z.mul Z.sub Z.opp Zth). Qed.

Lemma ones_length n : length (ones n) = n.
Proof. apply repeat_length. Qed.

Lemma ramp_length n : length (ramp n) = n.
Proof. unfold ramp. rewrite map_length. apply seq_length. Qed.

Lemma nth_ones n k : (k < n)%nat -> nth k (ones n) 0 = 1.
Proof. intros H. unfold ones. rewrite (nth_indep _ 0 1) by (rewrite repeat_length; exact H). apply nth_repeat'. Qed.

Lemma nth_ramp n k : (k < n)%nat -> nth k (ramp n) 0 = Z.of_nat k.
Proof. intros H. unfold ramp. apply nth_map_seq. exact H. Qed.

Lemma lincomb_ones c n : zlincomb n [c] [ones n] = repeat c n.
Proof.
  cbn [zlincomb]. unfold ones. rewrite zvscale_repeat, zvadd_zeros_r by apply repeat_length.
  f_equal. lia.
Qed.

Lemma lincomb_ones_ramp c d n k : (k < n)%nat ->
  nth k (zlincomb n [c; d] [ones n; ramp n]) 0 = c + d * Z.of_nat k.
Proof.
  intros Hk. cbn [zlincomb]. rewrite zvadd_zeros_r by (rewrite zvscale_length; apply ramp_length).
  rewrite nth_zvadd by (rewrite !zvscale_length, ones_length, ramp_length; reflexivity).
  rewrite !nth_zvscale, nth_ones, nth_ramp by exact Hk. lia.
Qed.

Lemma lincomb_ones_ramp_length c d n : length (zlincomb n [c; d] [ones n; ramp n]) = n.
Proof.
  cbn [zlincomb]. rewrite zvadd_zeros_r by (rewrite zvscale_length; apply ramp_length).
  rewrite zvadd_length; rewrite !zvscale_length; rewrite ?ones_length, ?ramp_length; reflexivity.
Qed.

Lemma is_const_ones n : is_const (ones n).
Proof. apply is_const_repeat. Qed.

(* ---------------- from the characterisation of the null space to a basis ---------------- *)
Lemma nb_zero M n :
  (forall x, length x = n -> (zmatvec M x = zeros (length M) <-> x = zeros (length x))) ->
  null_basis M n [].
Proof.
  intros H. repeat split.
  - constructor.
  - intros x Hx H0. exists []. split; [reflexivity|]. cbn [zlincomb]. rewrite <- Hx. apply (H x Hx). exact H0.
  - intros cs Hc _. destruct cs; [reflexivity | discriminate].
Qed.

Lemma nb_const M n : (1 <= n)%nat ->
  (forall x, length x = n -> (zmatvec M x = zeros (length M) <-> is_const x)) ->
  null_basis M n [ones n].
Proof.
  intros Hn H. repeat split.
  - constructor; [|constructor]. split; [apply ones_length|]. apply (H _ (ones_length n)). apply is_const_ones.
  - intros x Hx H0. exists [nth 0 x 0]. split; [reflexivity|]. rewrite lincomb_ones.
    apply const_is_repeat; [exact Hx|]. apply (H x Hx). exact H0.
  - intros cs Hc H0. destruct cs as [|c [|c' cs]]; try discriminate. rewrite lincomb_ones in H0.
    destruct n as [|n]; [lia|]. cbn [zeros repeat] in H0. injection H0 as H0 _. subst c. reflexivity.
Qed.

Lemma is_affine_ones_ramp c d n : is_affine (zlincomb n [c; d] [ones n; ramp n]).
Proof.
  intros k Hk. rewrite lincomb_ones_ramp_length in Hk.
  destruct n as [|[|n]]; [lia| |].
  - assert (k = 0)%nat by lia. subst k. cbn. lia.
  - rewrite !lincomb_ones_ramp by lia. cbn. lia.
Qed.

Lemma nb_affine M n : (2 <= n)%nat ->
  (forall x, length x = n -> (zmatvec M x = zeros (length M) <-> is_affine x)) ->
  null_basis M n [ones n; ramp n].
Proof.
  intros Hn H. repeat split.
  - constructor; [|constructor; [|constructor]].
    + split; [apply ones_length|]. apply (H _ (ones_length n)).
      intros k Hk. rewrite ones_length in Hk. rewrite !nth_ones by lia. lia.
    + split; [apply ramp_length|]. apply (H _ (ramp_length n)).
      intros k Hk. rewrite ramp_length in Hk. rewrite !nth_ramp by lia. cbn. lia.
  - intros x Hx H0. exists [nth 0 x 0; nth 1 x 0 - nth 0 x 0]. split; [reflexivity|].
    apply (nth_ext _ _ 0 0); [rewrite lincomb_ones_ramp_length; exact Hx|].
    intros k Hk. rewrite lincomb_ones_ramp by lia. rewrite (proj1 (H x Hx) H0 k Hk). lia.
  - intros cs Hc H0. destruct cs as [|c [|d [|e cs]]]; try discriminate.
    pose proof (f_equal (fun v => nth 0 v 0) H0) as E0. pose proof (f_equal (fun v => nth 1 v 0) H0) as E1.
    cbn beta in E0, E1. rewrite lincomb_ones_ramp, nth_zeros in E0, E1 by lia.
    cbn in E0, E1. unfold zeros. cbn [length repeat]. f_equal; [lia | f_equal; lia].
Qed.

(* ---------------- the precision D^T D has the null space of D ---------------- *)
Lemma fd_matrix_wf order b n D : fd_matrix order b n = Some D -> wf_mat n D.
Proof.
  unfold fd_matrix. destruct (fd_parts order b n) as [[m f]|]; [|discriminate].
  intros H. injection H as <-. apply mk_mat_wf.
Qed.

Lemma gram_len n D : length (gram n D) = n.
Proof. apply (gram_length Z 0 Z.add Z.mul). Qed.

Lemma gram_null_iff n D x : wf_mat n D -> length x = n ->
  (zmatvec (gram n D) x = zeros (length (gram n D)) <-> zmatvec D x = zeros (length D)).
Proof. intros H Hx. rewrite gram_len. apply zgram_null; assumption. Qed.

(* ---------------- GMRF.__init__ in one dimension ---------------- *)
Definition eff_order (order : nat) : nat := match order with O => 1%nat | o => o end.
Definition eff_bc (order : nat) (b : bc) : bc := match order with O => NoBC | _ => b end.

Lemma fd_op_1d order n b :
  option_map fst (fd_op order (NInt n) b None) = fd_matrix order b n.
Proof.
  unfold fd_op, fd_op_gen. change (Qeq_bool 1 0) with false. cbv iota.
  destruct (fd_matrix order b n); reflexivity.
Qed.

Lemma diff_of_order_1d order n b : (order <= 2)%nat ->
  diff_of_order order (NInt n) b = fd_matrix (eff_order order) (eff_bc order b) n.
Proof.
  intros H. destruct order as [|[|[|o]]]; [| | |lia]; unfold diff_of_order; cbn [diff_of_order_gen eff_order eff_bc]; apply fd_op_1d.
Qed.

Lemma gmrf_init_1d_inv dim b order g : gmrf_init 1 dim b order = Some g ->
  exists D, (order <= 2)%nat /\ dim <> 1%nat /\
    fd_matrix (eff_order order) (eff_bc order b) dim = Some D /\
    g_prec g = gram dim D /\ g_diff g = D /\
    ((b = Zero /\ g_rank g = dim) \/ ((b = Periodic \/ b = Neumann) /\ g_rank g = (dim - 1)%nat)).
Proof.
  unfold gmrf_init, gmrf_init_gen, prec_op_gen. fold diff_of_order. cbn [mrf_nodes nodes_dim].
  destruct (dim =? 1)%nat eqn:E1; [discriminate|].
  destruct (le_lt_dec order 2) as [Ho|Ho].
  - rewrite diff_of_order_1d by exact Ho.
    destruct (fd_matrix (eff_order order) (eff_bc order b) dim) as [D|] eqn:ED; [|discriminate].
    cbn [option_map]. intros H. exists D.
    destruct b; try discriminate; injection H as <-; cbn [g_prec g_diff g_rank];
      repeat split; try lia; auto.
  - destruct order as [|[|[|o]]]; try lia. unfold diff_of_order. cbn [diff_of_order_gen]. discriminate.
Qed.

Lemma null_cond_eff order b x : (order <= 2)%nat -> gmrf_rank_defect order b (length x) = false ->
  b = Zero \/ b = Periodic \/ b = Neumann ->
  (null_cond (eff_order order) (eff_bc order b) x <->
   match null_basis_1d order b (length x) with
   | [] => x = zeros (length x)
   | _ => is_const x
   end).
Proof.
  intros Ho Hd Hb. destruct order as [|[|[|o]]]; [| | |lia];
    destruct Hb as [-> | [-> | ->]]; cbn in Hd |- *; try discriminate; reflexivity.
Qed.

Theorem gmrf_rank_1d dim b order g :
  gmrf_init 1 dim b order = Some g -> gmrf_rank_defect order b dim = false ->
  null_basis (g_prec g) dim (null_basis_1d order b dim) /\
  (g_rank g + length (null_basis_1d order b dim) = dim)%nat.
Proof.
  intros Hg Hd. destruct (gmrf_init_1d_inv dim b order g Hg) as [D [Ho [H1 [HD [HP [_ HR]]]]]].
  pose proof (fd_matrix_wf _ _ _ _ HD) as Hwf. rewrite HP.
  assert (Hsmall : periodic_too_small (eff_order order) (eff_bc order b) dim = false).
  { destruct order as [|[|[|o]]]; [reflexivity| | |lia]; destruct b; try reflexivity; cbn in Hd |- *; try discriminate.
    - destruct dim as [|[|dim]]; [discriminate | lia | reflexivity].
    - destruct (dim <=? 2)%nat eqn:E; [discriminate | reflexivity]. }
  assert (Hb : b = Zero \/ b = Periodic \/ b = Neumann) by (destruct HR as [[-> _] | [[-> | ->] _]]; auto).
  assert (HN : forall x, length x = dim ->
            (zmatvec (gram dim D) x = zeros (length (gram dim D)) <->
             match null_basis_1d order b dim with [] => x = zeros (length x) | _ => is_const x end)).
  { intros x Hx. rewrite gram_null_iff by assumption.
    rewrite (fd_null_1d _ _ _ x D HD Hsmall Hx). rewrite <- Hx in Hd |- *. apply null_cond_eff; assumption. }
  assert (Hdim1 : forall D', fd_matrix 1 Periodic dim = Some D' \/ fd_matrix 1 Neumann dim = Some D' \/
                             fd_matrix 2 Periodic dim = Some D' -> (1 <= dim)%nat).
  { intros D' H. destruct dim; [|lia]. destruct H as [H|[H|H]]; discriminate. }
  destruct order as [|[|[|o]]]; [| | |lia]; destruct Hb as [-> | [-> | ->]]; cbn in Hd; try discriminate;
    cbn [null_basis_1d length] in *; cbn [eff_order eff_bc] in HD;
    destruct HR as [[Hb HR]|[[Hb|Hb] HR]]; try discriminate; rewrite HR.
  all: try (split; [apply nb_zero; exact HN | lia]).
  all: assert (1 <= dim)%nat by (apply (Hdim1 D); auto); split; [apply nb_const; assumption | lia].
Qed.

(* the null space of the precision of a 1-d field, whatever the rank rule says *)
Theorem gmrf_null_1d dim b order g :
  gmrf_init 1 dim b order = Some g ->
  periodic_too_small (eff_order order) (eff_bc order b) dim = false ->
  forall x, length x = dim ->
    (zmatvec (g_prec g) x = zeros (length (g_prec g)) <-> null_cond (eff_order order) (eff_bc order b) x).
Proof.
  intros Hg Hs x Hx. destruct (gmrf_init_1d_inv dim b order g Hg) as [D [Ho [H1 [HD [HP _]]]]].
  rewrite HP, gram_null_iff by (try exact Hx; eapply fd_matrix_wf; exact HD).
  apply (fd_null_1d _ _ _ x D HD Hs Hx).
Qed.

Lemma gmrf_init_1d_fwd dim b order D : (order <= 2)%nat -> dim <> 1%nat ->
  fd_matrix (eff_order order) (eff_bc order b) dim = Some D ->
  b = Zero \/ b = Periodic \/ b = Neumann ->
  gmrf_init 1 dim b order =
  Some (mkG (match b with Zero => dim | _ => dim - 1 end) (gram dim D) D).
Proof.
  intros Ho H1 HD Hb. unfold gmrf_init, gmrf_init_gen, prec_op_gen. fold diff_of_order. cbn [mrf_nodes nodes_dim].
  destruct (dim =? 1)%nat eqn:E1; [lia|]. rewrite diff_of_order_1d, HD by exact Ho. cbn [option_map].
  destruct Hb as [-> | [-> | ->]]; reflexivity.
Qed.

(* ---- finding GMRF.__init__|rank:order0-periodic/neumann: wrong for EVERY size ---- *)
Theorem gmrf_rank_order0_wrong dim b : (2 <= dim)%nat -> b = Periodic \/ b = Neumann ->
  exists g, gmrf_init 1 dim b 0 = Some g /\ null_basis (g_prec g) dim [] /\ g_rank g = (dim - 1)%nat.
Proof.
  intros Hd Hb.
  assert (HD : fd_matrix 1 NoBC dim = Some (mk_mat dim dim (spd d1_eye))) by reflexivity.
  pose proof (gmrf_init_1d_fwd dim b 0 _ ltac:(lia) ltac:(lia) HD ltac:(tauto)) as Hg.
  eexists. split; [exact Hg|]. split.
  - apply nb_zero. intros x Hx. apply (gmrf_null_1d dim b 0 _ Hg eq_refl x Hx).
  - destruct Hb as [-> | ->]; reflexivity.
Qed.

(* ---- finding GMRF.__init__|rank:order2-neumann: wrong for EVERY size ---- *)
Theorem gmrf_rank_order2_neumann_wrong dim : (2 <= dim)%nat ->
  exists g, gmrf_init 1 dim Neumann 2 = Some g /\ null_basis (g_prec g) dim [ones dim; ramp dim] /\
            g_rank g = (dim - 1)%nat.
Proof.
  intros Hd.
  destruct (proj2 (fd_matrix_defined 2 Neumann dim) Hd) as [D HD].
  pose proof (gmrf_init_1d_fwd dim Neumann 2 D ltac:(lia) ltac:(lia) HD ltac:(tauto)) as Hg.
  eexists. split; [exact Hg|]. split; [|reflexivity].
  apply nb_affine; [exact Hd|]. intros x Hx. apply (gmrf_null_1d dim Neumann 2 _ Hg eq_refl x Hx).
Qed.

(* ---- finding periodic:N-below-stencil-width, seen through the field: dim 2, order 2 ---- *)
Theorem gmrf_rank_periodic_small_wrong :
  exists g, gmrf_init 1 2 Periodic 2 = Some g /\ null_basis (g_prec g) 2 [] /\ g_rank g = 1%nat.
Proof.
  exists (mkG 1 (gram 2 [[-1; 2]; [2; -1]; [-1; 2]; [2; -1]]) [[-1; 2]; [2; -1]; [-1; 2]; [2; -1]]).
  split; [vm_compute; reflexivity|]. split; [|reflexivity]. cbn [g_prec].
  apply nb_zero. intros x Hx.
  rewrite gram_null_iff by (try exact Hx; repeat constructor).
  destruct x as [|a [|c [|e x]]]; try discriminate. unfold zmatvec, matvec, zdot, zeros. cbn [map dot length repeat]. split; intros H.
  - pose proof (f_equal (fun v => nth 0 v 0) H) as H1. pose proof (f_equal (fun v => nth 1 v 0) H) as H2.
    cbn [nth] in H1, H2. f_equal; [lia | f_equal; lia].
  - injection H as -> ->. reflexivity.
Qed.

(* the three refutations in the existential form: a field whose coded rank is not dim - nullity *)
Theorem gmrf_rank_refuted_order0 :
  exists dim b g B, gmrf_rank_defect 0 b dim = true /\ gmrf_init 1 dim b 0 = Some g /\
    null_basis (g_prec g) dim B /\ (g_rank g + length B <> dim)%nat.
Proof.
  destruct (gmrf_rank_order0_wrong 7 Periodic ltac:(lia) ltac:(tauto)) as [g [H1 [H2 H3]]].
  exists 7%nat, Periodic, g, []. split; [reflexivity|]. split; [exact H1|]. split; [exact H2|]. rewrite H3. cbn. lia.
Qed.

Theorem gmrf_rank_refuted_order2_neumann :
  exists dim g B, gmrf_rank_defect 2 Neumann dim = true /\ gmrf_init 1 dim Neumann 2 = Some g /\
    null_basis (g_prec g) dim B /\ (g_rank g + length B <> dim)%nat.
Proof.
  destruct (gmrf_rank_order2_neumann_wrong 7 ltac:(lia)) as [g [H1 [H2 H3]]].
  exists 7%nat, g, [ones 7; ramp 7]. split; [reflexivity|]. split; [exact H1|]. split; [exact H2|]. rewrite H3. cbn. lia.
Qed.

Theorem gmrf_rank_refuted_periodic_small :
  exists dim g B, gmrf_rank_defect 2 Periodic dim = true /\ gmrf_init 1 dim Periodic 2 = Some g /\
    null_basis (g_prec g) dim B /\ (g_rank g + length B <> dim)%nat.
Proof.
  destruct gmrf_rank_periodic_small_wrong as [g [H1 [H2 H3]]].
  exists 2%nat, g, []. split; [reflexivity|]. split; [exact H1|]. split; [exact H2|]. rewrite H3. cbn. lia.
Qed.

(* ---- finding GMRF.__init__|logdet:dim-above-MAX_DIM_INV: above config.MAX_DIM_INV the code takes the
   log-determinant of the regularised matrix P + sqrt(eps) I, which is not the pseudo-determinant of P ---- *)
Theorem gmrf_logdet_bigdim_refuted :
  exists dim b order d_reg d_true,
    gmrf_expdet_reg 1 dim b order = Some d_reg /\ gmrf_expdet 1 dim b order = Some d_true /\
    ~ (d_reg * chol_shift b == d_true)%Q.
Proof.
  exists 4%nat, Periodic, 1%nat. eexists. eexists.
  split; [vm_compute; reflexivity|]. split; [vm_compute; reflexivity|].
  unfold Qeq. vm_compute. discriminate.
Qed.
