(* C15 -- the concavity hypothesis of C15_gauss_plus_concave_maximiser, PROVED for the prior classes the optimiser cells run:
   quadratic log-priors (Gaussian: D = identity, P = prior precision; GMRF: D = difference operator, P = prec I) and
   SmoothedLaplace  h(x) = const - sum_i w_i sqrt((x_i - loc_i)^2 + beta)  (w_i = 1 / scale_i >= 0, beta > 0) as coded in
   cuqi/distribution/_smoothed_laplace.py, with the gradient coded there.  Over R. *)
From Coq Require Import Reals Lra Lia.
From Coquelicot Require Import Coquelicot.
From CV Require Import Proofs.C15_Concave Proofs.C15_StrongQ.
Local Open Scope R_scope.

(* ---- quadratic log-priors: -1/2 (D x - c)^T P (D x - c) is loglik k n D P c ---- *)
Lemma quadratic_prior_concave k n (D P : rmat) (c : rvec) mh :
  sym_on k P -> (forall v, mh * nsq n v <= qf P k (mv D n v)) ->
  forall x y, loglik k n D P c y <= loglik k n D P c x + ip n (glik k n D P c x) (rsub y x) - mh / 2 * nsq n (rsub y x).
Proof. intros HS HC x y. rewrite (loglik_expansion k n D P c HS x y). specialize (HC (rsub y x)). lra. Qed.

(* in particular modulus 0 for every positive semi-definite P (GMRF: the improper prior) *)
Lemma quadratic_prior_concave0 k n (D P : rmat) (c : rvec) :
  sym_on k P -> (forall w, 0 <= qf P k w) ->
  forall x y, loglik k n D P c y <= loglik k n D P c x + ip n (glik k n D P c x) (rsub y x) - 0 / 2 * nsq n (rsub y x).
Proof. intros HS HP. apply quadratic_prior_concave; [exact HS|]. intros v. specialize (HP (mv D n v)). lra. Qed.

(* ---- SmoothedLaplace ---- *)
Definition sl_root (loc : rvec) (beta : R) (x : rvec) : rvec := fun i => sqrt ((x i - loc i) * (x i - loc i) + beta).
Definition slap (n : nat) (loc w : rvec) (beta : R) (x : rvec) : R := - ip n w (sl_root loc beta x).
Definition gslap (loc w : rvec) (beta : R) (x : rvec) : rvec := fun i => - (w i * (x i - loc i) / sl_root loc beta x i).

(* tangent-line inequality of t |-> sqrt(t^2 + beta) *)
Lemma sl_scalar beta s t : 0 < beta -> sqrt (t * t + beta) + t * (s - t) / sqrt (t * t + beta) <= sqrt (s * s + beta).
Proof.
  intros Hb. set (a := sqrt (t * t + beta)). set (c := sqrt (s * s + beta)).
  assert (Pt : 0 < t * t + beta) by nra. assert (Ps : 0 < s * s + beta) by nra.
  assert (Ha : 0 < a) by (apply sqrt_lt_R0; exact Pt). assert (Hc : 0 < c) by (apply sqrt_lt_R0; exact Ps).
  assert (Ea : a * a = t * t + beta) by (apply sqrt_sqrt; lra). assert (Ec : c * c = s * s + beta) by (apply sqrt_sqrt; lra).
  assert (K : beta + t * s <= a * c).
  { destruct (Rle_dec (beta + t * s) 0) as [L|L]; [nra|].
    assert (P1 : 0 <= beta + t * s) by lra.
    rewrite <- (sqrt_square (beta + t * s) P1). rewrite <- (sqrt_square (a * c)) by nra.
    apply sqrt_le_1; [nra | nra |].
    replace (a * c * (a * c)) with ((a * a) * (c * c)) by ring. rewrite Ea, Ec.
    pose proof (Rle_0_sqr (s - t)) as Q. unfold Rsqr in Q. nra. }
  apply (Rmult_le_reg_r a); [exact Ha|].
  replace ((a + t * (s - t) / a) * a) with (a * a + t * (s - t)) by (field; lra). rewrite Ea. nra.
Qed.

Lemma ip_le n (w u v : rvec) : (forall i, (i < n)%nat -> 0 <= w i) -> (forall i, (i < n)%nat -> u i <= v i) -> ip n w u <= ip n w v.
Proof.
  induction n as [|n IH]; intros Hw Huv; cbn [ip]; [lra|].
  pose proof (IH (fun i Hi => Hw i (Nat.lt_lt_succ_r _ _ Hi)) (fun i Hi => Huv i (Nat.lt_lt_succ_r _ _ Hi))) as I.
  pose proof (Hw n (Nat.lt_succ_diag_r n)) as W. pose proof (Huv n (Nat.lt_succ_diag_r n)) as U. nra.
Qed.

Lemma slap_concave n loc w beta : 0 < beta -> (forall i, (i < n)%nat -> 0 <= w i) ->
  forall x y, slap n loc w beta y <= slap n loc w beta x + ip n (gslap loc w beta x) (rsub y x) - 0 / 2 * nsq n (rsub y x).
Proof.
  intros Hb Hw x y. unfold slap.
  assert (T : ip n w (fun i => sl_root loc beta x i + (x i - loc i) * ((y i - loc i) - (x i - loc i)) / sl_root loc beta x i)
              <= ip n w (sl_root loc beta y)).
  { apply ip_le; [exact Hw|]. intros i _. unfold sl_root. apply sl_scalar. exact Hb. }
  assert (E : ip n w (fun i => sl_root loc beta x i + (x i - loc i) * ((y i - loc i) - (x i - loc i)) / sl_root loc beta x i)
              = ip n w (sl_root loc beta x) - ip n (gslap loc w beta x) (rsub y x)).
  { clear T Hw. induction n as [|k IH]; cbn [ip]; [ring|]. rewrite IH. unfold gslap, rsub.
    assert (NZ : sl_root loc beta x k <> 0).
    { unfold sl_root. apply Rgt_not_eq. apply sqrt_lt_R0. pose proof (Rle_0_sqr (x k - loc k)) as Q. unfold Rsqr in Q. lra. }
    field. exact NZ. }
  lra.
Qed.

(* the gradient coded in SmoothedLaplace.gradient is the derivative of the coded logpdf along every coordinate line
   (one coordinate; the sum over coordinates is linear) *)
Lemma sl_scalar_derive beta loc t : 0 < beta ->
  is_derive (fun s => - sqrt ((s - loc) * (s - loc) + beta)) t (- ((t - loc) / sqrt ((t - loc) * (t - loc) + beta))).
Proof.
  intros Hb. auto_derive.
  - pose proof (Rle_0_sqr (t + - loc)) as Q. unfold Rsqr in Q. lra.
  - assert (P : 0 < (t - loc) * (t - loc) + beta) by (pose proof (Rle_0_sqr (t - loc)) as Q; unfold Rsqr in Q; lra).
    assert (NZ : sqrt ((t - loc) * (t - loc) + beta) <> 0) by (apply Rgt_not_eq; apply sqrt_lt_R0; exact P).
    replace ((t + - loc) * (t + - loc) + beta) with ((t - loc) * (t - loc) + beta) by ring.
    field. exact NZ.
Qed.

(* ---- Laplace prior (non-smooth): h(x) = const - sum_i w_i |x_i - loc_i| with the supergradient selection -w_i sgn(x_i - loc_i)
        (sgn 0 := 1; any value in [-1, 1] would do at a kink) ---- *)
Definition sgn (t : R) : R := if Rle_dec 0 t then 1 else -1.
Definition lap (n : nat) (loc w : rvec) (x : rvec) : R := - ip n w (fun i => Rabs (x i - loc i)).
Definition glap (loc w : rvec) (x : rvec) : rvec := fun i => - (w i * sgn (x i - loc i)).

Lemma abs_tangent s t : Rabs t + sgn t * (s - t) <= Rabs s.
Proof.
  unfold sgn. destruct (Rle_dec 0 t) as [L|L].
  - rewrite (Rabs_right t) by lra. pose proof (Rle_abs s). lra.
  - rewrite (Rabs_left t) by lra. pose proof (Rle_abs (- s)) as Q. rewrite Rabs_Ropp in Q. lra.
Qed.

Lemma lap_concave n loc w : (forall i, (i < n)%nat -> 0 <= w i) ->
  forall x y, lap n loc w y <= lap n loc w x + ip n (glap loc w x) (rsub y x) - 0 / 2 * nsq n (rsub y x).
Proof.
  intros Hw x y. unfold lap.
  assert (T : ip n w (fun i => Rabs (x i - loc i) + sgn (x i - loc i) * ((y i - loc i) - (x i - loc i))) <= ip n w (fun i => Rabs (y i - loc i))).
  { apply ip_le; [exact Hw|]. intros i _. apply abs_tangent. }
  assert (E : ip n w (fun i => Rabs (x i - loc i) + sgn (x i - loc i) * ((y i - loc i) - (x i - loc i)))
              = ip n w (fun i => Rabs (x i - loc i)) - ip n (glap loc w x) (rsub y x)).
  { clear T Hw. induction n as [|k IH]; cbn [ip]; [ring|]. rewrite IH. unfold glap, rsub. ring. }
  lra.
Qed.

(* ---- composition with a linear map keeps the first-order inequality (modulus 0): x |-> h (D x) with (super)gradient D^T gh (D x).
        LMRF = Laplace o (difference operator); also any prior placed on a linear feature of x ---- *)
Lemma compose_linear_concave k n (D : rmat) (h : rvec -> R) (gh : rvec -> rvec) :
  (forall u v, h v <= h u + ip k (gh u) (rsub v u) - 0 / 2 * nsq k (rsub v u)) ->
  forall x y, h (mv D n y) <= h (mv D n x) + ip n (mtv D k (gh (mv D n x))) (rsub y x) - 0 / 2 * nsq n (rsub y x).
Proof.
  intros H x y. pose proof (H (mv D n x) (mv D n y)) as P. rewrite adjoint_R.
  assert (E : ip k (gh (mv D n x)) (rsub (mv D n y) (mv D n x)) = ip k (gh (mv D n x)) (mv D n (rsub y x))).
  { apply ip_ext; [reflexivity|]. intros i _. unfold rsub at 1. rewrite mv_sub. reflexivity. }
  rewrite E in P. lra.
Qed.

Lemma lmrf_concave k n (D : rmat) loc w : (forall i, (i < k)%nat -> 0 <= w i) ->
  forall x y, lap k loc w (mv D n y) <= lap k loc w (mv D n x) + ip n (mtv D k (glap loc w (mv D n x))) (rsub y x) - 0 / 2 * nsq n (rsub y x).
Proof. intros Hw. apply compose_linear_concave. apply lap_concave. exact Hw. Qed.

(* non-vacuity of the whole chain with a SmoothedLaplace prior: one parameter, A = 1, Pe = 1, data 1, loc 0, scale 1, beta = 3/4:
   the posterior gradient -(x - 1) - x / sqrt(x^2 + 3/4) vanishes at xs = 1/2 *)
Definition slA : rmat := fun _ _ => 1.
Definition slPe : rmat := fun _ _ => 1.
Definition slb : rvec := fun _ => 1.
Definition slloc : rvec := fun _ => 0.
Definition slw : rvec := fun _ => 1.
Definition slxs : rvec := fun _ => 1 / 2.

Lemma smoothed_laplace_example :
  sym_on 1 slPe /\
  (forall v, 1 * nsq 1 v <= qf slPe 1 (mv slA 1 v)) /\
  (forall x y, slap 1 slloc slw (3 / 4) y <= slap 1 slloc slw (3 / 4) x + ip 1 (gslap slloc slw (3 / 4) x) (rsub y x) - 0 / 2 * nsq 1 (rsub y x)) /\
  0 < 1 + 0 /\
  zero_on 1 (gpost 1 1 slA slPe slb (gslap slloc slw (3 / 4)) slxs).
Proof.
  split; [|split; [|split; [|split]]].
  - intros i j _ _. reflexivity.
  - intros v. unfold nsq, qf, mv, slA, slPe. cbn [ip]. apply Req_le. ring.
  - apply slap_concave; [lra | intros i _; unfold slw; lra].
  - lra.
  - intros i Hi. unfold gpost, glik, radd, ropp, mtv, res, rsub, gslap, sl_root, slA, slPe, slb, slloc, slw, slxs. cbn [ip]. unfold mv. cbn [ip].
    replace ((1 / 2 - 0) * (1 / 2 - 0) + 3 / 4) with 1 by field. rewrite sqrt_1. field.
Qed.
