(* C10 -- structural validation: what acceptance implies, what the probes can and cannot establish,
   the legacy interface, and Direct.  Over Q / lists; closed under the global context. *)
From CV Require Import Base.Tac Base.Cmp Model.C10_Conj.
From Coq Require Import QArith Qabs Qminmax Lqa.
Open Scope Q_scope.

(* ---------- refs: the variables whose callable mentions the parameter ---------- *)

Lemma refs_In par vars k f :
  In (k, f) (refs par vars) <-> exists args, In (k, ACallable args f) vars /\ str_in par args = true.
Proof.
  induction vars as [|[k0 a] r IH]; simpl.
  - split; [tauto | intros (args & [] & _)].
  - destruct a as [|args0 f0].
    + rewrite IH. split; intros (args & H & E); exists args; split; auto.
      destruct H as [H|H]; [discriminate | exact H].
    + destruct (str_in par args0) eqn:E0; simpl; rewrite IH.
      * split.
        -- intros [H|(args & H & E)]; [inv H; exists args0; auto | exists args; auto].
        -- intros (args & [H|H] & E); [inv H; auto | right; exists args; auto].
      * split.
        -- intros (args & H & E); exists args; auto.
        -- intros (args & [H|H] & E); [inv H; congruence | exists args; auto].
Qed.

(* ---------- acceptance by the experimental Conjugate ---------- *)

Definition accepted_structure (t : target) (key : string) : Prop :=
  t_is_posterior t = true /\ t_prior t = KGamma /\ t_prior_dim t = 1%nat
  /\ (is_plain (t_lik t) = true \/ (is_reg (t_lik t) = true /\ t_preset_nonneg t = true))
  /\ exists f, refs (t_par_name t) (t_mutable t) = [(key, f)]
               /\ ((key = s_cov /\ probe_reciprocal f = PTrue) \/ (key = s_prec /\ probe_identity f = true)).

Lemma get_param_inl t kv : get_conjugate_parameter t = inl kv -> refs (t_par_name t) (t_mutable t) = [kv].
Proof.
  unfold get_conjugate_parameter. destruct (refs _ _) as [|a [|b r]]; intros H; try discriminate.
  inv H. reflexivity.
Qed.

Lemma String_eqb_eq a b : String.eqb a b = true -> a = b.
Proof. apply String.eqb_eq. Qed.

Theorem validate_exp_accept t key : validate_exp t = Accept key -> accepted_structure t key.
Proof.
  unfold validate_exp, validate_gaussian_pair, accepted_structure.
  destruct (t_is_posterior t); simpl; [|discriminate].
  destruct (t_prior t); [|discriminate].
  destruct (is_plain (t_lik t) || is_reg (t_lik t)) eqn:Ek; [|discriminate].
  destruct (Nat.eqb (t_prior_dim t) 1) eqn:Ed; simpl; [|discriminate].
  apply Nat.eqb_eq in Ed.
  destruct (is_reg (t_lik t) && negb (t_preset_nonneg t)) eqn:Er; [discriminate|].
  destruct (get_conjugate_parameter t) as [[k f]|e] eqn:Eg; [|discriminate].
  apply get_param_inl in Eg.
  intros H. repeat split; auto.
  - destruct (is_plain (t_lik t)); [left; reflexivity|]. simpl in Ek. right. rewrite Ek in *. simpl in Er.
    split; [reflexivity|]. destruct (t_preset_nonneg t); [reflexivity | discriminate].
  - exists f.
    destruct (String.eqb k s_cov) eqn:E1.
    + apply String_eqb_eq in E1. subst k.
      destruct (probe_reciprocal f) eqn:Ep; inv H. split; [exact Eg | left; auto].
    + destruct (String.eqb k s_prec) eqn:E2; [|discriminate].
      apply String_eqb_eq in E2. subst k.
      destruct (probe_identity f) eqn:Ep; inv H. split; [exact Eg | right; auto].
Qed.

(* consequences spelled out as refusals *)
Corollary exp_rejects_nonscalar_gamma t : t_prior_dim t <> 1%nat -> forall key, validate_exp t <> Accept key.
Proof. intros H key E. apply validate_exp_accept in E. destruct E as (_ & _ & E & _). contradiction. Qed.

Corollary exp_rejects_multiple t : (length (refs (t_par_name t) (t_mutable t)) <> 1)%nat ->
  forall key, validate_exp t <> Accept key.
Proof.
  intros H key E. apply validate_exp_accept in E. destruct E as (_ & _ & _ & _ & f & E & _).
  rewrite E in H. simpl in H. lia.
Qed.

Corollary exp_rejects_other_keys t k f : refs (t_par_name t) (t_mutable t) = [(k, f)] ->
  k <> s_cov -> k <> s_prec -> forall key, validate_exp t <> Accept key.
Proof.
  intros Hr H1 H2 key E. apply validate_exp_accept in E. destruct E as (_ & _ & _ & _ & f' & E & [[-> _]|[-> _]]);
    rewrite Hr in E; inv E; congruence.
Qed.

Corollary exp_rejects_non_posterior t : t_is_posterior t = false -> validate_exp t = Reject RNotPosterior.
Proof. intros H. unfold validate_exp. rewrite H. reflexivity. Qed.

Corollary exp_rejects_other_pairs t : t_prior t = KOtherPrior \/ t_lik t = KLMRF \/ t_lik t = KOtherLik ->
  forall key, validate_exp t <> Accept key.
Proof.
  intros H key E. apply validate_exp_accept in E. destruct E as (_ & Ep & _ & Ek & _).
  destruct H as [H|[H|H]]; [congruence | |]; rewrite H in Ek; simpl in Ek; destruct Ek as [?|[? _]]; discriminate.
Qed.

(* ConjugateApprox: acceptance implies the LMRF/Gamma structure with a reciprocal-probed scale *)
Theorem validate_approx_accept t key : validate_approx t = Accept key ->
  t_lik t = KLMRF /\ t_prior t = KGamma /\ t_prior_dim t = 1%nat /\ t_location_sum_zero t = true
  /\ exists f, refs (t_par_name t) (t_mutable t) = [(s_scale, f)] /\ probe_reciprocal f = PTrue.
Proof.
  unfold validate_approx. destruct (t_lik t); try discriminate. destruct (t_prior t); try discriminate.
  destruct (t_is_posterior t); simpl; [|discriminate].
  destruct (Nat.eqb (t_prior_dim t) 1) eqn:Ed; simpl; [|discriminate]. apply Nat.eqb_eq in Ed.
  destruct (t_location_sum_zero t); simpl; [|discriminate].
  destruct (get_conjugate_parameter t) as [[k f]|e] eqn:Eg; [|discriminate].
  apply get_param_inl in Eg.
  destruct (String.eqb k s_scale) eqn:E1; [|discriminate]. apply String_eqb_eq in E1. subst k.
  destruct (probe_reciprocal f) eqn:Ep; try discriminate.
  intros _. repeat split; auto. exists f; auto.
Qed.

(* ---------- the legacy interface never looks at the dependence ---------- *)

Definition with_mutable (t : target) (vars : list (string * attr)) (par : string) : target :=
  {| t_is_posterior := t_is_posterior t; t_lik := t_lik t; t_prior := t_prior t; t_prior_dim := t_prior_dim t;
     t_par_name := par; t_mutable := vars; t_preset_nonneg := t_preset_nonneg t;
     t_location_sum_zero := t_location_sum_zero t |}.

Theorem legacy_ignores_dependence t vars par : validate_legacy (with_mutable t vars par) = validate_legacy t.
Proof. reflexivity. Qed.

Theorem legacy_approx_ignores_dependence t vars par :
  validate_legacy_approx (with_mutable t vars par) = validate_legacy_approx t.
Proof. reflexivity. Qed.

(* ---------- the probes ---------- *)

Lemma Qle_bool_true a b : Qle_bool a b = true <-> a <= b.
Proof. apply Qle_bool_iff. Qed.

Lemma allclose1_spec a b : allclose1 a b = true <-> Qabs (a - b) <= np_atol + np_rtol * Qabs b.
Proof. unfold allclose1. apply Qle_bool_iff. Qed.

Lemma Qabs_le_iff x y : Qabs x <= y <-> - y <= x /\ x <= y.
Proof. apply Qabs_Qle_condition. Qed.

Lemma allclose1_pos a b : 0 <= b ->
  (allclose1 a b = true <-> - (np_atol + np_rtol * b) <= a - b /\ a - b <= np_atol + np_rtol * b).
Proof. intros H. rewrite allclose1_spec, (Qabs_pos b H). apply Qabs_le_iff. Qed.

Ltac qpos := unfold Qle; simpl; lia.

(* the identity -- scalar or broadcast over any array shape -- passes *)
Lemma allclose1_refl x : 0 <= x -> allclose1 x x = true.
Proof.
  intros H. apply allclose1_pos; [exact H|]. unfold np_atol, np_rtol. split; nra.
Qed.

Theorem probe_identity_accepts_identity n : probe_identity (repeat DVar n) = true.
Proof.
  unfold probe_identity, probe_pts. rewrite !forallb_forall_iff. intros x Hx.
  apply forallb_forall_iff. intros e He. apply repeat_spec in He. subst e. simpl.
  apply allclose1_refl. simpl in Hx. destruct Hx as [<-|[<-|[<-|[]]]]; unfold Qle; simpl; lia.
Qed.

Theorem probe_reciprocal_accepts_reciprocal : probe_reciprocal [DInv DVar] = PTrue.
Proof. vm_compute. reflexivity. Qed.

(* powers of the parameter *)
Fixpoint dpow (p : nat) : dexp := match p with O => DConst 1 | S p' => DMul DVar (dpow p') end.

Lemma dpow_ge_100 p : (2 <= p)%nat -> 100 <= deval (dpow p) 10.
Proof.
  induction p as [|p IH]; [lia|]. intros H. destruct (Nat.eq_dec p 1) as [->|Hp].
  - vm_compute. discriminate.
  - assert (Hp2 : (2 <= p)%nat) by lia. specialize (IH Hp2). simpl. nra.
Qed.

Lemma probe_identity_single e :
  probe_identity [e] = true ->
  allclose1 (deval e 1) 1 = true /\ allclose1 (deval e 10) 10 = true /\ allclose1 (deval e 100) 100 = true.
Proof.
  unfold probe_identity, probe_pts. cbn [forallb]. rewrite !andb_true_r. intros H.
  apply andb_true_iff in H as [H1 H]. apply andb_true_iff in H as [H2 H3]. auto.
Qed.

Ltac open_allclose H :=
  apply allclose1_pos in H; [| qpos]; unfold np_atol, np_rtol in H; destruct H.

(* every monomial c * s^p accepted by the identity probe has p = 1 and |c - 1| <= 1.0001e-5 *)
Theorem probe_identity_monomial c p :
  probe_identity [DMul (DConst c) (dpow p)] = true -> p = 1%nat /\ Qabs (c - 1) <= 100001 # 10000000000.
Proof.
  intros H. apply probe_identity_single in H as (H1 & H10 & H100).
  destruct p as [|[|p]].
  - exfalso. cbn [deval dpow] in H1, H10. open_allclose H1. open_allclose H10. lra.
  - split; [reflexivity|]. cbn [deval dpow] in H100. open_allclose H100. apply Qabs_le_iff. split; lra.
  - exfalso. assert (Hp : 100 <= deval (dpow (S (S p))) 10) by (apply dpow_ge_100; lia).
    assert (P1 : forall k, deval (dpow k) 1 == 1) by (induction k as [|k IHk]; cbn [deval dpow]; [reflexivity | rewrite IHk; ring]).
    change (deval (DMul (DConst c) (dpow (S (S p)))) 1) with (c * deval (dpow (S (S p))) 1) in H1.
    change (deval (DMul (DConst c) (dpow (S (S p)))) 10) with (c * deval (dpow (S (S p))) 10) in H10.
    open_allclose H1. open_allclose H10. rewrite P1 in *. nra.
Qed.

(* affine maps: an explicit outer and inner neighbourhood of the identity *)
Theorem probe_identity_affine_outer a b :
  probe_identity [DAdd (DMul (DConst a) DVar) (DConst b)] = true ->
  Qabs (a - 1) <= 103 # 10000000 /\ Qabs b <= 205 # 10000000.
Proof.
  intros H. apply probe_identity_single in H as (H1 & H10 & H100). cbn [deval] in H1, H100.
  open_allclose H1. open_allclose H100. split; apply Qabs_le_iff; split; lra.
Qed.

Theorem probe_identity_affine_inner a b :
  Qabs (a - 1) <= 5 # 1000000 -> Qabs b <= 5 # 1000000 ->
  probe_identity [DAdd (DMul (DConst a) DVar) (DConst b)] = true.
Proof.
  intros Ha Hb. apply Qabs_le_iff in Ha as [Ha1 Ha2]. apply Qabs_le_iff in Hb as [Hb1 Hb2].
  unfold probe_identity, probe_pts. cbn [forallb deval]. rewrite !andb_true_r.
  repeat (apply andb_true_iff; split); (apply allclose1_pos; [qpos|]); unfold np_atol, np_rtol; split; lra.
Qed.

(* the probe is not a decision procedure: a polynomial that equals the identity at 1, 10, 100 only *)
Definition poly_witness : dexp :=
  let d x := DSub DVar (DConst x) in
  DAdd DVar (DMul (DMul (d 1) (d 10)) (d 100)).

Theorem probe_identity_refuted :
  exists f s, probe_identity [f] = true /\ ~ deval f s == s.
Proof. exists poly_witness, 2. split; [vm_compute; reflexivity | vm_compute; discriminate]. Qed.

(* ... and the experimental sampler therefore accepts a target whose precision is not the parameter *)
Definition witness_target (f : fval) : target :=
  {| t_is_posterior := true; t_lik := KGaussian; t_prior := KGamma; t_prior_dim := 1;
     t_par_name := s_scale; t_mutable := [(s_empty, AConst); (s_prec, ACallable [s_scale] f)];
     t_preset_nonneg := false; t_location_sum_zero := true |}.

Theorem exp_accepts_non_identity :
  exists f s, validate_exp (witness_target [f]) = Accept s_prec /\ ~ deval f s == s.
Proof. exists poly_witness, 2. split; [vm_compute; reflexivity | vm_compute; discriminate]. Qed.

(* the legacy sampler accepts what the experimental one refuses *)
Theorem legacy_accepts_unsupported :
  exists t, validate_legacy t = Accept s_empty /\ validate_exp t = Reject RWrongFun.
Proof. exists (witness_target [DMul DVar DVar]). split; vm_compute; reflexivity. Qed.

(* ---------- Direct ---------- *)

Section DirectProofs.
Variables (Rnd Pt : Type) (target_sample : Rnd -> Pt).

Theorem direct_run_is_target_sample st rs :
  snd (direct_run target_sample st rs) = map target_sample rs.
Proof.
  revert st; induction rs as [|r rs IH]; intros st; simpl; [reflexivity|].
  specialize (IH {| current_point := Some (target_sample r); n_steps := S (n_steps st) |}).
  destruct (direct_run target_sample _ rs) as [st2 out]. simpl in *. rewrite IH. reflexivity.
Qed.

Theorem direct_step_current st r : current_point (fst (direct_step target_sample st r)) = Some (target_sample r).
Proof. reflexivity. Qed.

Theorem direct_step_acc st r : snd (direct_step target_sample st r) = 1.
Proof. reflexivity. Qed.

Theorem direct_run_state st rs :
  n_steps (fst (direct_run target_sample st rs)) = (n_steps st + length rs)%nat
  /\ current_point (fst (direct_run target_sample st rs)) = match rev rs with [] => current_point st | r :: _ => Some (target_sample r) end.
Proof.
  revert st; induction rs as [|r rs IH]; intros st; simpl.
  - split; [lia | reflexivity].
  - specialize (IH {| current_point := Some (target_sample r); n_steps := S (n_steps st) |}).
    destruct (direct_run target_sample _ rs) as [st2 out]. simpl in *. destruct IH as [IH1 IH2].
    split; [lia|]. rewrite IH2. destruct (rev rs) as [|r' l] eqn:E; simpl; reflexivity.
Qed.
End DirectProofs.
