(* C06 -- the model's GMRF structure matrix P = D^T D: D is a square root of P in the sense of the theorems
   (P v = D^T (D v), every order 0-2, 1-d and 2-d, every N), so the GMRF factor (delta * P, mean) is a Gaussian factor
   with a square root whatever Cholesky factor the implementation computes. *)
From CV Require Import Base.Tac Base.LinAlg Base.Cmp Base.QcLin Model.C06_RTO Model.C06_FD Model.C06_GMRFop
                       Proofs.C06_Lin Proofs.C06_Forms Proofs.C06_FD.
From Coq Require Import QArith Qcanon.
Local Open Scope Qc_scope.

Lemma gmrf_diff_op_wf order (two_d : bool) b N :
  wf_mat (if two_d then N * N else N)%nat (gmrf_diff_op order two_d b N).
Proof.
  unfold gmrf_diff_op. destruct two_d.
  - unfold wf_mat. apply Forall_app. split; apply mk_matrix_wf.
  - apply mk_matrix_wf.
Qed.

Theorem gmrf_structure_sqrt order (two_d : bool) b N :
  sqrt_law Qc 0 Qcplus Qcmult (if two_d then N * N else N)%nat (gmrf_diff_op order two_d b N) (gmrf_structure order two_d b N).
Proof.
  intros v Hv. unfold gmrf_structure, q_gram, qmatmul, qtranspose. symmetry.
  apply (gram_law Qc 0 1 Qcplus Qcmult Qcminus Qcopp Qcrt); [apply gmrf_diff_op_wf | exact Hv].
Qed.
