(* C12 -- executable model of cuqi.model.Model / LinearModel / PDEModel input handling:
   _2fun / _2par / _apply_func / forward / gradient / _check_gradient_can_be_computed, the Jacobian
   wrapper of Model.__init__, PDEModel._gradient_func, and forward() on a distribution.
   Vectors are lists of Qc; function values of 2-d geometries are kept FLAT IN C ORDER.
   No proofs here. *)
From CV Require Import Base.Tac Base.LinAlg Base.QcLin Base.Cmp.
From Coq Require Import QArith Qcanon.
From Coq Require String.
Local Open Scope Qc_scope.

Definition vec := list Qc.
Definition mat := list vec.

(* Python exception class of a refusal *)
Inductive err := ENotImpl | EValue | EIndex | EKey.
Inductive res (A : Type) := Ok (a : A) | Err (e : err).
Arguments Ok {A}. Arguments Err {A}.

Definition bind {A B} (x : res A) (f : A -> res B) : res B :=
  match x with Ok a => f a | Err e => Err e end.
Definition rmap {A B} (f : A -> B) (x : res A) : res B :=
  match x with Ok a => Ok (f a) | Err e => Err e end.
Fixpoint mapM {A B} (f : A -> res B) (l : list A) : res (list B) :=
  match l with
  | [] => Ok []
  | a :: r => bind (f a) (fun b => bind (mapM f r) (fun bs => Ok (b :: bs)))
  end.

(* ------------------------------------------------------------------------------------------ *)
(* element-wise polynomial maps (MappedGeometry.map, user par2fun, forward non-linearity)      *)
(* ------------------------------------------------------------------------------------------ *)
Definition peval (cs : list Qc) (t : Qc) : Qc := fold_right (fun c acc => c + t * acc) 0 cs.
Definition pmap (cs : list Qc) (v : vec) : vec := map (peval cs) v.
(* formal derivative of a coefficient list: D(c + X p) = p + X D(p) *)
Fixpoint padd (p q : list Qc) : list Qc :=
  match p, q with
  | [], _ => q
  | _, [] => p
  | a :: p', b :: q' => (a + b) :: padd p' q'
  end.
Fixpoint pderiv (cs : list Qc) : list Qc :=
  match cs with
  | [] => []
  | _ :: p => padd p (0 :: pderiv p)
  end.
Definition omap (m : option (list Qc)) (v : vec) : vec :=
  match m with Some cs => pmap cs v | None => v end.

Fixpoint vmul (x y : vec) : vec :=        (* numpy x * y on equal shapes *)
  match x, y with a :: x', b :: y' => a * b :: vmul x' y' | _, _ => [] end.

(* ------------------------------------------------------------------------------------------ *)
(* geometries                                                                                  *)
(* ------------------------------------------------------------------------------------------ *)
Inductive gclass :=
| KDefault1D | KCont1D | KDiscrete          (* par = fun *)
| KImage2D | KDefault2D | KCont2D          (* reshapes *)
| KStep                                    (* StepExpansion (subclass of Continuous1D) *)
| KMapped                                  (* MappedGeometry *)
| KSub1D                                   (* user subclass of Continuous1D with its own par2fun *)
| KUser.                                   (* user subclass of Geometry *)

Definition gclass_eqb (a b : gclass) : bool :=
  match a, b with
  | KDefault1D, KDefault1D | KCont1D, KCont1D | KDiscrete, KDiscrete | KImage2D, KImage2D
  | KDefault2D, KDefault2D | KCont2D, KCont2D | KStep, KStep | KMapped, KMapped
  | KSub1D, KSub1D | KUser, KUser => true
  | _, _ => false
  end.

(* cuqi.geometry._get_identity_geometries(): membership by exact type *)
Definition identity_class (k : gclass) : bool :=
  match k with
  | KDefault1D | KDefault2D | KCont1D | KCont2D | KDiscrete | KImage2D => true
  | _ => false
  end.

Inductive proj := PMean | PMax | PMin.
Definition proj_eqb (a b : proj) : bool :=
  match a, b with PMean, PMean | PMax, PMax | PMin, PMin => true | _, _ => false end.

(* how the un-mapped part of par2fun / fun2par acts on flat vectors *)
Inductive conv :=
| CvId                                        (* identity, and C-order reshapes (flat layout unchanged) *)
| CvImgF (r c : nat)                          (* Image2D(order='F'): fun[i,j] = par[j*r+i] *)
| CvImgC (r c : nat)                          (* Image2D(order='C'), Continuous2D: length check only *)
| CvLin (K M : list (list Qc))               (* a linear expansion geometry (KLExpansion; class KStep = "a subclass of
                                                 Continuous1D"): par2fun p = K p, fun2par f = M f.  K, M are supplied by the
                                                 harness from the documented DST formulas, not read from the implementation *)
| CvStep (nfun : nat) (idx : list (list nat)) (pj : proj) (sq : bool).
                                              (* StepExpansion: idx = _indices; sq: fun2par ends in an unrestricted
                                                 squeeze() (today) instead of dropping only the axis of functions *)

Definition natll_eqb := list_eqb natl_eqb.
Definition conv_eqb (a b : conv) : bool :=
  match a, b with
  | CvId, CvId => true
  | CvImgF r c, CvImgF r' c' => Nat.eqb r r' && Nat.eqb c c'
  | CvImgC r c, CvImgC r' c' => Nat.eqb r r' && Nat.eqb c c'
  | CvLin K M, CvLin K' M' => qcll_eqb K K' && qcll_eqb M M'
  | CvStep n i p s, CvStep n' i' p' s' => Nat.eqb n n' && natll_eqb i i' && proj_eqb p p' && Bool.eqb s s'
  | _, _ => false
  end.

(* fun2par availability *)
Inductive f2p :=
| F2Base                       (* the un-mapped conversion *)
| F2NotImpl                    (* Geometry.fun2par: NotImplementedError *)
| F2NoImap                     (* MappedGeometry without imap: ValueError *)
| F2Imap (ics : list Qc).      (* MappedGeometry with imap (element-wise polynomial) *)

Definition f2p_eqb (a b : f2p) : bool :=
  match a, b with
  | F2Base, F2Base | F2NotImpl, F2NotImpl | F2NoImap, F2NoImap => true
  | F2Imap x, F2Imap y => qcl_eqb x y
  | _, _ => false
  end.

(* which argument a user callable's result inherits its ndarray subclass (CUQIarray tag) from: numpy
   gives the result of a binary operation the attributes of the leftmost CUQIarray operand *)
Inductive tsel :=
| SelNone          (* returns a fresh plain array (np.asarray on the inputs, np.array([...])) *)
| SelDir           (* derived from the first argument only *)
| SelDirWrt        (* first argument leftmost, second next *)
| SelWrtDir.       (* second argument leftmost, first next *)
Definition tsel_eqb (a b : tsel) : bool :=
  match a, b with
  | SelNone, SelNone | SelDir, SelDir | SelDirWrt, SelDirWrt | SelWrtDir, SelWrtDir => true
  | _, _ => false
  end.

(* the user-supplied `gradient(direction, wrt_par)` attribute of a geometry *)
Inductive ggrad :=
| GGDiag (dcs : list Qc) (sel : tsel)  (* direction * dmap(wrt_par), element-wise, in either order *)
| GGStepSum (idx : list (list nat))  (* StepExpansion: out_i = sum of direction over step i (fresh array) *)
| GGMatT (m : nat) (K : list (list Qc)). (* a linear expansion par2fun p = K p (KLExpansion): K.T @ np.asarray(direction), K with m columns *)

Definition ggrad_eqb (a b : ggrad) : bool :=
  match a, b with
  | GGDiag x s, GGDiag y s' => qcl_eqb x y && tsel_eqb s s'
  | GGStepSum x, GGStepSum y => natll_eqb x y
  | GGMatT m K, GGMatT m' K' => Nat.eqb m m' && qcll_eqb K K'
  | _, _ => false
  end.

Record geo := mkGeo {
  g_cls : gclass;
  g_pdim : nat;                       (* par_dim *)
  g_nfun : nat;                       (* number of function values (grid size for 1-d classes) *)
  g_conv : conv;
  g_map : option (list Qc);           (* element-wise map applied after the conversion *)
  g_f2p : f2p;
  g_grad : option ggrad;              (* `gradient` attribute, if any *)
  g_vid : nat                         (* identity of everything else __eq__ looks at: grid values,
                                         axis labels, the map/imap/gradient function objects *)
}.

Definition nthq (v : vec) (k : nat) : Qc := nth k v 0.

Definition img_par2fun (r c : nat) (p : vec) : vec :=
  flat_map (fun i => map (fun j => nthq p (j * r + i)) (seq 0 c)) (seq 0 r).
Definition img_fun2par (r c : nat) (f : vec) : vec :=
  flat_map (fun j => map (fun i => nthq f (i * c + j)) (seq 0 r)) (seq 0 c).

(* StepExpansion.par2fun: for i in range(n_steps): fun[_indices[i]] = p[i]  (later i wins) *)
Fixpoint step_owner (idx : list (list nat)) (k i : nat) (acc : option nat) : option nat :=
  match idx with
  | [] => acc
  | s :: r => step_owner r k (S i) (if existsb (Nat.eqb k) s then Some i else acc)
  end.
Definition step_par2fun (nfun : nat) (idx : list (list nat)) (p : vec) : vec :=
  map (fun k => match step_owner idx k 0 None with Some i => nthq p i | None => 0 end) (seq 0 nfun).

(* StepExpansion as a linear map: the 0/1 matrix S with S[k][i] = 1 iff node k takes parameter i, and the
   well-formedness of the index family (each index set is the fibre of `step_owner`) *)
Definition owner_is (idx : list (list nat)) (k i : nat) : bool :=
  match step_owner idx k 0 None with Some j => Nat.eqb j i | None => false end.
Definition ind (b : bool) : Qc := if b then 1 else 0.
Definition step_jac (nfun : nat) (idx : list (list nat)) : mat :=
  map (fun k => map (fun i => ind (owner_is idx k i)) (seq 0 (length idx))) (seq 0 nfun).
(* the index sets are exactly the fibres of `owner` (a partition of the nodes that are covered) *)
Definition step_wf (nfun : nat) (idx : list (list nat)) : bool :=
  forallb (fun i => natl_eqb (nth i idx []) (filter (fun k => owner_is idx k i) (seq 0 nfun))) (seq 0 (length idx)).

Definition qmax (a b : Qc) : Qc := if Qle_bool (this a) (this b) then b else a.
Definition qmin (a b : Qc) : Qc := if Qle_bool (this a) (this b) then a else b.
Definition qsumv (v : vec) : Qc := fold_right Qcplus 0 v.
Definition project (pj : proj) (vals : vec) : res Qc :=
  match vals with
  | [] => Err EValue        (* empty step: outside the generator (np.max raises, np.mean gives nan) *)
  | a :: r =>
      Ok match pj with
         | PMax => fold_left qmax r a
         | PMin => fold_left qmin r a
         | PMean => qsumv vals / Q2Qc (inject_Z (Z.of_nat (length vals)))
         end
  end.
Definition step_fun2par (idx : list (list nat)) (pj : proj) (f : vec) : res vec :=
  mapM (fun s => project pj (map (nthq f) s)) idx.

(* `in2d`: the value handed to par2fun already is an (r, c) array (a column of a Samples object of
   function values): reshape((r, c, -1), order) of an (r, c) array is that array, in either order *)
Definition conv_par2fun (cv : conv) (in2d : bool) (p : vec) : res vec :=
  match cv with
  | CvId => Ok p
  | CvImgF r c => if Nat.eqb (length p) (r * c) then Ok (if in2d then p else img_par2fun r c p) else Err EValue
  | CvImgC r c => if Nat.eqb (length p) (r * c) then Ok p else Err EValue
  | CvLin K _ => match K with
                 | [] => Err EValue
                 | row :: _ => if Nat.eqb (length p) (length row) then Ok (qmatvec K p) else Err EValue
                 end
  | CvStep nfun idx _ _ => if Nat.eqb (length p) (length idx) then Ok (step_par2fun nfun idx p) else Err EValue
  end.

(* `flat1d`: the value handed to fun2par is a 1-d array although the geometry's function values are
   2-d (the product direction@J, A.T@direction): ravel/reshape of a 1-d array is the identity *)
Definition conv_fun2par (cv : conv) (flat1d : bool) (f : vec) : res vec :=
  match cv with
  | CvId => Ok f
  | CvImgF r c => if flat1d then Ok f
                  else if Nat.eqb (length f) (r * c) then Ok (img_fun2par r c f) else Err EValue
  | CvImgC r c => if flat1d then Ok f else if Nat.eqb (length f) (r * c) then Ok f else Err EValue
  | CvLin K M => if Nat.eqb (length f) (length K) then Ok (qmatvec M f) else Err EValue
  | CvStep nfun idx pj _ => if Nat.eqb (length f) nfun then step_fun2par idx pj f else Err EValue
  end.

(* the classes whose par2fun/fun2par are the inherited identities, whatever else the record says *)
Definition plain1d (k : gclass) : bool :=
  match k with KDefault1D | KCont1D | KDiscrete => true | _ => false end.

Definition g_par2fun_gen (g : geo) (in2d : bool) (p : vec) : res vec :=
  if plain1d (g_cls g) then Ok p
  else rmap (omap (g_map g)) (conv_par2fun (g_conv g) in2d p).
Definition g_par2fun (g : geo) (p : vec) : res vec := g_par2fun_gen g false p.

Definition g_fun2par_gen (g : geo) (flat1d : bool) (f : vec) : res vec :=
  if plain1d (g_cls g) then Ok f
  else match g_f2p g with
       | F2Base => conv_fun2par (g_conv g) flat1d f
       | F2NotImpl => Err ENotImpl
       | F2NoImap => Err EValue
       | F2Imap ics => conv_fun2par (g_conv g) flat1d (pmap ics f)
       end.
Definition g_fun2par (g : geo) (f : vec) : res vec := g_fun2par_gen g false f.

(* the conversions return an array derived from their argument by reshape / ravel / element-wise
   arithmetic (numpy keeps the ndarray subclass and its attributes) -- or, for StepExpansion, a fresh
   np.zeros array filled by assignment (plain ndarray) *)
Definition g_keeps (g : geo) : bool :=
  plain1d (g_cls g) || match g_conv g with CvStep _ _ _ _ | CvLin _ _ => false | _ => true end.

(* fun2par ends in .squeeze(): a single-parameter StepExpansion returns a 0-d array *)
Definition g_f2p_0d (g : geo) : bool :=
  negb (plain1d (g_cls g)) &&
  match g_f2p g, g_conv g with
  | (F2Base | F2Imap _), CvStep _ idx _ sq => sq && Nat.eqb (length idx) 1
  | (F2Base | F2Imap _), CvLin _ M => Nat.eqb (length M) 1
  | _, _ => false
  end.

Definition has_grad (g : geo) : bool := match g_grad g with Some _ => true | None => false end.

(* function values are 2-d arrays (both sides >= 2 in everything generated) *)
Definition fun_is_2d (g : geo) : bool :=
  if plain1d (g_cls g) then false
  else match g_conv g with CvImgF _ _ | CvImgC _ _ => true | _ => false end.

Definition ggrad_apply (gg : ggrad) (d wp : vec) : vec :=
  match gg with
  | GGDiag dcs _ => vmul (pmap dcs wp) d
  | GGStepSum idx => map (fun s => qsumv (map (nthq d) s)) idx
  | GGMatT m K => qmattvec m K d
  end.
Definition ggrad_sel (gg : ggrad) : tsel :=
  match gg with GGDiag _ s => s | GGStepSum _ | GGMatT _ _ => SelNone end.

(* ---- Geometry.__eq__ as reached from `array.geometry == model_geometry` (a = left operand) ----
   Same class: all attribute values equal.  _DefaultGeometry1D and Continuous1D with the same grid
   are equal in both orders (the default overrides __eq__, and as a subclass its reflected method
   has priority).  _DefaultGeometry1D.__eq__ accepts ANY Continuous1D instance and compares only
   its own attributes (grid, axis labels): with `q_defeq` (today's code) it therefore also equals
   a StepExpansion / user subclass on the same grid. *)
Record quirks := mkQ {
  q_defeq : bool;          (* _DefaultGeometry1D.__eq__ accepts strict subclasses of Continuous1D *)
  q_samples_par : bool;    (* _apply_func treats every Samples column as parameters (flag ignored) *)
  q_typeis : bool;         (* _apply_func decides "input is a CUQIarray" by `type(x) is CUQIarray`: an instance of
                              a SUBCLASS of CUQIarray is converted like one but its output is not re-wrapped *)
  q_isid : bool;           (* CUQIarray.funvals / .parameters test `is_par is True` / `is_par is False`: an is_par
                              given as numpy.bool_ or 0/1 is neither, so funvals returns the array unconverted
                              and parameters returns it unconverted *)
  q_tagleak : bool;        (* gradient hands wrt.funvals to the user callables WITH its CUQIarray tag *)
  q_eqidx : bool           (* _all_values_equal indexes list attributes of different length (IndexError)
                              and looks up every attribute of the left operand in the right one (KeyError) *)
}.
Definition q_today : quirks := mkQ true true true true true true.
Definition q_fixed : quirks := mkQ false false false false false false.

Definition opt_qcl_eqb := opt_eqb qcl_eqb.
Definition fields_eqb (a b : geo) : bool :=
  gclass_eqb (g_cls a) (g_cls b) && Nat.eqb (g_pdim a) (g_pdim b) && Nat.eqb (g_nfun a) (g_nfun b) &&
  conv_eqb (g_conv a) (g_conv b) && opt_qcl_eqb (g_map a) (g_map b) && f2p_eqb (g_f2p a) (g_f2p b) &&
  opt_eqb ggrad_eqb (g_grad a) (g_grad b) && Nat.eqb (g_vid a) (g_vid b).
Definition grid_eqb (a b : geo) : bool := Nat.eqb (g_nfun a) (g_nfun b) && Nat.eqb (g_vid a) (g_vid b).

(* `gradient` attached to a geometry OBJECT (geometry.gradient = f, as the library's tests and demos do):
   an entry of vars() that only one of two otherwise equal geometries has.  _all_values_equal walks
   vars(left): an attribute only the right operand has is never looked at *)
Definition set_grad (g : geo) (gr : option ggrad) : geo :=
  mkGeo (g_cls g) (g_pdim g) (g_nfun g) (g_conv g) (g_map g) (g_f2p g) gr (g_vid g).
Definition inst_grad_class (k : gclass) : bool := match k with KStep | KMapped | KCont1D => true | _ => false end.
Definition grad_only_left (a b : geo) : bool :=
  inst_grad_class (g_cls a) && has_grad a && negb (has_grad b) && fields_eqb (set_grad a None) b.
Definition grad_only_right (a b : geo) : bool :=
  inst_grad_class (g_cls a) && negb (has_grad a) && has_grad b && fields_eqb a (set_grad b None).

Definition geo_eqb (q : quirks) (a b : geo) : bool :=
  match g_cls a, g_cls b with
  | KDefault1D, KCont1D | KCont1D, KDefault1D => grid_eqb a b
  | KDefault1D, KStep | KDefault1D, KSub1D => q_defeq q && grid_eqb a b
  | KDefault2D, KImage2D | KImage2D, KDefault2D =>
      conv_eqb (g_conv a) (g_conv b) && Nat.eqb (g_pdim a) (g_pdim b) && Nat.eqb (g_vid a) (g_vid b)
      && opt_qcl_eqb (g_map a) (g_map b) && f2p_eqb (g_f2p a) (g_f2p b)
  | _, _ => fields_eqb a b || grad_only_right a b
  end.

(* ... and as it actually runs: two Discrete geometries with a different number of variables make
   _all_values_equal walk off the end of the shorter `_variables` list *)
Definition geo_eq (q : quirks) (a b : geo) : res bool :=
  match g_cls a, g_cls b with
  | KDiscrete, KDiscrete =>
      if q_eqidx q && negb (Nat.eqb (g_pdim a) (g_pdim b)) then Err EIndex else Ok (geo_eqb q a b)
  | _, _ => if q_eqidx q && grad_only_left a b then Err EKey else Ok (geo_eqb q a b)
  end.

(* ------------------------------------------------------------------------------------------ *)
(* values in flight: an ndarray, possibly a CUQIarray (tag = its geometry and is_par)           *)
(* ------------------------------------------------------------------------------------------ *)
Definition tag := option (geo * bool).

Definition pick (s : tsel) (t1 t2 : tag) : tag :=
  match s with
  | SelNone => None
  | SelDir => t1
  | SelDirWrt => match t1 with Some _ => t1 | None => t2 end
  | SelWrtDir => match t2 with Some _ => t2 | None => t1 end
  end.

(* Model._2fun; in2d: see conv_par2fun *)
Definition two_fun_gen (q : quirks) (geom : geo) (in2d : bool) (x : vec) (t : tag) (is_par : bool) : res (vec * tag) :=
  match t with
  | Some (gt, tp) =>
      bind (geo_eq q gt geom) (fun same =>
      if same then                                      (* x.funvals: re-wrapped with is_par=False *)
        if tp then rmap (fun f => (f, Some (gt, false))) (g_par2fun gt x) else Ok (x, Some (gt, false))
      else if is_par then rmap (fun f => (f, if g_keeps geom then t else None)) (g_par2fun geom x) else Ok (x, t))
  | None => if is_par then rmap (fun f => (f, None)) (g_par2fun_gen geom in2d x) else Ok (x, None)
  end.
Definition two_fun q geom x t is_par := two_fun_gen q geom false x t is_par.

(* Model._2par without the final wrapping: value, the tag it carries afterwards, 0-d flag *)
Record p2r := mkP2 { p_v : vec; p_tag : tag; p_0d : bool }.

Definition two_par_gen (q : quirks) (geom : geo) (flat1d : bool) (val : vec) (t : tag) (is_par : bool) : res p2r :=
  match t with
  | Some (gt, tp) =>
      bind (geo_eq q gt geom) (fun same =>
      if same then                                      (* val.parameters: the array's OWN geometry converts *)
        if tp then Ok (mkP2 val (Some (gt, true)) false)
        else rmap (fun v => mkP2 v (Some (gt, true)) (g_f2p_0d gt)) (g_fun2par_gen gt flat1d val)
      else if is_par then Ok (mkP2 val t false)
      else rmap (fun v => mkP2 v (if g_keeps geom then t else None) (g_f2p_0d geom)) (g_fun2par_gen geom flat1d val))
  | None => if is_par then Ok (mkP2 val None false)
            else rmap (fun v => mkP2 v None (g_f2p_0d geom)) (g_fun2par_gen geom flat1d val)
  end.
Definition two_par q geom val t is_par := two_par_gen q geom false val t is_par.

(* the forward callable: what it computes on (flat) function values and whether a CUQIarray input
   comes back as a CUQIarray (numpy subclass propagation; scipy solvers return plain arrays) *)
Record fwd := mkFwd { f_apply : vec -> vec; f_keeps_tag : bool }.

Inductive input :=
| InVec (v : vec)                           (* ndarray *)
| InArr (g : geo) (apar : bool) (v : vec)   (* CUQIarray(v, is_par=apar, geometry=g) *)
| InSub (g : geo) (apar : bool) (v : vec)   (* instance of a user subclass of CUQIarray, same attributes *)
| InSamples (items2d : bool) (cols : list vec).   (* Samples, one column per sample; items2d: each
                                               sample is an (r, c) array of function values *)

(* z: the array is 0-d *)
Inductive output :=
| OutVec (v : vec) (z : bool)
| OutArr (g : geo) (v : vec) (z : bool)     (* CUQIarray(v, is_par=True, geometry=g) *)
| OutSub (g : geo) (ip : bool) (v : vec) (z : bool)   (* subclass instance still labelled (g, is_par=ip) *)
| OutSamples (g : geo) (cols : list vec).   (* Samples(out, geometry=g) *)

(* the end of _2par: wrapped with `geom` on request, else whatever the value is by now *)
Definition wrap_out (to_arr : bool) (geom : geo) (r : p2r) : output :=
  if to_arr then OutArr geom (p_v r) (p_0d r)
  else match p_tag r with
       | Some (g, _) => OutArr g (p_v r) (p_0d r)
       | None => OutVec (p_v r) (p_0d r)
       end.

(* a subclass instance that was not re-wrapped: it keeps whatever label it ended up with *)
Definition wrap_sub (r : p2r) : output :=
  match p_tag r with
  | Some (g, ip) => OutSub g ip (p_v r) (p_0d r)
  | None => OutVec (p_v r) (p_0d r)
  end.

(* Model._apply_func on one array *)
Definition apply_one (q : quirks) (F : fwd) (rg dg : geo) (in2d : bool) (x : vec) (t : tag) (is_par : bool) : res p2r :=
  bind (two_fun_gen q dg in2d x t is_par) (fun xt =>
    two_par q rg (f_apply F (fst xt)) (if f_keeps_tag F then snd xt else None) false).

(* Model.forward / _apply_func (non-distribution input); `is_par` is the keyword argument *)
Definition forward (q : quirks) (F : fwd) (rg dg : geo) (x : input) (is_par : bool) : res output :=
  match x with
  | InVec v => rmap (wrap_out false rg) (apply_one q F rg dg false v None is_par)
  | InArr g ap v => rmap (wrap_out true rg) (apply_one q F rg dg false v (Some (g, ap)) is_par)
  | InSub g ap v => rmap (fun r => if q_typeis q then wrap_sub r else wrap_out true rg r)
                         (apply_one q F rg dg false v (Some (g, ap)) is_par)
  | InSamples s2d cols =>
      rmap (OutSamples rg)
           (mapM (fun c => rmap p_v (apply_one q F rg dg s2d c None (if q_samples_par q then true else is_par))) cols)
  end.

(* ------------------------------------------------------------------------------------------ *)
(* gradient                                                                                    *)
(* ------------------------------------------------------------------------------------------ *)
(* numpy `d @ J` for 1-d d: out_j = sum_i d_i J_ij ; n = number of columns *)
Definition vecmat (n : nat) (d : vec) (J : mat) : vec :=
  map (fun j => qdot d (col 0 J j)) (seq 0 n).

(* the model's _gradient_func.  jt: the user's jacobian(wrt) returns an array that still carries
   wrt's subclass (computed from wrt without np.asarray) *)
Inductive gfun :=
| GNone                                               (* no gradient / jacobian given *)
| GJac (n : nat) (J : vec -> mat) (jt : bool)         (* Model(jacobian=J): lambda d, w: d @ J(w) *)
| GDir (h : vec -> vec -> vec) (shaped : bool) (sel : tsel)
                                                      (* Model(gradient=h); shaped: h returns an array
                                                         of the domain's function shape (else 1-d) *)
| GAdjMat (n : nat) (A : mat)                         (* LinearModel(matrix): A.T @ d *)
| GAdjFun (a : vec -> vec) (shaped : bool) (sel : tsel)   (* LinearModel(forward, adjoint): adjoint(d) *)
| GPde (gw : option ((vec -> vec -> vec) * tsel)) (jw : option (nat * (vec -> mat) * bool)).
                                                      (* PDEModel: pde.gradient_wrt_parameter first,
                                                         else d @ pde.jacobian_wrt_parameter(w) *)

Definition jac_sel (jt : bool) : tsel := if jt then SelDirWrt else SelDir.

(* result, whether it is a flat 1-d array, and where its tag comes from; dir2d: the direction is 2-d *)
Definition run_gfun (gf : gfun) (dir2d : bool) (d w : vec) : res (vec * bool * tsel) :=
  match gf with
  | GNone => Err ENotImpl
  | GJac n J jt => if dir2d then Err EValue (* matmul shape mismatch *) else Ok (vecmat n d (J w), true, jac_sel jt)
  | GDir h shaped sel => Ok (h d w, negb shaped, sel)
  | GAdjMat n A => if dir2d then Err EValue else Ok (qmattvec n A d, true, SelDir)
  | GAdjFun a shaped sel => Ok (a d, negb shaped, match sel with SelNone => SelNone | _ => SelDir end)
  | GPde (Some (g, sel)) _ => Ok (g d w, true, sel)
  | GPde None (Some (n, J, jt)) => if dir2d then Err EValue else Ok (vecmat n d (J w), true, jac_sel jt)
  | GPde None None => Err ENotImpl
  end.

Inductive ginput :=
| GiVec (v : vec)
| GiArr (g : geo) (apar : bool) (v : vec)
| GiArrOdd (g : geo) (truthy : bool) (v : vec)   (* CUQIarray whose is_par is numpy.bool_(truthy) / int(truthy) *)
| GiSamples.

Definition gi_samples (x : ginput) : bool := match x with GiSamples => true | _ => false end.
Definition gi_vec (x : ginput) : vec := match x with GiVec v | GiArr _ _ v | GiArrOdd _ _ v => v | GiSamples => [] end.
Definition gi_tag (x : ginput) : tag := match x with GiArr g ap _ => Some (g, ap) | _ => None end.
(* the tag as .parameters sees it (anything but `False` is "parameters") and as .funvals sees it (anything but
   `True` is "function values") *)
Definition gi_tag_par (q : quirks) (x : ginput) : tag :=
  match x with GiArrOdd g t _ => Some (g, if q_isid q then true else t) | _ => gi_tag x end.
Definition gi_tag_fun (q : quirks) (x : ginput) : tag :=
  match x with GiArrOdd g t _ => Some (g, if q_isid q then false else t) | _ => gi_tag x end.
Definition gi_is_arr (x : ginput) : bool := match x with GiArr _ _ _ | GiArrOdd _ _ _ => true | _ => false end.

(* Model.gradient.  A Samples `wrt` is only modelled with is_wrt_par=True (the first conversion
   then leaves it alone and the Samples check refuses it). *)
Definition gradient (q : quirks) (gf : gfun) (rg dg : geo) (direction wrt : ginput) (dpar wpar : bool)
  : res output :=
  (* wrt_par = self._2par(wrt, domain_geometry, is_par=is_wrt_par); ValueError / NotImplementedError
     are re-raised with the same class *)
  bind (if gi_samples wrt then Ok (mkP2 [] None false) else two_par q dg (gi_vec wrt) (gi_tag_par q wrt) wpar) (fun wp =>
  (* _check_gradient_can_be_computed *)
  match gf with GNone => Err ENotImpl | _ =>
  if gi_samples direction || gi_samples wrt then Err EValue
  else if negb (identity_class (g_cls rg)) then Err ENotImpl
  else if negb (has_grad dg) && negb (identity_class (g_cls dg)) then Err ENotImpl
  else
    bind (two_fun q dg (gi_vec wrt) (gi_tag_fun q wrt) wpar) (fun wf =>
    bind (two_fun q rg (gi_vec direction) (gi_tag_fun q direction) dpar) (fun df =>
    bind (run_gfun gf (fun_is_2d rg) (fst df) (fst wf)) (fun gfl =>
    let '(gv, flat, sel) := gfl in
    let tg := pick sel (snd df) (if q_tagleak q then snd wf else None) in
    match g_grad dg with
    | Some gg =>                                             (* grad_is_par = True *)
        rmap (wrap_out (gi_is_arr direction) dg)
             (two_par_gen q dg flat (ggrad_apply gg gv (p_v wp)) (pick (ggrad_sel gg) tg (p_tag wp)) true)
    | None =>
        rmap (wrap_out (gi_is_arr direction) dg) (two_par_gen q dg flat gv tg false)
    end)))
  end).

(* ------------------------------------------------------------------------------------------ *)
(* forward() on a distribution: copy + rename; argument parsing                                 *)
(* ------------------------------------------------------------------------------------------ *)
Notation string := String.string.
Record model_obj := mkModel {
  m_forward_func : nat;            (* object identities of the attributes *)
  m_gradient_func : nat;
  m_range : nat;
  m_domain : nat;
  m_domain_dim : nat;
  m_args : list string;            (* _non_default_args *)
  m_extra : list (string * nat)    (* _adjoint_func, _matrix, pde, ... *)
}.

Definition forward_dist (m : model_obj) (dist_name : string) (dist_dim : nat) : res model_obj :=
  if Nat.eqb dist_dim (m_domain_dim m)
  then Ok (mkModel (m_forward_func m) (m_gradient_func m) (m_range m) (m_domain m) (m_domain_dim m)
                   [dist_name] (m_extra m))
  else Err EValue.

(* _parse_args_add_to_kwargs + the keyword checks of forward: which model argument the single
   input is bound to; npos positional arguments, kws keyword names *)
Definition bind_args (m : model_obj) (npos : nat) (kws : list string) : res string :=
  match npos, kws, m_args m with
  | S _, _ :: _, _ => Err EValue
  | S O, [], [a] => Ok a
  | S _, [], _ => Err EValue
  | O, [k], [a] => if String.eqb k a then Ok a else Err EValue
  | O, _, _ => Err EValue
  end.

(* ------------------------------------------------------------------------------------------ *)
(* executable descriptions used by the generated cases                                         *)
(* ------------------------------------------------------------------------------------------ *)
(* F(x) = A . phi(x) + b with phi element-wise polynomial cs;  J(x) = A . diag(dphi(x)) *)
Definition vaddq := qvadd.
Definition poly_forward (A : mat) (cs : list Qc) (b : vec) (x : vec) : vec :=
  qvadd (qmatvec A (pmap cs x)) b.
Definition poly_jac (A : mat) (dcs : list Qc) (x : vec) : mat :=
  map (fun row => vmul row (pmap dcs x)) A.
(* direction-Jacobian product written the way a user would: dphi(w) * (A^T d) *)
Definition poly_dir (n : nat) (A : mat) (dcs : list Qc) (d w : vec) : vec :=
  vmul (pmap dcs w) (qmattvec n A d).

(* ------------------------------------------------------------------------------------------ *)
(* checkers for the generated case files                                                        *)
(* ------------------------------------------------------------------------------------------ *)
Definition err_eqb (a b : err) : bool :=
  match a, b with ENotImpl, ENotImpl | EValue, EValue | EIndex, EIndex | EKey, EKey => true | _, _ => false end.

(* observed output: kind (0 ndarray, 1 CUQIarray, 2 Samples) + columns, or the exception class;
   geometry identity (`out.geometry is model.range_geometry`) is reported by the harness as a flag *)
Inductive observed := ObsVal (kind : nat) (cols : list (list Q)) | ObsErr (e : err).

(* 0 ndarray 1-d, 1 CUQIarray 1-d, 2 Samples, 3 ndarray 0-d, 4 CUQIarray 0-d *)
Definition out_kind (o : output) : nat :=
  match o with
  | OutVec _ z => if z then 3%nat else 0%nat
  | OutArr _ _ z => if z then 4%nat else 1%nat
  | OutSub _ ip _ z => ((if ip then 5 else 7) + (if z then 1 else 0))%nat
  | OutSamples _ _ => 2%nat
  end.
Definition out_cols (o : output) : list vec :=
  match o with OutVec v _ => [v] | OutArr _ v _ => [v] | OutSub _ _ v _ => [v] | OutSamples _ cs => cs end.

Definition check_out (r : res output) (o : observed) : bool :=
  match r, o with
  | Ok out, ObsVal k cols => Nat.eqb (out_kind out) k && qcll_eqb (out_cols out) (qmat cols)
  | Err e, ObsErr e' => err_eqb e e'
  | _, _ => false
  end.

Definition check_forward (q : quirks) (F : fwd) (rg dg : geo) (x : input) (is_par : bool)
           (o : observed) (geom_is_range : bool) : bool :=
  check_out (forward q F rg dg x is_par) o && geom_is_range.

Definition check_gradient (q : quirks) (gf : gfun) (rg dg : geo) (d w : ginput) (dpar wpar : bool)
           (o : observed) (geom_is_domain : bool) : bool :=
  check_out (gradient q gf rg dg d w dpar wpar) o && geom_is_domain.

(* tolerance cell class (real-valued DST geometries): values within 1e-9 relative of the model's exact rationals *)
Definition check_out_tol (r : res output) (o : observed) : bool :=
  match r, o with
  | Ok out, ObsVal k cols => Nat.eqb (out_kind out) k && qcll_close tol9 (qmat cols) (out_cols out)
  | Err e, ObsErr e' => err_eqb e e'
  | _, _ => false
  end.
Definition check_forward_tol (q : quirks) (F : fwd) (rg dg : geo) (x : input) (is_par : bool)
           (o : observed) (geom_is_range : bool) : bool :=
  check_out_tol (forward q F rg dg x is_par) o && geom_is_range.

Definition check_gradient_tol (q : quirks) (gf : gfun) (rg dg : geo) (d w : ginput) (dpar wpar : bool)
           (o : observed) (geom_is_domain : bool) : bool :=
  check_out_tol (gradient q gf rg dg d w dpar wpar) o && geom_is_domain.

(* cells in which only "refused" is compared (exception class not modelled) *)
Definition check_refused (r : res output) (raised : bool) : bool :=
  match r with Err _ => raised | Ok _ => negb raised end.

Definition model_eqb (a b : model_obj) : bool :=
  Nat.eqb (m_forward_func a) (m_forward_func b) && Nat.eqb (m_gradient_func a) (m_gradient_func b) &&
  Nat.eqb (m_range a) (m_range b) && Nat.eqb (m_domain a) (m_domain b) &&
  Nat.eqb (m_domain_dim a) (m_domain_dim b) && strl_eqb (m_args a) (m_args b) &&
  list_eqb (fun x y => String.eqb (fst x) (fst y) && Nat.eqb (snd x) (snd y)) (m_extra a) (m_extra b).

Definition check_rename (m : model_obj) (dname : string) (ddim : nat) (o : option model_obj)
           (orig_after : model_obj) : bool :=
  match forward_dist m dname ddim, o with
  | Ok m', Some obs => model_eqb m' obs
  | Err _, None => true
  | _, _ => false
  end && model_eqb m orig_after.

Definition check_bind (m : model_obj) (npos : nat) (kws : list string) (accepted : bool) : bool :=
  match bind_args m npos kws with Ok _ => accepted | Err _ => negb accepted end.
