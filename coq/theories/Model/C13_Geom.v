(* C13 -- executable model of the parameter <-> function maps of cuqi.geometry (Continuous1D/2D,
   Image2D, Discrete, MappedGeometry, KLExpansion, StepExpansion, default geometries), of the shapes
   the geometries report, and of the conversions of Samples / CUQIarray between parameter, function
   and vectorised-function form.  No proofs here.

   Arrays are a shape plus the data flattened in C (row-major) order -- numpy's default memory
   layout; a trailing axis enumerates the members of a batch.  Fortran-order reshape / ravel are
   index permutations of that flat list.  `None` = the implementation raises an exception. *)
From CV Require Import Base.Tac Base.Cmp Base.QcLin.
From Coq Require Import QArith Qcanon.

Inductive order := OC | OF.
Inductive proj := PMean | PMax | PMin.

(* ---------------- multi-index arithmetic ---------------- *)
Definition prodn (s : list nat) : nat := fold_right Nat.mul 1%nat s.

(* Fortran order: first index runs fastest *)
Fixpoint unravelF (s : list nat) (n : nat) : list nat :=
  match s with [] => [] | k :: r => (n mod k)%nat :: unravelF r (n / k)%nat end.
Fixpoint ravelF (s idx : list nat) : nat :=
  match s, idx with k :: r, i :: ir => (i + k * ravelF r ir)%nat | _, _ => 0%nat end.
(* C order: last index runs fastest *)
Fixpoint unravelC (s : list nat) (n : nat) : list nat :=
  match s with [] => [] | k :: r => (n / prodn r)%nat :: unravelC r (n mod prodn r)%nat end.
Fixpoint ravelC (s idx : list nat) : nat :=
  match s, idx with k :: r, i :: ir => (i * prodn r + ravelC r ir)%nat | _, _ => 0%nat end.

Record arr (A : Type) := mkArr { shp : list nat; dat : list A }.
Arguments mkArr {A}. Arguments shp {A}. Arguments dat {A}.

(* numpy squeeze(): drop every axis of length one *)
Definition np_squeeze (s : list nat) : list nat := filter (fun k => negb (k =? 1)%nat) s.

Definition obind {A B} (x : option A) (f : A -> option B) : option B :=
  match x with Some a => f a | None => None end.

Fixpoint omap_list {A B} (f : A -> option B) (l : list A) : option (list B) :=
  match l with
  | [] => Some []
  | x :: r => match f x, omap_list f r with Some y, Some ys => Some (y :: ys) | _, _ => None end
  end.

Section Generic.
Context {A : Type} (d : A).

Definition gather (n : nat) (src : nat -> nat) (x : list A) : list A :=
  map (fun t => nth (src t) x d) (seq 0 n).

(* the Fortran-order flattening of an array stored in C order, and back *)
Definition to_F (s : list nat) (x : list A) : list A := gather (prodn s) (fun f => ravelC s (unravelF s f)) x.
Definition from_F (s : list nat) (q : list A) : list A := gather (prodn s) (fun t => ravelF s (unravelC s t)) q.

Definition squeeze_arr (a : arr A) : arr A := mkArr (np_squeeze (shp a)) (dat a).

(* a.reshape(pre + (-1,), order=o) *)
Definition reshape_tail (pre : list nat) (o : order) (a : arr A) : option (arr A) :=
  let total := prodn (shp a) in
  let P := prodn pre in
  if (P =? 0)%nat then None
  else if negb (total mod P =? 0)%nat then None
  else let s' := pre ++ [(total / P)%nat] in
       Some (mkArr s' (match o with OC => dat a | OF => from_F s' (to_F (shp a) (dat a)) end)).

(* Continuous2D: reshape in C order, then squeeze() every singleton axis *)
Definition cont2d_par2fun (n1 n2 : nat) (a : arr A) : option (arr A) :=
  option_map squeeze_arr (reshape_tail [n1; n2] OC a).
Definition cont2d_fun2par (n1 n2 : nat) (a : arr A) : option (arr A) :=
  option_map squeeze_arr (reshape_tail [(n1 * n2)%nat] OC a).

(* Image2D._vector_to_image: reshape(im_shape+(-1,), order), drop axis 2 iff it has length 1 *)
Definition image_par2fun (r c : nat) (o : order) (visual : bool) (a : arr A) : option (arr A) :=
  if visual then Some a
  else match reshape_tail [r; c] o a with
       | Some b => Some (match shp b with [_; _; 1%nat] => mkArr [r; c] (dat b) | _ => b end)
       | None => None
       end.
(* Image2D.fun2par: funvals.ravel(order) -- of WHATEVER it is given, batch axis included *)
Definition image_fun2par (o : order) (visual : bool) (a : arr A) : option (arr A) :=
  if visual then Some a
  else Some (mkArr [prodn (shp a)] (match o with OC => dat a | OF => to_F (shp a) (dat a) end)).

Definition arr_map (f : A -> A) (a : arr A) : arr A := mkArr (shp a) (map f (dat a)).

(* column j of a (rows, k) array / the (rows, k) array with the given columns *)
Definition col_of (rows k j : nat) (x : list A) : list A := map (fun i => nth (i * k + j)%nat x d) (seq 0 rows).
Definition cols_of (rows k : nat) (x : list A) : list (list A) := map (fun j => col_of rows k j x) (seq 0 k).
Definition of_cols (rows : nat) (cols : list (list A)) : list A :=
  flat_map (fun i => map (fun c => nth i c d) cols) (seq 0 rows).

(* Continuous._reshape_par2fun_input / _reshape_fun2par_input: shape (m,) or (m, k), else ValueError;
   returns the number of columns *)
Definition batch_in (m : nat) (a : arr A) : option nat :=
  match shp a with
  | [n] => if (n =? m)%nat then Some 1%nat else None
  | [n; k] => if (n =? m)%nat then Some k else None
  | _ => None
  end.
End Generic.

(* ---------------- KLExpansion (dst / idst are external numerics) ---------------- *)
Definition kl_modes (N : nat) (nm : option nat) : nat :=
  match nm with None => N | Some k => if (N <? k)%nat then N else k end.

Definition qcn (n : nat) : Qc := qcz (Z.of_nat n).

Fixpoint map2 {A B C} (f : A -> B -> C) (x : list A) (y : list B) : list C :=
  match x, y with a :: x', b :: y' => f a b :: map2 f x' y' | _, _ => [] end.

Definition pad_to (N : nat) (x : list Qc) : list Qc := x ++ repeat 0%Qc (N - length x).

Section KL.
Variables (dst idst : list Qc -> list Qc).     (* scipy.fftpack.dst / idst (type 2), along one column *)

(* modes = coefs@p/normalizer ; pad ; idst(.)/2 ; squeeze *)
Definition kl_par2fun_col (N : nat) (coefs : list Qc) (tau : Qc) (p : list Qc) : list Qc :=
  map (fun v => v / qcn 2)%Qc (idst (pad_to N (map2 (fun c x => c * x / tau)%Qc coefs p))).

(* dst(2 f)[:m] ; coefs_inverse @ . * normalizer / (2 N) *)
Definition kl_fun2par_col (N m : nat) (coefs : list Qc) (tau : Qc) (f : list Qc) : list Qc :=
  map2 (fun c t => / c * t * tau / (qcn 2 * qcn N))%Qc coefs (firstn m (dst (map (fun v => v * qcn 2)%Qc f))).

Definition kl_par2fun (N m : nat) (coefs : list Qc) (tau : Qc) (a : arr Qc) : option (arr Qc) :=
  if (m =? 0)%nat then None else
  match batch_in m a with
  | None => None
  | Some k => Some (squeeze_arr (mkArr [N; k]
                (of_cols 0%Qc N (map (kl_par2fun_col N coefs tau) (cols_of 0%Qc m k (dat a))))))
  end.

Definition kl_fun2par (N m : nat) (coefs : list Qc) (tau : Qc) (a : arr Qc) : option (arr Qc) :=
  if (m =? 0)%nat then None else
  match batch_in N a with
  | None => None
  | Some k => Some (squeeze_arr (mkArr [m; k]
                (of_cols 0%Qc m (map (kl_fun2par_col N m coefs tau) (cols_of 0%Qc N k (dat a))))))
  end.
End KL.

(* coefficient 1/(k+1)^decay for an integer decay rate; for running, the harness supplies the
   implementation's coefficient vector and kl_coefs_ok checks it against 1/(k+1)^(twodecay/2) *)
Definition kl_coef (decay k : nat) : Qc := (/ Qcpower (qcn (S k)) decay)%Qc.
Definition kl_coefs_ok (twodecay : nat) (coefs : list Qc) : bool :=
  forallb (fun kc => let '(k, c) := kc in
                     q_close tol9 (this (c * c * Qcpower (qcn (S k)) twodecay)%Qc) 1 && Qle_bool 0 (this c))
          (combine (seq 0 (length coefs)) coefs).

(* ---------------- StepExpansion ---------------- *)
Section StepIdx.
Context {F : Type}.
Variables (fadd fsub fmul fdiv : F -> F -> F) (fle flt : F -> F -> bool) (fnat : nat -> F).

(* start = x0 + i*L/n_steps ; end = x0 + (i+1)*L/n_steps  (evaluated left to right) *)
Definition step_start (x0 L : F) (n i : nat) : F := fadd x0 (fdiv (fmul (fnat i) L) (fnat n)).
Definition in_step (x0 L : F) (n i : nat) (x : F) : bool :=
  (if (i =? 0)%nat then fle (step_start x0 L n i) x else flt (step_start x0 L n i) x)
  && fle x (step_start x0 L n (S i)).
(* np.where(mask) *)
Definition np_where (f : F -> bool) (grid : list F) : list nat :=
  map fst (filter (fun p => f (snd p)) (combine (seq 0 (length grid)) grid)).
Definition step_indices (grid : list F) (n : nat) : list (list nat) :=
  match grid with
  | [] => []
  | x0 :: _ => let L := fsub (last grid x0) x0 in
               map (fun i => np_where (in_step x0 L n i) grid) (seq 0 n)
  end.
End StepIdx.

Definition q_le (a b : Q) := Qle_bool a b.
Definition q_lt (a b : Q) := negb (Qle_bool b a).
Definition q_nat (n : nat) : Q := inject_Z (Z.of_nat n).
Definition step_indices_Q := @step_indices Q Qplus Qminus Qmult Qdiv q_le q_lt q_nat.

(* _check_grid_setup: n_steps <= nodes, np.allclose(np.diff(grid), grid[1]-grid[0]); a one-node grid
   raises IndexError *)
Fixpoint qdiffs (g : list Q) : list Q :=
  match g with a :: ((b :: _) as r) => (b - a)%Q :: qdiffs r | _ => [] end.
Definition step_grid_ok (grid : list Q) (n : nat) : bool :=
  (n <=? length grid)%nat &&
  match grid with
  | a :: b :: _ => forallb (fun dd => Qle_bool (Qabs.Qabs (dd - (b - a))%Q)
                                             ((1 # 100000000) + (1 # 100000) * Qabs.Qabs (b - a))%Q) (qdiffs grid)
  | _ => false
  end.

Definition memb (t : nat) (l : list nat) : bool := existsb (Nat.eqb t) l.

(* the documented partition computed from the node NUMBERS: node 0 -> step 0; node k>0 -> the i with
   i(N-1) < k n <= (i+1)(N-1), i.e. ceil(k n/(N-1)) - 1.  This is what the interval tests give in exact arithmetic
   on every regular grid (Proofs/C13_StepQ.v) and what the proposed repair fixes/C13_step_partition.diff computes *)
Definition step_of (N n k : nat) : nat := if (k =? 0)%nat then 0%nat else ((k * n + (N - 1) - 1) / (N - 1) - 1)%nat.
Definition idx_of_fun (N n : nat) (s : nat -> nat) : list (list nat) :=
  map (fun i => filter (fun k => (s k =? i)%nat) (seq 0 N)) (seq 0 n).
Definition step_indices_ideal (N n : nat) : list (list nat) := idx_of_fun N n (step_of N n).

(* fun = zeros; for i: fun[indices[i]] = p[i]  -- the last step containing a node wins, a node in
   no step keeps 0 *)
Definition step_node_value (idx : list (list nat)) (p : list Qc) (t : nat) : Qc :=
  match find (fun ip => memb t (fst ip)) (rev (combine idx p)) with
  | Some (_, v) => v
  | None => 0%Qc
  end.
Definition step_par2fun_col (N : nat) (idx : list (list nat)) (p : list Qc) : list Qc :=
  map (step_node_value idx p) (seq 0 N).

Definition qsum (l : list Qc) : Qc := fold_right Qcplus 0%Qc l.
Definition qmaxl (x : Qc) (l : list Qc) : Qc := fold_left (fun a b => if Qle_bool (this a) (this b) then b else a) l x.
Definition qminl (x : Qc) (l : list Qc) : Qc := fold_left (fun a b => if Qle_bool (this b) (this a) then b else a) l x.

(* np.mean of an empty selection is NaN (inner None); np.max / np.min of it raise (outer None) *)
Definition step_project (p : proj) (vals : list Qc) : option (option Qc) :=
  match vals with
  | [] => match p with PMean => Some None | _ => None end
  | v :: r => Some (Some (match p with
                          | PMean => (qsum vals / qcn (length vals))%Qc
                          | PMax => qmaxl v r
                          | PMin => qminl v r
                          end))
  end.
Definition step_fun2par_col (idx : list (list nat)) (p : proj) (f : list Qc) : option (list (option Qc)) :=
  omap_list (fun ids => step_project p (map (fun t => nth t f 0%Qc) ids)) idx.

Definition step_par2fun (N : nat) (idx : list (list nat)) (a : arr Qc) : option (arr Qc) :=
  match batch_in (length idx) a with
  | None => None
  | Some k => Some (squeeze_arr (mkArr [N; k]
                (of_cols 0%Qc N (map (step_par2fun_col N idx) (cols_of 0%Qc (length idx) k (dat a))))))
  end.

Definition step_fun2par (N : nat) (idx : list (list nat)) (p : proj) (a : arr Qc) : option (arr (option Qc)) :=
  match batch_in N a with
  | None => None
  | Some k => match omap_list (step_fun2par_col idx p) (cols_of 0%Qc N k (dat a)) with
              | None => None
              | Some cols => Some (squeeze_arr (mkArr [length idx; k] (of_cols None (length idx) cols)))
              end
  end.

(* ---------------- a matrix acting on function values: numpy's M @ x ---------------- *)
(* x of shape (n,) -> (rows,); x of shape (n,k) -> (rows,k), column by column; n must be the number of columns of M
   (ValueError otherwise); higher-rank x is not modelled (refused) *)
Definition mat_cols (M : list (list Qc)) : nat := match M with [] => 0%nat | r :: _ => length r end.
Definition matmap (M : list (list Qc)) (a : arr Qc) : option (arr Qc) :=
  match shp a with
  | [n] => if (n =? mat_cols M)%nat then Some (mkArr [length M] (qmatvec M (dat a))) else None
  | [n; k] => if (n =? mat_cols M)%nat
              then Some (mkArr [length M; k] (of_cols 0%Qc (length M) (map (qmatvec M) (cols_of 0%Qc n k (dat a)))))
              else None
  | _ => None
  end.

(* ---------------- one type for all geometries (values in Qc) ---------------- *)
Inductive geom :=
| GCont1D (n : nat)                                  (* Continuous1D, _DefaultGeometry1D *)
| GDiscrete (n : nat)
| GCont2D (n1 n2 : nat)
| GImage (r c : nat) (o : order) (visual : bool)     (* Image2D, _DefaultGeometry2D (order C) *)
| GMapped (g : geom) (fm : Qc -> Qc) (fi : option (Qc -> Qc))   (* MappedGeometry: ANY elementwise map, optional imap *)
| GMappedLin (g : geom) (M : list (list Qc)) (Mi : option (list (list Qc)))
      (* MappedGeometry whose map acts on the WHOLE array of function values: x -> M @ x (any matrix: interpolation,
         restriction, permutation, cumulative sum ...; the size may change), optional imap y -> Mi @ y *)
| GKL (N : nat) (nm : option nat) (coefs : list Qc) (tau : Qc) (dstM idstM : list (list Qc))
| GStep (N : nat) (idx : list (list nat)) (p : proj).

Definition all_some (l : list (option Qc)) : option (list Qc) := omap_list (fun x => x) l.

Fixpoint g_par2fun (g : geom) (a : arr Qc) : option (arr Qc) :=
  match g with
  | GCont1D _ | GDiscrete _ => Some a
  | GCont2D n1 n2 => cont2d_par2fun 0%Qc n1 n2 a
  | GImage r c o v => image_par2fun 0%Qc r c o v a
  | GMapped g' fm _ => option_map (arr_map fm) (g_par2fun g' a)
  | GMappedLin g' M _ => obind (g_par2fun g' a) (matmap M)
  | GKL N nm coefs tau _ idstM => kl_par2fun (qmatvec idstM) N (kl_modes N nm) coefs tau a
  | GStep N idx _ => step_par2fun N idx a
  end.

Fixpoint g_fun2par (g : geom) (a : arr Qc) : option (arr Qc) :=
  match g with
  | GCont1D _ | GDiscrete _ => Some a
  | GCont2D n1 n2 => cont2d_fun2par 0%Qc n1 n2 a
  | GImage _ _ o v => image_fun2par 0%Qc o v a
  | GMapped g' _ fi => match fi with Some f => g_fun2par g' (arr_map f a) | None => None end
  | GMappedLin g' _ Mi => match Mi with Some R => obind (matmap R a) (g_fun2par g') | None => None end
  | GKL N nm coefs tau dstM _ => kl_fun2par (qmatvec dstM) N (kl_modes N nm) coefs tau a
  | GStep N idx p =>                  (* NaN results are handled by step_fun2par; here they are refused *)
      obind (step_fun2par N idx p a) (fun r => option_map (mkArr (shp r)) (all_some (dat r)))
  end.

Fixpoint g_par_shape (g : geom) : list nat :=
  match g with
  | GCont1D n | GDiscrete n => [n]
  | GCont2D n1 n2 => [(n1 * n2)%nat]
  | GImage r c _ _ => [(r * c)%nat]
  | GMapped g' _ _ => g_par_shape g'
  | GMappedLin g' _ _ => g_par_shape g'
  | GKL N nm _ _ _ _ => [kl_modes N nm]
  | GStep _ idx _ => [length idx]
  end.

Definition ones (s : list nat) : arr Qc := mkArr s (repeat 1%Qc (prodn s)).

(* fun_shape: declared by the class, or (MappedGeometry) inferred from par2fun(ones(par_dim)) *)
Definition g_fun_shape (g : geom) : option (list nat) :=
  match g with
  | GCont1D n | GDiscrete n => Some [n]
  | GCont2D n1 n2 => Some [n1; n2]
  | GImage r c _ v => Some (if v then [(r * c)%nat] else [r; c])
  | GMapped _ _ _ | GMappedLin _ _ _ => option_map shp (g_par2fun g (ones [prodn (g_par_shape g)]))
  | GKL N _ _ _ _ _ => Some [N]
  | GStep N _ _ => Some [N]
  end.

(* Geometry.fun2vec / vec2fun: identity iff the function shape is one-dimensional; Image2D uses its
   own maps; MappedGeometry delegates to the wrapped geometry *)
Fixpoint g_fun2vec (g : geom) (a : arr Qc) : option (arr Qc) :=
  match g with
  | GCont2D _ _ => None
  | GImage _ _ o v => image_fun2par 0%Qc o v a
  | GMapped g' _ _ | GMappedLin g' _ _ => g_fun2vec g' a
  | _ => Some a
  end.
Fixpoint g_vec2fun (g : geom) (a : arr Qc) : option (arr Qc) :=
  match g with
  | GCont2D _ _ => None
  | GImage r c o v => image_par2fun 0%Qc r c o v a
  | GMapped g' _ _ | GMappedLin g' _ _ => g_vec2fun g' a
  | _ => Some a
  end.

(* funvec_shape: Image2D declares par_shape; otherwise inferred from fun2vec(par2fun(ones)), which
   must be one-dimensional *)
Definition g_funvec_shape (g : geom) : option (list nat) :=
  match g with
  | GImage r c _ _ => Some [(r * c)%nat]
  | _ => match obind (g_par2fun g (ones [prodn (g_par_shape g)])) (g_fun2vec g) with
         | Some r => match shp r with [n] => Some [n] | _ => None end
         | None => None
         end
  end.

(* ---------------- Samples: per-sample conversion loops ---------------- *)
Definition sample_slice (a : arr Qc) (i : nat) : arr Qc :=        (* samples[..., i] *)
  let Ns := last (shp a) 0%nat in
  let pre := removelast (shp a) in
  mkArr pre (map (fun t => nth (t * Ns + i)%nat (dat a) 0%Qc) (seq 0 (prodn pre))).

Definition stack_last (pre : list nat) (cols : list (list Qc)) : arr Qc :=   (* out[..., i] = cols_i *)
  mkArr (pre ++ [length cols]) (of_cols 0%Qc (prodn pre) cols).

(* out[..., i] = value : numpy broadcasting of `value` into the slot, without duplication *)
Fixpoint bcast_rev (s t : list nat) : bool :=
  match s, t with
  | [], _ => true
  | a :: s', b :: t' => ((a =? b)%nat || (a =? 1)%nat) && bcast_rev s' t'
  | _ :: _, [] => false
  end.
Definition bcast_ok (src tgt : list nat) : bool :=
  bcast_rev (rev src) (rev tgt) && (prodn src =? prodn tgt)%nat.

Definition convert_all (conv : arr Qc -> option (arr Qc)) (tgt : list nat) (S : arr Qc) : option (arr Qc) :=
  option_map (stack_last tgt)
    (omap_list (fun i => obind (conv (sample_slice S i))
                               (fun r => if bcast_ok (shp r) tgt then Some (dat r) else None))
               (seq 0 (last (shp S) 0%nat))).

Record samples := mkS { s_arr : arr Qc; s_is_par : bool; s_is_vec : bool }.

Definition samples_funvals (g : geom) (S : samples) : option samples :=
  if negb (s_is_par S) && negb (s_is_vec S) then Some S
  else match g_fun_shape g with
       | None => None
       | Some fs =>
           option_map (fun a => mkS a false (length (shp a) <=? 2)%nat)
                      (convert_all (if s_is_par S then g_par2fun g else g_vec2fun g) fs (s_arr S))
       end.

Definition samples_vector (g : geom) (S : samples) : option samples :=
  if s_is_vec S || s_is_par S then Some S
  else match g_funvec_shape g with
       | None => None
       | Some vs => option_map (fun a => mkS a (s_is_par S) true)
                               (convert_all (g_fun2vec g) [prodn vs] (s_arr S))
       end.

Definition samples_parameters (g : geom) (S : samples) : option samples :=
  if s_is_par S then Some S
  else option_map (fun a => mkS a true true)
         (convert_all (if s_is_vec S then (fun v => obind (g_vec2fun g v) (g_fun2par g)) else g_fun2par g)
                      [prodn (g_par_shape g)] (s_arr S)).

(* ---------------- CUQIarray ---------------- *)
(* funvals: par2fun of the array, flagged is_par=False; parameters: fun2par, flagged is_par=True --
   and a CUQIarray flagged as parameter must be at most one-dimensional (ValueError otherwise) *)
Definition cuqiarray_funvals (g : geom) (a : arr Qc) (is_par : bool) : option (arr Qc * bool) :=
  if is_par then option_map (fun r => (r, false)) (g_par2fun g a) else Some (a, false).
Definition cuqiarray_parameters (g : geom) (a : arr Qc) (is_par : bool) : option (arr Qc * bool) :=
  if is_par then Some (a, true)
  else obind (g_fun2par g a) (fun r => if (length (shp r) <=? 1)%nat then Some (r, true) else None).

(* ---------------- boolean checkers used by the generated case files ---------------- *)
Definition arr_eqb (a b : arr Qc) : bool := natl_eqb (shp a) (shp b) && qcl_eqb (dat a) (dat b).
Definition arr_close (obs model : arr Qc) : bool := natl_eqb (shp obs) (shp model) && qcl_close tol9 (dat obs) (dat model).
Definition oq_close (obs model : option Qc) : bool :=
  match obs, model with None, None => true | Some a, Some b => qc_close tol9 a b | _, _ => false end.
Definition arro_close (obs model : arr (option Qc)) : bool :=
  natl_eqb (shp obs) (shp model) && list_eqb oq_close (dat obs) (dat model).

Inductive mapname := Mpar2fun | Mfun2par | Mfun2vec | Mvec2fun.
Definition g_apply (m : mapname) (g : geom) (a : arr Qc) : option (arr Qc) :=
  match m with Mpar2fun => g_par2fun g a | Mfun2par => g_fun2par g a
             | Mfun2vec => g_fun2vec g a | Mvec2fun => g_vec2fun g a end.

(* exact = true: bit-for-bit (reshapes, selections, dyadic affine maps); false: within 1e-9 (KL, means) *)
Definition check_map (exact : bool) (m : mapname) (g : geom) (input : arr Qc) (observed : option (arr Qc)) : bool :=
  opt_eqb (fun o r => if exact then arr_eqb o r else arr_close o r) observed (g_apply m g input).

Definition check_step_fun2par (N : nat) (idx : list (list nat)) (p : proj) (input : arr Qc)
           (observed : option (arr (option Qc))) : bool :=
  opt_eqb arro_close observed (step_fun2par N idx p input).

Definition check_shapes (g : geom) (o_par : list nat) (o_pardim : nat) (o_fun : option (list nat))
           (o_fundim : option nat) (o_funvec : option (list nat)) : bool :=
  natl_eqb o_par (g_par_shape g) && (o_pardim =? prodn (g_par_shape g))%nat &&
  opt_eqb natl_eqb o_fun (g_fun_shape g) && opt_eqb Nat.eqb o_fundim (option_map prodn (g_fun_shape g)) &&
  opt_eqb natl_eqb o_funvec (g_funvec_shape g).

(* the certificate for dst/idst: dstM * idstM = 2N * I within 1e-9, and the coefficient vector *)
Definition check_kl_cert (N twodecay : nat) (coefs : list Qc) (dstM idstM : list (list Qc)) : bool :=
  kl_coefs_ok twodecay coefs &&
  qcll_close tol9 (map (fun j => qmatvec dstM (qmatvec idstM (qunit N j))) (seq 0 N))
                  (map (fun j => qvscale (qcn 2 * qcn N)%Qc (qunit N j)) (seq 0 N)).

Definition natll_eqb := list_eqb natl_eqb.

(* StepExpansion.__init__ over exact rationals: refused, or the list of index sets *)
Definition step_init_Q (grid : list Q) (n : nat) : option (list (list nat)) :=
  if step_grid_ok grid n then Some (step_indices_Q grid n) else None.
Definition check_step_init_Q (grid : list Q) (n : nat) (observed : option (list (list nat))) : bool :=
  opt_eqb natll_eqb observed (step_init_Q grid n).

(* the repaired StepExpansion.__init__ (node-number partition) *)
Definition check_step_init_ideal (N n : nat) (observed : list (list nat)) : bool :=
  natll_eqb observed (step_indices_ideal N n).

Inductive sop := Sfunvals | Svector | Sparameters.
Definition samples_apply (op : sop) (g : geom) (S : samples) : option samples :=
  match op with Sfunvals => samples_funvals g S | Svector => samples_vector g S | Sparameters => samples_parameters g S end.
Definition samples_eqb (exact : bool) (a b : samples) : bool :=
  (if exact then arr_eqb (s_arr a) (s_arr b) else arr_close (s_arr a) (s_arr b)) &&
  Bool.eqb (s_is_par a) (s_is_par b) && Bool.eqb (s_is_vec a) (s_is_vec b).
(* a chain of conversions, e.g. [Sfunvals; Svector; Sparameters] *)
Fixpoint samples_chain (ops : list sop) (g : geom) (S : samples) : option samples :=
  match ops with [] => Some S | op :: r => obind (samples_apply op g S) (samples_chain r g) end.
Definition check_samples (exact : bool) (ops : list sop) (g : geom) (S : samples) (observed : option samples) : bool :=
  opt_eqb (samples_eqb exact) observed (samples_chain ops g S).

Definition check_cuqiarray (exact : bool) (to_par : bool) (g : geom) (a : arr Qc) (is_par : bool)
           (observed : option (arr Qc * bool)) : bool :=
  opt_eqb (fun o r => (if exact then arr_eqb (fst o) (fst r) else arr_close (fst o) (fst r)) && Bool.eqb (snd o) (snd r))
          observed (if to_par then cuqiarray_parameters g a is_par else cuqiarray_funvals g a is_par).
